# Environment for building the checker and loading /repo offline (see DESIGN.md §2.1).
export PATH=/opt/veriftools/go1.26.8/bin:$PATH
export GOTOOLCHAIN=local GOPROXY=off GOSUMDB=off GOFLAGS=-mod=mod CGO_ENABLED=0
unset GOWORK GOOS GOARCH
