package eng

import (
	"fmt"
	"go/token"
	"strings"

	"golang.org/x/tools/go/ssa"
)

func runC06(c *Check, w *World) {
	tb := NewTB(w)
	ef := NewEffects(tb)
	gen, val := w.Func(OtpPath, "GenerateOCRA"), w.Func(OtpPath, "ValidateOCRA")
	if gen == nil || val == nil {
		c.Fatal("anchor not found: GenerateOCRA / ValidateOCRA")
		return
	}
	ders := derivationsFrom(w, gen)
	if len(ders) != 1 {
		c.Unk("R06.1", FuncName(gen), "derivation", fmt.Sprintf("%d HMAC-finalising functions reachable from GenerateOCRA, expected one", len(ders)), w.Pos(gen.Pos()))
		return
	}
	der := ders[0]
	kp, sp, ip := -1, paramOfIface(der, "Suite"), paramOfType(der, "OCRAInput")
	for i, p := range der.Params {
		if p.Type().String() == "[]byte" {
			kp = i
		}
	}
	argsOK := func(entry *ssa.Function, args []*Term) (bool, string) {
		fn := FuncName(entry)
		es, _ := secretAndCodeParams(tb, entry)
		wantK := fmt.Sprintf("extract(0; call(github.com/ja7ad/otp.DecodeSecret; param(%s#%d)))", fn, es)
		wantS := fmt.Sprintf("param(%s#%d)", fn, paramOfIface(entry, "Suite"))
		wantI := fmt.Sprintf("param(%s#%d)", fn, paramOfType(entry, "OCRAInput"))
		switch {
		case args[kp].String() != wantK:
			return false, "key is " + clip(normT(args[kp]), 160) + ", not DecodeSecret(secret)"
		case args[sp].String() != wantS:
			return false, "suite is " + clip(normT(args[sp]), 160) + ", not the caller's suite"
		case args[ip].String() != wantI:
			return false, "input is " + clip(normT(args[ip]), 200) + ", not the caller's input unchanged"
		}
		return true, ""
	}
	for _, entry := range []*ssa.Function{gen, val} {
		hits := tb.Reach(entry, func(ci ssa.CallInstruction) bool { return ci.Common().StaticCallee() == der }, 8)
		if len(hits) != 1 {
			c.Bad("R06.1", FuncName(entry), "same-derivation", fmt.Sprintf("%d calls of the derivation %s are reached, expected exactly one: generation and validation must share one derivation", len(hits), FuncName(der)), w.Pos(entry.Pos()))
			continue
		}
		ok, why := argsOK(entry, hits[0].Args)
		c.Decide(ok, "R06.1", FuncName(entry), "same-arguments", "the shared derivation receives (DecodeSecret(secret), the caller's suite, the caller's input)", "the derivation is called with different data than generation would use: "+why, w.InstrPos(hits[0].Call))
	}
	// R06.2 / R06.3 comparison core
	vfn := FuncName(val)
	_, codeP := secretAndCodeParams(tb, val)
	suiteP := paramOfIface(val, "Suite")
	wantLen := fmt.Sprintf("field(Digits; invoke((github.com/ja7ad/otp.Suite).Config; param(%s#%d)))", vfn, suiteP)
	checkCompareCore(c, w, tb, "R06", val, codeP, func(h Hit, exp *Term) string {
		e := exp
		for k := 0; k < 4; k++ {
			if e.Op == "extract" && e.Args[0].Op == "call" {
				if cl, ok := e.Args[0].Val.(*ssa.Call); ok && cl.Call.StaticCallee() == der {
					break
				}
			}
			n := tb.Expand(e, 1)
			if n == e {
				break
			}
			e = n
		}
		if e.Op != "extract" || e.Sym != "0" || e.Args[0].Op != "call" {
			return "the expected code is not the first result of the derivation: " + clip(normT(e), 200)
		}
		cl, ok := e.Args[0].Val.(*ssa.Call)
		if !ok || cl.Call.StaticCallee() != der {
			return "the expected code comes from " + e.Args[0].Sym + ", not from the derivation generation uses"
		}
		if ok2, why := argsOK(val, e.Args[0].Args); !ok2 {
			return "the expected code is derived from different data: " + why
		}
		return ""
	})
	// the length test must use the suite's digits
	for _, o := range c.Obls {
		if o.Rule == "R06.6" && o.Construct == "length-test" && o.st == Discharged {
			if !strings.Contains(o.Reason, wantLen) {
				c.Bad("R06.2", vfn, "expected-length", "the length the code is tested against is not suite.Config().Digits of the caller's suite: "+o.Reason, o.Pos)
			} else {
				c.OK("R06.2", vfn, "expected-length", "the expected length is Config().Digits of the caller's suite", o.Pos)
			}
		}
	}
	// R06.4 derivation failure ⇒ rejection: the comparison happens only where the derivation's error is nil
	hits := tb.Reach(val, MatchCallee("crypto/subtle.ConstantTimeCompare", "crypto/hmac.Equal"), 8)
	for _, h := range hits {
		// the error test may sit in the comparing function or in a caller on the chain (before the call that leads on)
		okErr := false
		for _, lv := range h.Levels {
			for _, at := range atomsOf(CondsAt(lv.Site.Block())) {
				if at.Op == token.EQL && isNilConst(at.Y) {
					if ex, ok := at.X.(*ssa.Extract); ok && ex.Index == 1 {
						if _, isCall := ex.Tuple.(*ssa.Call); isCall {
							okErr = true
						}
					}
				}
			}
		}
		c.Decide(okErr, "R06.4", FuncName(h.Fn), "error-before-compare", "the comparison is reached only when the derivation returned no error", "the comparison is reachable although the derivation failed: its empty result may equal an empty submitted code", w.InstrPos(h.Call))
	}
	sent := sentinelErrors(w, tb, ef)
	for f := range w.Reachable(val) {
		if !isBoolErrSig(f.Signature) || f.Blocks == nil {
			continue
		}
		for i, r := range Returns(f) {
			if why := classifyVerdict(w, tb, r.Results[0], r.Results[1], CondsAt(r.Block()), sent, 0); why != "" {
				c.Bad("R06.4", FuncName(f), fmt.Sprintf("verdict#%d", i), why, w.InstrPos(r))
			} else {
				c.OK("R06.4", FuncName(f), fmt.Sprintf("verdict#%d", i), "(true,nil) / (false, non-nil) / forwarded", w.InstrPos(r))
			}
		}
	}
	ruleHistoryIndependence(c, w, tb, ef, "R06.H", gen, val)
	// "the same secret, suite and input": neither operation writes into its arguments (padding appended into a caller's
	// spare capacity wipes the field stored behind it, and validation then derives from other bytes than generation)
	ruleNoParamWrites(c, w, tb, ef, "R06.7", []*ssa.Function{gen, val})
	c.Floor("R06.7", 2)
	checkRESTEndpoints(c, w, tb, ef, "R06.REST", "/ocra/generate", "/ocra/validate")
	c.Floor("R06.1", 2)
	c.Floor("R06.2", 1)
	c.Floor("R06.4", 5)
	c.Floor("R06.6", 4)
}

func init() {
	register(&propDef{
		id:    "C06",
		level: "other",
		explain: "No numerical argument is needed: equivalence follows from sharing. R06.1 GenerateOCRA and ValidateOCRA each reach exactly one call of the same derivation function, with (DecodeSecret(secret), the caller's suite, the caller's input) — terms bound through the closure; R06.2 the length test is against Config().Digits of that suite; " +
			"R06.6 the constant-time comparison is between the whole submitted string and the whole first result of that derivation call, accepted only where the result == 1; R06.4 the comparison is reached only under err == nil of the derivation, and every return of every (bool,error) function on the path is a well-formed verdict (decode / suite / input errors ⇒ (false, that error)). " +
			"The shared path keeps no state between calls (pool discipline, no package state). " +
			"Acceptance additionally requires that the derivation's error was found nil (a failed derivation yields an empty string that an empty code would match).",
		quick:    []Config{CfgNative},
		thorough: []Config{CfgNative, CfgWasm, Cfg386},
		run:      runC06,
	})
}
