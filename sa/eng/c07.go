package eng

import (
	"fmt"
	"strings"

	"golang.org/x/tools/go/ssa"
)

// analyseDecodeArg walks the string handed to the base32 decoder back to the parameter.
func analyseDecodeArg(a *Term, param string) (upper, trim, pad bool, why string) {
	var padInner *Term
	cur := a
	for i := 0; i < 12; i++ {
		switch {
		case cur.String() == param:
			if pad && padInner != nil && !padInner.ContainsStr("strings.TrimSpace") {
				return upper, trim, pad, "the padding amount is computed from the length before white space is trimmed"
			}
			return upper, trim, pad, ""
		case cur.Op == "call" && cur.Sym == "strings.ToUpper" && len(cur.Args) == 1:
			upper = true
			cur = cur.Args[0]
		case cur.Op == "call" && cur.Sym == "strings.TrimSpace" && len(cur.Args) == 1:
			trim = true
			cur = cur.Args[0]
		case cur.Op == "ite":
			// ite(len(Y)%8 == 0; Y; Y + Repeat("=", 8 - len(Y)%8))
			cnd, y, padded := cur.Args[0], cur.Args[1], cur.Args[2]
			rem := "bin(%; len(" + y.String() + "); const(8))"
			okC := cnd.String() == "bin(==; "+rem+"; const(0))" || cnd.String() == "bin(==; const(0); "+rem+")"
			wantPad := "bin(+; " + y.String() + "; call(strings.Repeat; const(\"=\"); bin(-; const(8); " + rem + ")))"
			if !okC || padded.String() != wantPad {
				return upper, trim, pad, "the re-padding is not 'append \"=\" × (8 − len%8) when len%8 ≠ 0': " + clip(cur.String(), 200)
			}
			pad = true
			padInner = y
			cur = y
		case cur.Op == "bin" && cur.Sym == "+" && len(cur.Args) == 2 && cur.Args[1].Op == "call" && cur.Args[1].Sym == "strings.Repeat":
			y := cur.Args[0]
			rem := "bin(%; len(" + y.String() + "); const(8))"
			want := "call(strings.Repeat; const(\"=\"); bin(%; bin(-; const(8); " + rem + "); const(8)))"
			if cur.Args[1].String() != want {
				return upper, trim, pad, "unguarded padding is not \"=\" × ((8 − len%8) % 8): " + clip(cur.Args[1].String(), 160)
			}
			pad = true
			padInner = y
			cur = y
		default:
			return upper, trim, pad, "the text handed to the decoder goes through a step the checker does not know: " + clip(cur.String(), 200)
		}
	}
	return upper, trim, pad, "normalisation chain too long"
}

func runC07(c *Check, w *World) {
	tb := NewTB(w)
	ef := NewEffects(tb)
	dec := w.Func(OtpPath, "DecodeSecret")
	if dec == nil {
		c.Fatal("anchor not found: DecodeSecret")
		return
	}
	fn := FuncName(dec)
	pos := w.Pos(dec.Pos())
	res := tb.Results(dec, nil, nil, 0)
	param := fmt.Sprintf("param(%s#0)", fn)
	if len(res) != 2 {
		c.Unk("R07.1", fn, "decode-pipeline", "DecodeSecret does not return (bytes, error)", pos)
	} else {
		r0 := res[0]
		ok := r0.Op == "extract" && r0.Sym == "0" && r0.Args[0].Op == "call" && r0.Args[0].Sym == "(*encoding/base32.Encoding).DecodeString" && len(r0.Args[0].Args) == 2
		if !ok {
			c.Unk("R07.1", fn, "decode-pipeline", "the result is not the first result of one base32 DecodeString call on every path: "+clip(r0.String(), 240), pos)
		} else {
			call := r0.Args[0]
			c.Decide(call.Args[0].String() == "gval(base32.StdEncoding)", "R07.1", fn, "decoder-identity", "the strict, padded standard alphabet decoder (base32.StdEncoding) is used", "the decoder is "+clip(call.Args[0].String(), 160)+", not base32.StdEncoding (a different alphabet or padding mode accepts other text / other bytes)", pos)
			up, tr, pd, why := analyseDecodeArg(call.Args[1], param)
			if why != "" {
				c.Unk("R07.1", fn, "normalisation", why, pos)
			} else {
				c.Decide(up, "R07.1", fn, "upper-case", "the whole text is upper-cased (strings.ToUpper) before decoding", "the text is not upper-cased: lower- and mixed-case spellings are rejected", pos)
				c.Decide(tr, "R07.1", fn, "trim-space", "surrounding white space is trimmed (strings.TrimSpace)", "surrounding white space is not trimmed", pos)
				c.Decide(pd, "R07.1", fn, "re-padding", "the text is re-padded on the right to a multiple of 8 from its trimmed length", "unpadded spellings are not re-padded to a multiple of 8", pos)
			}
			r1 := res[1]
			c.Decide(r1.String() == "extract(1; "+call.String()+")", "R07.3", fn, "decode-error-returned", "the decoder's error is returned unchanged", "the error result is "+clip(r1.String(), 160)+", not the decoder's error", pos)
		}
	}
	// R07.2: every entry point keys the HMAC with DecodeSecret(secret)
	var entries []*ssa.Function
	for _, f := range w.ExportedAPI() {
		entries = append(entries, f)
	}
	for _, f := range w.ModuleFuncs(WasmPath) {
		if len(w.CallSites(f)) == 0 || f.Name() == "main" {
			entries = append(entries, f)
		}
	}
	nKeyed := 0
	for _, e := range entries {
		if e == dec || e.Name() == "DeriveRFC4226Wasm" || e.Name() == "ValidateOTPWasm" {
			continue // low-level exported pieces of the wasm build take an already decoded key
		}
		hits := tb.Reach(e, MatchCallee("crypto/hmac.New"), 10)
		for _, h := range hits {
			nKeyed++
			k := h.Args[1]
			ok := true
			for _, alt := range k.Alts() {
				if !(alt.Op == "extract" && alt.Sym == "0" && alt.Args[0].Op == "call" && alt.Args[0].Sym == "github.com/ja7ad/otp.DecodeSecret") {
					ok = false
				}
			}
			c.Decide(ok, "R07.2", FuncName(e), "hmac-key@"+strings.Join(h.Chain[len(h.Chain)-1:], ""), "the HMAC key is DecodeSecret(...)#0 on this entry point ("+strings.Join(h.Chain, " > ")+")", "the HMAC key on this entry point is "+clip(normT(k), 200)+": the secret is decoded differently here, so spellings of one secret can give different keys", w.InstrPos(h.Call))
			// and the decode error gates the use
		}
		// decode error => error return
		EachInstr(e, func(in ssa.Instruction) {
			ci, ok := in.(ssa.CallInstruction)
			if ok && ci.Common().StaticCallee() == dec {
				gateDominates(c, w, "R07.3", e, ci, "DecodeSecret")
			}
		})
	}
	c.Count("keyed_hmac_paths", nKeyed)
	ruleHistoryIndependence(c, w, tb, ef, "R07.H", dec)
	c.Floor("R07.1", 4)
	c.Floor("R07.2", 6)
	c.Floor("R07.3", 6)
}

func init() {
	register(&propDef{
		id:    "C07",
		level: "other",
		explain: "R07.1 DecodeSecret's result is, on every path, DecodeString of base32.StdEncoding (strict alphabet, padded) applied to a string whose origin term passes through strings.ToUpper (whole string) and strings.TrimSpace of the parameter and is re-padded on the right with \"=\" × (8 − len%8) when len%8 ≠ 0, the length being taken after trimming (guarded form and the unguarded ((8−n%8)%8) form accepted; any other step is undecided); " +
			"R07.2 from every exported entry point (and every JS-registered function in the js/wasm configuration), with parameters bound through all calls, the key argument of every hmac.New reached is DecodeSecret(…)#0 — no entry point decodes differently; R07.3 the decoder's error is returned and gates further work on every entry point. " +
			"Not decided: RFC 4648 decoding itself and Unicode case/space classes (stdlib): e.g. strings.ToUpper maps 'ſ' to 'S', so eight such runes decode successfully — outside the reach of a structural rule and recorded as a limitation.",
		trusted:  []string{"encoding/base32.StdEncoding.DecodeString, strings.ToUpper, strings.TrimSpace"},
		quick:    []Config{CfgNative, CfgWasm},
		thorough: []Config{CfgNative, CfgWasm, Cfg386},
		run:      runC07,
	})
}
