package eng

import (
	"fmt"
	"strings"

	"golang.org/x/tools/go/ssa"
)

// analyseDecodeArg walks the string handed to the base32 decoder back to the parameter.
func analyseDecodeArg(tb *TB, a *Term, param string) (upper, trim, pad bool, why string) {
	var padInner *Term
	cur := a
	for i := 0; i < 12; i++ {
		switch {
		case cur.String() == param:
			if pad && padInner != nil && !padInner.ContainsStr("strings.TrimSpace") {
				return upper, trim, pad, "the padding amount is computed from the length before white space is trimmed"
			}
			return upper, trim, pad, ""
		case cur.Op == "call" && cur.Sym == "strings.ToUpper" && len(cur.Args) == 1:
			upper = true
			tb.note("unicode-upper")
			cur = cur.Args[0]
		case cur.Op == "call" && len(cur.Args) == 1 && isASCIIUpper(tb, cur):
			upper = true
			tb.note("ascii-upper")
			cur = cur.Args[0]
		case cur.Op == "call" && cur.Sym == "strings.TrimSpace" && len(cur.Args) == 1:
			trim = true
			cur = cur.Args[0]
		case cur.Op == "ite" && len(cur.Args) == 3:
			// (cond over r = len(Y)%8) ? Y + pad : Y, in either orientation
			cnd, t1, t2 := cur.Args[0], cur.Args[1], cur.Args[2]
			var y *Term
			switch {
			case t1.Op == "bin" && t1.Sym == "+" && t1.Args[0].String() == t2.String():
				y = t2
			case t2.Op == "bin" && t2.Sym == "+" && t2.Args[0].String() == t1.String():
				y = t1
			default:
				return upper, trim, pad, "the re-padding is not 'append \"=\" × (8 − len%8) when len%8 ≠ 0': " + clip(cur.String(), 200)
			}
			rem := "bin(%; len(" + y.String() + "); const(8))"
			for r := int64(0); r < 8; r++ {
				cv, ok := evalSmall(cnd, rem, r)
				if !ok {
					return upper, trim, pad, "the re-padding condition is not a comparison of len%8: " + clip(cnd.String(), 160)
				}
				br := t2
				if cv != 0 {
					br = t1
				}
				n := int64(0)
				if br != y {
					cnt, ok := padCount(br.Args[1])
					if !ok {
						return upper, trim, pad, "the appended padding is not a run of \"=\": " + clip(br.Args[1].String(), 160)
					}
					if n, ok = evalSmall(cnt, rem, r); !ok {
						return upper, trim, pad, "the padding amount is not a function of len%8: " + clip(cnt.String(), 160)
					}
				}
				if n != (8-r)%8 {
					return upper, trim, pad, fmt.Sprintf("the re-padding is not 'append \"=\" × (8 − len%%8) when len%%8 ≠ 0': for len%%8 = %d it appends %d", r, n)
				}
			}
			pad = true
			padInner = y
			cur = y
		case cur.Op == "bin" && cur.Sym == "+" && len(cur.Args) == 2:
			y := cur.Args[0]
			rem := "bin(%; len(" + y.String() + "); const(8))"
			cnt, ok := padCount(cur.Args[1])
			if !ok {
				return upper, trim, pad, "the text handed to the decoder goes through a step the checker does not know: " + clip(cur.String(), 200)
			}
			for r := int64(0); r < 8; r++ {
				n, ok := evalSmall(cnt, rem, r)
				if !ok || n != (8-r)%8 {
					return upper, trim, pad, "unguarded padding is not \"=\" × ((8 − len%8) % 8): " + clip(cur.Args[1].String(), 160)
				}
			}
			pad = true
			padInner = y
			cur = y
		default:
			return upper, trim, pad, "the text handed to the decoder goes through a step the checker does not know: " + clip(cur.String(), 200)
		}
	}
	return upper, trim, pad, "normalisation chain too long"
}

// padCount: the number of "=" characters a padding term stands for, as a term.
func padCount(t *Term) (*Term, bool) {
	allEq := func(c *Term) (int, bool) {
		if !c.IsConst() || len(c.Sym) < 3 || c.Sym[0] != '"' {
			return 0, false
		}
		body := c.Sym[1 : len(c.Sym)-1]
		if body == "" || strings.Trim(body, "=") != "" {
			return 0, false
		}
		return len(body), true
	}
	switch {
	case t.Op == "call" && t.Sym == "strings.Repeat" && len(t.Args) == 2 && t.Args[0].IsConst() && t.Args[0].Sym == `"="`:
		return t.Args[1], true
	case t.Op == "slice" && len(t.Args) >= 3:
		n, ok := allEq(t.Args[0])
		if !ok {
			return nil, false
		}
		lo, hi := t.Args[1], t.Args[2]
		if lo.Op == "none" {
			lo = mk("const", "0")
		}
		if hi.Op == "none" {
			hi = mk("const", fmt.Sprint(n))
		}
		// the count is hi-lo only while 0 <= lo <= hi <= n; outside, the slice expression panics — encoded as an
		// amount that can never equal the wanted one (a division by zero makes the fold fail)
		inRange := mk("bin", "*", mk("bin", "<=", hi, mk("const", fmt.Sprint(n))), mk("bin", "<=", lo, hi))
		return mk("bin", "-", mk("bin", "-", hi, lo), mk("bin", "%", mk("const", "0"), inRange)), true
	}
	if n, ok := allEq(t); ok {
		return mk("const", fmt.Sprint(n)), true
	}
	return nil, false
}

// evalSmall folds an integer/boolean term in which the only unknown is the sub-term printed as sym, given value v.
func evalSmall(t *Term, sym string, v int64) (int64, bool) {
	return evalEnv(t, map[string]int64{sym: v})
}

// evalEnv folds an integer/boolean term whose unknowns are the sub-terms printed as the keys of env.
func evalEnv(t *Term, env map[string]int64) (int64, bool) {
	if v, ok := env[t.String()]; ok {
		return v, true
	}
	switch {
	case t.IsConst():
		var n int64
		if _, err := fmt.Sscanf(t.Sym, "%d", &n); err != nil || fmt.Sprint(n) != t.Sym {
			return 0, false
		}
		return n, true
	case t.Op == "conv" && len(t.Args) == 1:
		return evalEnv(t.Args[0], env)
	case t.Op == "bin" && len(t.Args) == 2:
		a, ok1 := evalEnv(t.Args[0], env)
		b, ok2 := evalEnv(t.Args[1], env)
		if !ok1 || !ok2 {
			return 0, false
		}
		bb := func(x bool) (int64, bool) {
			if x {
				return 1, true
			}
			return 0, true
		}
		switch t.Sym {
		case "+":
			return a + b, true
		case "-":
			return a - b, true
		case "*":
			return a * b, true
		case "%":
			if b == 0 {
				return 0, false
			}
			return a % b, true
		case "==":
			return bb(a == b)
		case "!=":
			return bb(a != b)
		case "<":
			return bb(a < b)
		case "<=":
			return bb(a <= b)
		case ">":
			return bb(a > b)
		case ">=":
			return bb(a >= b)
		}
	}
	return 0, false
}

// isASCIIUpper: t is a call of a module function g(s) = strings.Map(h, s) where the capture-free h maps
// a..z to A..Z and every other code point to itself; decided by compiling h's decision paths and folding
// them for every code point 0..0x10FFFF.
func isASCIIUpper(tb *TB, t *Term) bool {
	cl, ok := t.Val.(*ssa.Call)
	if !ok || cl.Call.StaticCallee() == nil || !tb.W.InModule(cl.Call.StaticCallee()) {
		return false
	}
	g := cl.Call.StaticCallee()
	if len(g.Params) != 1 || g.Blocks == nil {
		return false
	}
	rs := tb.Results(g, nil, nil, 0)
	if len(rs) != 1 {
		return false
	}
	r := rs[0]
	if r.Op != "call" || r.Sym != "strings.Map" || len(r.Args) != 2 || r.Args[1].String() != tb.Of(g.Params[0]).String() {
		return false
	}
	var h *ssa.Function
	switch v := r.Args[0].Val.(type) {
	case *ssa.Function:
		h = v
	case *ssa.MakeClosure:
		if len(v.Bindings) == 0 {
			h, _ = v.Fn.(*ssa.Function)
		}
	}
	if h == nil || len(h.Params) != 1 || len(h.FreeVars) != 0 || h.Blocks == nil {
		return false
	}
	paths, err := EnumPaths(h, 64)
	if err != nil || len(paths) == 0 {
		return false
	}
	sym := tb.Of(h.Params[0]).String()
	type cp struct {
		conds []func(int64) int64
		taken []bool
		res   func(int64) int64
	}
	var cps []cp
	for _, p := range paths {
		if p.Ret == nil {
			return false
		}
		var x cp
		for _, pc := range p.Conds {
			f, ok := compileSmall(tb.Of(pc.Cond), sym)
			if !ok {
				return false
			}
			x.conds = append(x.conds, f)
			x.taken = append(x.taken, pc.Taken)
		}
		f, ok := compileSmall(tb.Of(p.Result(0)), sym)
		if !ok {
			return false
		}
		x.res = f
		cps = append(cps, x)
	}
	for r := int64(0); r <= 0x10FFFF; r++ {
		want := r
		if r >= 'a' && r <= 'z' {
			want = r - 32
		}
		hit := 0
		for _, x := range cps {
			on := true
			for i, f := range x.conds {
				if (f(r) != 0) != x.taken[i] {
					on = false
					break
				}
			}
			if !on {
				continue
			}
			hit++
			if x.res(r) != want {
				return false
			}
		}
		if hit != 1 {
			return false
		}
	}
	return true
}

// compileSmall turns an integer/boolean term over one unknown (printed as sym) into a function; only
// constants, +, -, comparisons and rune-preserving conversions are admitted.
func compileSmall(t *Term, sym string) (func(int64) int64, bool) {
	if t.String() == sym {
		return func(v int64) int64 { return v }, true
	}
	switch {
	case t.IsConst():
		var n int64
		if _, err := fmt.Sscanf(t.Sym, "%d", &n); err != nil || fmt.Sprint(n) != t.Sym {
			return nil, false
		}
		return func(int64) int64 { return n }, true
	case t.Op == "conv" && len(t.Args) == 1 && (t.Sym == "rune" || t.Sym == "int32" || t.Sym == "int" || t.Sym == "int64"):
		return compileSmall(t.Args[0], sym)
	case t.Op == "bin" && len(t.Args) == 2:
		a, ok1 := compileSmall(t.Args[0], sym)
		b, ok2 := compileSmall(t.Args[1], sym)
		if !ok1 || !ok2 {
			return nil, false
		}
		bb := func(x bool) int64 {
			if x {
				return 1
			}
			return 0
		}
		switch t.Sym {
		case "+":
			return func(v int64) int64 { return a(v) + b(v) }, true
		case "-":
			return func(v int64) int64 { return a(v) - b(v) }, true
		case "==":
			return func(v int64) int64 { return bb(a(v) == b(v)) }, true
		case "!=":
			return func(v int64) int64 { return bb(a(v) != b(v)) }, true
		case "<":
			return func(v int64) int64 { return bb(a(v) < b(v)) }, true
		case "<=":
			return func(v int64) int64 { return bb(a(v) <= b(v)) }, true
		case ">":
			return func(v int64) int64 { return bb(a(v) > b(v)) }, true
		case ">=":
			return func(v int64) int64 { return bb(a(v) >= b(v)) }, true
		}
	}
	return nil, false
}

// ruleDecodePipeline: DecodeSecret is one strict base32 decode of the upper-cased (ASCII only), trimmed,
// re-padded text on every path, and returns the decoder's error (shared by C07 and, as the reading side of
// "a generated secret decodes to the random bytes", by C08).
func ruleDecodePipeline(c *Check, w *World, tb *TB, dec *ssa.Function, r1, r3 string) {
	fn := FuncName(dec)
	pos := w.Pos(dec.Pos())
	res := tb.Results(dec, nil, nil, 0)
	param := fmt.Sprintf("param(%s#0)", fn)
	if len(res) != 2 {
		c.Unk(r1, fn, "decode-pipeline", "DecodeSecret does not return (bytes, error)", pos)
	} else {
		r0 := res[0]
		ok := r0.Op == "extract" && r0.Sym == "0" && r0.Args[0].Op == "call" && r0.Args[0].Sym == "(*encoding/base32.Encoding).DecodeString" && len(r0.Args[0].Args) == 2
		if !ok {
			c.Unk(r1, fn, "decode-pipeline", "the result is not the first result of one base32 DecodeString call on every path: "+clip(r0.String(), 240), pos)
		} else {
			call := r0.Args[0]
			c.Decide(call.Args[0].String() == "gval(base32.StdEncoding)", r1, fn, "decoder-identity", "the strict, padded standard alphabet decoder (base32.StdEncoding) is used", "the decoder is "+clip(call.Args[0].String(), 160)+", not base32.StdEncoding (a different alphabet or padding mode accepts other text / other bytes)", pos)
			tb.notes = map[string]bool{}
			up, tr, pd, why := analyseDecodeArg(tb, call.Args[1], param)
			if why != "" {
				c.Unk(r1, fn, "normalisation", why, pos)
			} else {
				c.Decide(up, r1, fn, "upper-case", "the whole text is upper-cased before decoding", "the text is not upper-cased: lower- and mixed-case spellings are rejected", pos)
				if up {
					c.Decide(!tb.notes["unicode-upper"], r1, fn, "ascii-case-folding", "only the ASCII letters a-z are folded (the folding function maps every other code point to itself, checked over all 0..0x10FFFF)", "strings.ToUpper folds non-ASCII letters onto the alphabet ('ſ' U+017F → 'S', 'ı' U+0131 → 'I'): text outside the base32 alphabet such as \"ſſſſſſſſ\" is accepted and decoded as \"SSSSSSSS\"", pos)
				}
				c.Decide(tr, r1, fn, "trim-space", "surrounding white space is trimmed (strings.TrimSpace)", "surrounding white space is not trimmed", pos)
				c.Decide(pd, r1, fn, "re-padding", "the text is re-padded on the right to a multiple of 8 from its trimmed length", "unpadded spellings are not re-padded to a multiple of 8", pos)
			}
			r1 := res[1]
			c.Decide(r1.String() == "extract(1; "+call.String()+")", r3, fn, "decode-error-returned", "the decoder's error is returned unchanged", "the error result is "+clip(r1.String(), 160)+", not the decoder's error", pos)
		}
	}
}

func runC07(c *Check, w *World) {
	tb := NewTB(w)
	ef := NewEffects(tb)
	dec := w.Func(OtpPath, "DecodeSecret")
	if dec == nil {
		c.Fatal("anchor not found: DecodeSecret")
		return
	}
	ruleDecodePipeline(c, w, tb, dec, "R07.1", "R07.3")
	// R07.2: every entry point keys the HMAC with DecodeSecret(secret)
	var entries []*ssa.Function
	for _, f := range w.ExportedAPI() {
		entries = append(entries, f)
	}
	for _, f := range w.ModuleFuncs(WasmPath) {
		// entry points of the binding: no call site inside the module (JS-registered functions are called from syscall/js)
		inModule := 0
		for _, s := range w.CallSites(f) {
			if w.InModule(s.Parent()) {
				inModule++
			}
		}
		if inModule == 0 || f.Name() == "main" {
			entries = append(entries, f)
		}
	}
	nKeyed := 0
	for _, e := range entries {
		if e == dec || e.Name() == "DeriveRFC4226Wasm" || e.Name() == "ValidateOTPWasm" {
			continue // low-level exported pieces of the wasm build take an already decoded key
		}
		hits := tb.Reach(e, MatchCallee("crypto/hmac.New"), 10)
		for _, h := range hits {
			nKeyed++
			k := h.Args[1]
			ok := true
			for _, alt := range k.Alts() {
				if !(alt.Op == "extract" && alt.Sym == "0" && alt.Args[0].Op == "call" && alt.Args[0].Sym == "github.com/ja7ad/otp.DecodeSecret") {
					ok = false
				}
			}
			c.Decide(ok, "R07.2", FuncName(e), "hmac-key@"+strings.Join(h.Chain[len(h.Chain)-1:], ""), "the HMAC key is DecodeSecret(...)#0 on this entry point ("+strings.Join(h.Chain, " > ")+")", "the HMAC key on this entry point is "+clip(normT(k), 200)+": the secret is decoded differently here, so spellings of one secret can give different keys", w.InstrPos(h.Call))
			// and the decode error gates the use
		}
		// decode error => error return
		EachInstr(e, func(in ssa.Instruction) {
			ci, ok := in.(ssa.CallInstruction)
			if ok && ci.Common().StaticCallee() == dec {
				gateDominates(c, w, "R07.3", e, ci, "DecodeSecret")
			}
		})
	}
	c.Count("keyed_hmac_paths", nKeyed)
	ruleHistoryIndependence(c, w, tb, ef, "R07.H", dec)
	// the REST entry points hand the secret through (TrimSpace at most) and only test it for presence
	checkRESTEndpoints(c, w, tb, ef, "R07.REST", "/totp/generate", "/totp/validate", "/hotp/generate", "/hotp/validate", "/ocra/generate", "/ocra/validate", "/otp/url")
	c.Floor("R07.1", 4)
	c.Floor("R07.2", 6)
	c.Floor("R07.3", 6)
}

func init() {
	register(&propDef{
		id:    "C07",
		level: "other",
		explain: "R07.1 DecodeSecret's result is, on every path, DecodeString of base32.StdEncoding (strict alphabet, padded) applied to a string whose origin term passes through strings.ToUpper (whole string) and strings.TrimSpace of the parameter and is re-padded on the right with \"=\" × (8 − len%8) when len%8 ≠ 0, the length being taken after trimming (guarded form and the unguarded ((8−n%8)%8) form accepted; any other step is undecided); " +
			"R07.2 from every exported entry point (and every JS-registered function in the js/wasm configuration), with parameters bound through all calls, the key argument of every hmac.New reached is DecodeSecret(…)#0 — no entry point decodes differently; R07.3 the decoder's error is returned and gates further work on every entry point. " +
			"Not decided: RFC 4648 decoding itself and Unicode case/space classes (stdlib): e.g. strings.ToUpper maps 'ſ' to 'S', so eight such runes decode successfully — outside the reach of a structural rule and recorded as a limitation.",
		trusted:  []string{"encoding/base32.StdEncoding.DecodeString, strings.ToUpper, strings.TrimSpace"},
		quick:    []Config{CfgNative, CfgWasm},
		thorough: []Config{CfgNative, CfgWasm, Cfg386},
		run:      runC07,
	})
}
