package eng

import (
	"fmt"
	"go/ast"
	"go/constant"
	"go/token"
	"go/types"
	"strings"

	"golang.org/x/tools/go/ssa"
)

func isBoolErrSig(sig *types.Signature) bool {
	r := sig.Results()
	if r.Len() != 2 {
		return false
	}
	b, ok := r.At(0).Type().Underlying().(*types.Basic)
	return ok && b.Kind() == types.Bool && isErrorType(r.At(1).Type())
}

// sentinelErrors: package-level error variables initialised by errors.New / fmt.Errorf and never
// written outside package initialisation: always non-nil.
func sentinelErrors(w *World, tb *TB, ef *Effects) map[string]bool {
	out := map[string]bool{}
	written := map[string]bool{}
	for _, f := range w.ModuleFuncs() {
		if isInit(f) {
			continue
		}
		for _, e := range ef.Of(f) {
			if e.Root.Op == "global" || e.Root.Op == "gval" {
				written[e.Root.Sym] = true
			}
		}
	}
	for path, p := range w.Pkgs {
		if !strings.HasPrefix(path, OtpPath) {
			continue
		}
		for _, file := range p.Syntax {
			for _, d := range file.Decls {
				gd, ok := d.(*ast.GenDecl)
				if !ok || gd.Tok != token.VAR {
					continue
				}
				for _, s := range gd.Specs {
					vs := s.(*ast.ValueSpec)
					for i, n := range vs.Names {
						if i >= len(vs.Values) {
							continue
						}
						call, ok := ast.Unparen(vs.Values[i]).(*ast.CallExpr)
						if !ok {
							continue
						}
						sel, ok := call.Fun.(*ast.SelectorExpr)
						if !ok {
							continue
						}
						if fn, ok := p.TypesInfo.ObjectOf(sel.Sel).(*types.Func); ok && (fn.FullName() == "errors.New" || fn.FullName() == "fmt.Errorf") {
							sym := p.Types.Name() + "." + n.Name
							if !written[sym] {
								out[sym] = true
							}
						}
					}
				}
			}
		}
	}
	return out
}

// nonNilAt: is error value v provably non-nil when control reaches it through conds?
func nonNilAt(tb *TB, v ssa.Value, conds []Cond, sentinels map[string]bool, depth int) bool {
	if depth > 6 {
		return false
	}
	switch x := v.(type) {
	case *ssa.Const:
		return false
	case *ssa.MakeInterface:
		return true // a concrete value converted to error (e.g. errResp{})
	case *ssa.Call:
		n := CalleeName(x.Common())
		if n == "errors.New" || n == "fmt.Errorf" || n == "errors.Join" && false {
			return true
		}
	case *ssa.UnOp:
		if x.Op == token.MUL {
			if g, ok := x.X.(*ssa.Global); ok && sentinels[valID(g)] {
				return true
			}
		}
	case *ssa.Phi:
		for i, e := range x.Edges {
			if !nonNilAt(tb, e, EdgeConds(x.Block().Preds[i], x.Block()), sentinels, depth+1) {
				return false
			}
		}
		return true
	}
	for _, at := range atomsOf(conds) {
		if at.Op != token.NEQ {
			continue
		}
		if (at.X == v && isNilConst(at.Y)) || (at.Y == v && isNilConst(at.X)) {
			return true
		}
		// same origin term (e.g. the error reloaded from a cell)
		if isNilConst(at.Y) && tb.Of(at.X).String() == tb.Of(v).String() && !tb.Of(v).ContainsStr("cycle(") {
			return true
		}
	}
	return false
}

// classifyVerdict checks one (bool, error) result pair reached under conds.
// Returns "" when the pair is (true,nil), (false,non-nil) or a tail of another verdict function.
func classifyVerdict(w *World, tb *TB, r0, r1 ssa.Value, conds []Cond, sentinels map[string]bool, depth int) string {
	if depth > 6 {
		return "verdict too deeply nested to classify"
	}
	// tail call: both results extracted from the same call of a (bool, error) function
	if e0, ok := r0.(*ssa.Extract); ok {
		if e1, ok := r1.(*ssa.Extract); ok && e0.Tuple == e1.Tuple && e0.Index == 0 && e1.Index == 1 {
			if c, ok := e0.Tuple.(*ssa.Call); ok {
				if isBoolErrSig(c.Call.Signature()) {
					callees := w.Callees(c)
					all := len(callees) > 0
					for _, cal := range callees {
						if !w.InModule(cal) {
							all = false
						}
					}
					if all {
						return "" // inductively a verdict of module functions that are checked themselves
					}
					return "verdict forwarded from a function outside the module"
				}
			}
		}
	}
	// phis: split per incoming edge (both results may be phis of the same block)
	if p0, ok := r0.(*ssa.Phi); ok {
		for i := range p0.Edges {
			e1 := r1
			if p1, ok := r1.(*ssa.Phi); ok && p1.Block() == p0.Block() {
				e1 = p1.Edges[i]
			}
			if why := classifyVerdict(w, tb, p0.Edges[i], e1, EdgeConds(p0.Block().Preds[i], p0.Block()), sentinels, depth+1); why != "" {
				return why
			}
		}
		return ""
	}
	if p1, ok := r1.(*ssa.Phi); ok {
		for i := range p1.Edges {
			if why := classifyVerdict(w, tb, r0, p1.Edges[i], EdgeConds(p1.Block().Preds[i], p1.Block()), sentinels, depth+1); why != "" {
				return why
			}
		}
		return ""
	}
	// results spilled to cells by defer: resolve through the origin term when it is a plain constant
	c0, ok := r0.(*ssa.Const)
	if !ok {
		t := tb.Of(r0)
		if t.IsConst() && (t.Sym == "true" || t.Sym == "false") {
			if t.Sym == "true" {
				if tb.Of(r1).IsConst() && tb.Of(r1).Sym == "nil" {
					return ""
				}
				return "(true, possibly non-nil error)"
			}
			return "verdict held in a local cell: cannot pair false with a non-nil error"
		}
		return "the boolean verdict is not a constant on this return (" + t.String() + "): its relation to the error cannot be established"
	}
	if c0.Value != nil && c0.Value.String() == "true" {
		if isNilConst(r1) {
			return ""
		}
		// a named error result that is known to be nil where the verdict is accepted: tested == nil on the way
		for _, at := range atomsOf(conds) {
			if at.Op == token.EQL && ((at.X == r1 && isNilConst(at.Y)) || (at.Y == r1 && isNilConst(at.X))) {
				return ""
			}
		}
		return "returns (true, " + tb.Of(r1).String() + "): an accepting verdict together with a possibly non-nil error"
	}
	// false: the error must be provably non-nil
	if nonNilAt(tb, r1, conds, sentinels, 0) {
		return ""
	}
	if isNilConst(r1) {
		return "returns (false, nil): a rejecting verdict without an error"
	}
	return "returns false with an error that may be nil (" + tb.Of(r1).String() + ")"
}

// ruleVerdictPairing (R13.1)
func ruleVerdictPairing(c *Check, w *World, tb *TB, ef *Effects, rule string) {
	sent := sentinelErrors(w, tb, ef)
	c.Count("sentinel_errors", len(sent))
	for _, f := range w.ModuleFuncs() {
		if !isBoolErrSig(f.Signature) || f.Blocks == nil {
			continue
		}
		for i, r := range Returns(f) {
			construct := fmt.Sprintf("return#%d", i)
			why := classifyVerdict(w, tb, r.Results[0], r.Results[1], CondsAt(r.Block()), sent, 0)
			if why == "" {
				c.OK(rule, FuncName(f), construct, "verdict is (true, nil), (false, provably non-nil error) or forwarded from a checked verdict function", w.InstrPos(r))
			} else {
				c.Bad(rule, FuncName(f), construct, why, w.InstrPos(r))
			}
		}
	}
}

// secretParams: string parameters of exported otp functions that flow into the parameter of
// DecodeSecret or into the key argument of hmac.New (pass 1: one label bit per parameter).
func secretParams(w *World) map[*ssa.Parameter]bool {
	out := map[*ssa.Parameter]bool{}
	dec := w.Func(OtpPath, "DecodeSecret")
	var cands []*ssa.Parameter
	for _, f := range w.ExportedAPI() {
		for _, p := range f.Params {
			if b, ok := p.Type().Underlying().(*types.Basic); ok && b.Kind() == types.String {
				cands = append(cands, p)
			}
		}
	}
	for start := 0; start < len(cands); start += 60 {
		end := start + 60
		if end > len(cands) {
			end = len(cands)
		}
		t, fns := newOtpTaint(w)
		t.Source = nil
		for i, p := range cands[start:end] {
			t.AddLabel(t.N(p), Label(1)<<uint(i))
		}
		t.Build()
		t.Solve()
		var reach Label
		if dec != nil && len(dec.Params) > 0 {
			reach |= t.Eff(dec.Params[0])
		}
		for _, f := range fns {
			EachInstr(f, func(in ssa.Instruction) {
				if ci, ok := in.(ssa.CallInstruction); ok && CalleeName(ci.Common()) == "crypto/hmac.New" && len(ci.Common().Args) == 2 {
					reach |= t.Eff(ci.Common().Args[1])
				}
			})
		}
		for i, p := range cands[start:end] {
			if reach&(Label(1)<<uint(i)) != 0 {
				out[p] = true
			}
		}
	}
	if dec != nil && len(dec.Params) > 0 {
		out[dec.Params[0]] = true
	}
	return out
}

var errConstructors = map[string]bool{"fmt.Errorf": true, "errors.New": true, "errors.Join": true}

// errors of these callees do not echo their input (position / single byte / fixed text only)
func extErrClean(name string) bool {
	switch name {
	case "(*encoding/base32.Encoding).DecodeString", "(*encoding/base32.Encoding).Decode", "encoding/hex.DecodeString", "encoding/hex.Decode",
		"crypto/rand.Read", "io.ReadFull", "encoding/json.Marshal", "(hash.Hash).Write":
		return true
	}
	return false
}

// ruleNoDisclosure (R13.2): neither the secret nor anything HMAC-derived reaches an error.
func ruleNoDisclosure(c *Check, w *World, rule string) {
	sp := secretParams(w)
	c.Count("secret_parameters", len(sp))
	t, fns := newOtpTaint(w)
	t.ExtErrClean = extErrClean
	for p := range sp {
		n := t.N(p)
		t.AddLabel(n, LK)
	}
	// provisioning URLs carry the secret in their query: whole renderings of a URL or of its query, and the
	// "secret" query value, are secret; the other query values are not
	t.ExtOverride = func(ci ssa.CallInstruction) (Label, bool) {
		switch CalleeName(ci.Common()) {
		case "(*net/url.URL).String", "(*net/url.URL).Redacted", "(*net/url.URL).RequestURI", "(*net/url.URL).MarshalBinary", "(net/url.Values).Encode":
			return LK, true
		case "(*net/url.URL).Query":
			return 0, true
		case "(net/url.Values).Get":
			args := ci.Common().Args
			if k, ok := args[len(args)-1].(*ssa.Const); ok && k.Value != nil && k.Value.Kind() == constant.String {
				if constant.StringVal(k.Value) == "secret" {
					return LK, true
				}
				return 0, true
			}
		}
		return 0, false
	}
	for _, f := range fns {
		EachInstr(f, func(in ssa.Instruction) {
			fa, ok := in.(*ssa.FieldAddr)
			if !ok {
				return
			}
			if n := fieldName(fa.X.Type(), fa.Field); n != "RawQuery" && n != "Opaque" && n != "RawFragment" && n != "Fragment" {
				return
			}
			if !strings.HasSuffix(fa.X.Type().String(), "net/url.URL") {
				return
			}
			if refs := fa.Referrers(); refs != nil {
				for _, r := range *refs {
					if u, ok := r.(*ssa.UnOp); ok && u.Op == token.MUL {
						t.AddLabel(t.N(u), LK)
					}
				}
			}
		})
	}
	t.Build()
	t.Solve()
	sites := 0
	for _, f := range fns {
		pk := fnPkgPath(f)
		if pk != OtpPath && pk != WasmPath {
			continue
		}
		EachInstr(f, func(in ssa.Instruction) {
			ci, ok := in.(ssa.CallInstruction)
			if !ok {
				return
			}
			name := CalleeName(ci.Common())
			if !errConstructors[name] {
				return
			}
			sites++
			var l Label
			for _, a := range ci.Common().Args {
				l |= t.Eff(a)
			}
			construct := "error-constructor:" + name + ":" + firstStringArg(ci)
			if ty := secretBearingArg(ci); ty != "" {
				c.Bad(rule, FuncName(f), construct, "a value of type "+ty+" is formatted into an error: it prints the provisioning URL / parameter set including the secret", w.InstrPos(in))
				return
			}
			switch {
			case l&LH != 0:
				c.Bad(rule, FuncName(f), construct, "an HMAC-derived value (the code that would be accepted, or data it is computed from) is formatted into an error", w.InstrPos(in))
			case l&LK != 0:
				c.Bad(rule, FuncName(f), construct, "the secret (or key bytes decoded from it) is formatted into an error", w.InstrPos(in))
			default:
				c.OK(rule, FuncName(f), construct, "no secret or HMAC-derived argument", w.InstrPos(in))
			}
		})
	}
	// error results of exported operations must not carry K/H through echoing stdlib errors
	for _, f := range w.ExportedAPI() {
		res := f.Signature.Results()
		for i := 0; i < res.Len(); i++ {
			if !isErrorType(res.At(i).Type()) {
				continue
			}
			l := t.effN(t.ret(f)[i], 3, map[int]bool{})
			construct := fmt.Sprintf("error-result#%d", i)
			switch {
			case l&LH != 0:
				c.Bad(rule, FuncName(f), construct, "the error returned may carry HMAC-derived data (an error of a callee that echoes its input)", w.Pos(f.Pos()))
			case l&LK != 0:
				c.Bad(rule, FuncName(f), construct, "the error returned may carry the secret (an error of a callee that echoes its input)", w.Pos(f.Pos()))
			default:
				c.OK(rule, FuncName(f), construct, "returned error carries neither secret nor HMAC-derived data", w.Pos(f.Pos()))
			}
		}
	}
	c.Count("error_constructor_sites", sites)
}

// secretBearingArg: an argument (also inside the variadic list) whose type prints the secret when formatted:
// a URL, its query values, or a module struct with a Secret field.
func secretBearingArg(ci ssa.CallInstruction) string {
	var bearingD func(t types.Type, depth int) string
	bearingD = func(t types.Type, depth int) string {
		s := t.String()
		for _, n := range []string{"net/url.URL", "net/url.Values", "net/url.Userinfo"} {
			if strings.HasSuffix(s, n) {
				return s
			}
		}
		u := t
		if p, ok := u.Underlying().(*types.Pointer); ok {
			u = p.Elem()
		}
		if st, ok := u.Underlying().(*types.Struct); ok && depth < 4 {
			for i := 0; i < st.NumFields(); i++ {
				if st.Field(i).Name() == "Secret" {
					return s
				}
				// a wrapper struct around a URL (type redactedURL struct{ *url.URL }) prints it when formatted by value
				if in := bearingD(st.Field(i).Type(), depth+1); in != "" {
					return s + " (contains " + in + ")"
				}
			}
		}
		return ""
	}
	bearing := func(t types.Type) string { return bearingD(t, 0) }
	var vals []ssa.Value
	for _, a := range ci.Common().Args {
		vals = append(vals, a)
		if sl, ok := a.(*ssa.Slice); ok {
			if al, ok := sl.X.(*ssa.Alloc); ok {
				if refs := al.Referrers(); refs != nil {
					for _, r := range *refs {
						if ia, ok := r.(*ssa.IndexAddr); ok && ia.Referrers() != nil {
							for _, rr := range *ia.Referrers() {
								if st, ok := rr.(*ssa.Store); ok {
									vals = append(vals, st.Val)
								}
							}
						}
					}
				}
			}
		}
	}
	for _, v := range vals {
		for {
			switch x := v.(type) {
			case *ssa.MakeInterface:
				v = x.X
				continue
			case *ssa.ChangeInterface:
				v = x.X
				continue
			}
			break
		}
		if b := bearing(v.Type()); b != "" {
			return b
		}
	}
	return ""
}

func firstStringArg(ci ssa.CallInstruction) string {
	for _, a := range ci.Common().Args {
		if k, ok := a.(*ssa.Const); ok && k.Value != nil {
			s := k.Value.ExactString()
			if len(s) > 40 {
				s = s[:40]
			}
			return s
		}
	}
	return ""
}

func init() {
	register(&propDef{
		id:    "C13",
		level: "other",
		explain: "R13.1: for every function of the module with result type (bool, error) (the public validators, their helpers and closures, and the js/wasm validator), every return — with phis split per incoming edge and the edge's branch conditions — is (const true, const nil), (const false, e) with e provably non-nil " +
			"(a sentinel initialised by errors.New and never written, an error constructor call, or a value on the true edge of e != nil), or both results of one call of another such module function (inductive). Anything else, in particular (false, nil) and (true, err), is reported with the return site. " +
			"R13.2: information flow (engine of C09) with labels K = every string parameter of an exported function that reaches DecodeSecret / the hmac.New key (found by a first per-parameter flow pass) and H = HMAC output: no argument of fmt.Errorf / errors.New in otp and wasm carries K or H, and no error result of an exported operation carries K or H through an input-echoing library error (strconv); base32/hex decode errors are summarised as position-only. " +
			"Not decided: logging (the wasm binding logs codes to the console, which is not an error per the statement). " +
			"R13.3 every error result of a call in the library is looked at (tested, returned, wrapped or stored): an error overwritten by the next step before anyone read it cannot become the (false, error) verdict.",
		trusted:  []string{"base32.CorruptInputError and hex.InvalidByteError carry a position / one byte, not the input"},
		quick:    []Config{CfgNative, CfgWasm},
		thorough: []Config{CfgNative, CfgWasm, Cfg386},
		run: func(c *Check, w *World) {
			tb := NewTB(w)
			ef := NewEffects(tb)
			ruleVerdictPairing(c, w, tb, ef, "R13.1")
			ruleNoDisclosure(c, w, "R13.2")
			// a failure cause that nobody looks at cannot become the (false, error) verdict: no error result of a call
			// in the library is overwritten or dropped unread
			{
				var lf []*ssa.Function
				for _, f := range w.ModuleFuncs(OtpPath) {
					if f.Blocks != nil && !isInit(f) && !strings.HasPrefix(f.Name(), "Control") {
						lf = append(lf, f)
					}
				}
				sortFuncs(lf)
				ruleErrorsUsed(c, w, "R13.3", lf)
			}
			if w.Cfg.Name == CfgNative.Name {
				runControl(c, "R13.1", []string{"ControlBadVerdict|"}, func(sink *Check, cw *World) {
					ctb := NewTB(cw)
					ruleVerdictPairing(sink, cw, ctb, NewEffects(ctb), "R13.1")
				})
			}
			c.Floor("R13.1", 12)
			c.Floor("R13.2", 30)
			c.Floor("R13.3", 20)
		},
	})
}
