package eng

import (
	"fmt"
	"go/ast"
	"go/token"
	"go/types"
	"os"
	"path/filepath"
	"sort"
	"strings"

	"golang.org/x/tools/go/callgraph"
	"golang.org/x/tools/go/callgraph/cha"
	"golang.org/x/tools/go/callgraph/vta"
	"golang.org/x/tools/go/packages"
	"golang.org/x/tools/go/ssa"
	"golang.org/x/tools/go/ssa/ssautil"
)

const (
	OtpPath  = "github.com/ja7ad/otp"
	ApiPath  = "github.com/ja7ad/otp/internal/app/api"
	CmdPath  = "github.com/ja7ad/otp/internal/app/cmd"
	DocsPath = "github.com/ja7ad/otp/internal/app/docs"
	WasmPath = "github.com/ja7ad/otp/wasm"
)

// RepoDir is the tree analysed; overridable for the self-test on scratch copies.
var RepoDir = "/repo"

type Config struct {
	Name string
	Env  []string
}

var (
	CfgNative = Config{"linux/amd64", []string{"GOOS=linux", "GOARCH=amd64"}}
	CfgWasm   = Config{"js/wasm", []string{"GOOS=js", "GOARCH=wasm"}}
	Cfg386    = Config{"linux/386", []string{"GOOS=linux", "GOARCH=386"}}
)

// World is one loaded build configuration of /repo.
type World struct {
	Cfg     Config
	Fset    *token.FileSet
	Pkgs    map[string]*packages.Package
	Prog    *ssa.Program
	SPkgs   map[string]*ssa.Package
	cg      *callgraph.Graph
	all     map[*ssa.Function]bool
	mod     []*ssa.Function
	nwCache map[*ssa.Global]bool
}

func cleanEnv(extra []string) []string {
	var env []string
	for _, e := range os.Environ() {
		if strings.HasPrefix(e, "GOFLAGS=") || strings.HasPrefix(e, "GOWORK=") || strings.HasPrefix(e, "GOOS=") || strings.HasPrefix(e, "GOARCH=") {
			continue
		}
		env = append(env, e)
	}
	env = append(env, "GOFLAGS=", "GOPROXY=off", "GOSUMDB=off", "GOTOOLCHAIN=local", "CGO_ENABLED=0")
	return append(env, extra...)
}

// Load type-checks and builds SSA for every package of the repository in one configuration.
func Load(cfg Config, tests bool) (*World, error) {
	pc := &packages.Config{Mode: packages.LoadAllSyntax, Dir: RepoDir, Env: cleanEnv(cfg.Env), Tests: tests}
	pkgs, err := packages.Load(pc, OtpPath+"/...")
	if err != nil {
		return nil, fmt.Errorf("load %s: %v", cfg.Name, err)
	}
	var errs []string
	packages.Visit(pkgs, nil, func(p *packages.Package) {
		for _, e := range p.Errors {
			errs = append(errs, e.Error())
		}
	})
	if len(errs) > 0 {
		return nil, fmt.Errorf("load %s: %d type/load errors, first: %s", cfg.Name, len(errs), errs[0])
	}
	w := &World{Cfg: cfg, Pkgs: map[string]*packages.Package{}, SPkgs: map[string]*ssa.Package{}}
	prog, _ := ssautil.AllPackages(pkgs, ssa.InstantiateGenerics)
	prog.Build()
	w.Prog = prog
	w.Fset = prog.Fset
	for _, p := range pkgs {
		if strings.HasSuffix(p.ID, ".test") || strings.Contains(p.ID, "[") {
			if !tests {
				continue
			}
		}
		if _, dup := w.Pkgs[p.PkgPath]; dup && !strings.Contains(p.ID, "[") {
			continue
		}
		w.Pkgs[p.PkgPath] = p
		if sp := prog.Package(p.Types); sp != nil {
			w.SPkgs[p.PkgPath] = sp
		}
	}
	if w.Pkgs[OtpPath] == nil || w.SPkgs[OtpPath] == nil {
		return nil, fmt.Errorf("load %s: package %s not found (got %d packages)", cfg.Name, OtpPath, len(pkgs))
	}
	w.all = ssautil.AllFunctions(prog)
	// nested function literals that AllFunctions does not reach (e.g. the yield closures of range-over-func loops)
	var addAnon func(f *ssa.Function)
	addAnon = func(f *ssa.Function) {
		for _, a := range f.AnonFuncs {
			if !w.all[a] {
				w.all[a] = true
			}
			addAnon(a)
		}
	}
	for f := range w.all {
		if f.Pkg != nil {
			addAnon(f)
		}
	}
	for f := range w.all {
		if w.InModule(f) && f.Blocks != nil {
			w.mod = append(w.mod, f)
		}
	}
	sort.Slice(w.mod, func(i, j int) bool { return w.mod[i].String() < w.mod[j].String() })
	if len(w.mod) == 0 {
		return nil, fmt.Errorf("load %s: no module functions", cfg.Name)
	}
	return w, nil
}

// CG returns the VTA call graph (built lazily).
func (w *World) CG() *callgraph.Graph {
	if w.cg == nil {
		w.cg = vta.CallGraph(w.all, cha.CallGraph(w.Prog))
	}
	return w.cg
}

func fnPkgPath(f *ssa.Function) string {
	for f.Parent() != nil {
		f = f.Parent()
	}
	if f.Origin() != nil {
		f = f.Origin()
	}
	if f.Pkg != nil {
		return f.Pkg.Pkg.Path()
	}
	if o := f.Object(); o != nil && o.Pkg() != nil {
		return o.Pkg().Path()
	}
	return ""
}

func (w *World) InModule(f *ssa.Function) bool {
	p := fnPkgPath(f)
	return p == OtpPath || strings.HasPrefix(p, OtpPath+"/")
}

// ModuleFuncs: every function with a body (incl. closures, init, method wrappers excluded) of the module.
func (w *World) ModuleFuncs(pkgPaths ...string) []*ssa.Function {
	var out []*ssa.Function
	for _, f := range w.mod {
		if f.Synthetic != "" && !strings.HasPrefix(f.Synthetic, "package initializer") {
			continue
		}
		if len(pkgPaths) == 0 {
			out = append(out, f)
			continue
		}
		for _, p := range pkgPaths {
			if fnPkgPath(f) == p {
				out = append(out, f)
			}
		}
	}
	return out
}

// Func finds a package-level function or method "T.M" by name in a package.
func (w *World) Func(pkgPath, name string) *ssa.Function {
	sp := w.SPkgs[pkgPath]
	if sp == nil {
		return nil
	}
	if i := strings.IndexByte(name, '.'); i >= 0 {
		tn, mn := name[:i], name[i+1:]
		ptr := false
		if strings.HasPrefix(tn, "*") {
			ptr = true
			tn = tn[1:]
		}
		t := sp.Type(tn)
		if t == nil {
			return nil
		}
		var typ types.Type = t.Type()
		if ptr {
			typ = types.NewPointer(typ)
		}
		sel := w.Prog.MethodSets.MethodSet(typ).Lookup(sp.Pkg, mn)
		if sel == nil {
			return nil
		}
		return w.Prog.MethodValue(sel)
	}
	return sp.Func(name)
}

func (w *World) Global(pkgPath, name string) *ssa.Global {
	sp := w.SPkgs[pkgPath]
	if sp == nil {
		return nil
	}
	g, _ := sp.Members[name].(*ssa.Global)
	return g
}

// Pos renders a position relative to the repository root.
func (w *World) Pos(p token.Pos) string {
	if !p.IsValid() {
		return ""
	}
	ps := w.Fset.Position(p)
	rel, err := filepath.Rel(RepoDir, ps.Filename)
	if err != nil || strings.HasPrefix(rel, "..") {
		rel = ps.Filename
	}
	return fmt.Sprintf("%s:%d", rel, ps.Line)
}

// InstrPos finds a displayable position for an instruction (falls back to operands / block).
func (w *World) InstrPos(in ssa.Instruction) string {
	if in == nil {
		return ""
	}
	if p := in.Pos(); p.IsValid() {
		return w.Pos(p)
	}
	var ops []*ssa.Value
	for _, op := range in.Operands(ops) {
		if *op != nil && (*op).Pos().IsValid() {
			return w.Pos((*op).Pos())
		}
	}
	if f := in.Parent(); f != nil {
		return w.Pos(f.Pos())
	}
	return ""
}

// FuncName is the stable display name of a function: pkg-qualified for module functions,
// closures as parent$n.
func FuncName(f *ssa.Function) string {
	if f == nil {
		return "?"
	}
	s := f.String()
	s = strings.ReplaceAll(s, OtpPath+"/internal/app/", "")
	s = strings.ReplaceAll(s, OtpPath+"/", "")
	s = strings.ReplaceAll(s, OtpPath, "otp")
	return s
}

// Exported functions and methods of package otp that have bodies.
func (w *World) ExportedAPI() []*ssa.Function {
	var out []*ssa.Function
	sp := w.SPkgs[OtpPath]
	for _, m := range sp.Members {
		switch m := m.(type) {
		case *ssa.Function:
			if ast.IsExported(m.Name()) && m.Blocks != nil {
				out = append(out, m)
			}
		case *ssa.Type:
			if !ast.IsExported(m.Name()) {
				continue
			}
			for _, typ := range []types.Type{m.Type(), types.NewPointer(m.Type())} {
				ms := w.Prog.MethodSets.MethodSet(typ)
				for i := 0; i < ms.Len(); i++ {
					sel := ms.At(i)
					if !ast.IsExported(sel.Obj().Name()) {
						continue
					}
					f := w.Prog.MethodValue(sel)
					if f == nil || f.Blocks == nil {
						continue
					}
					// skip synthetic wrappers: analyse the declared method only
					if f.Synthetic != "" {
						continue
					}
					out = append(out, f)
				}
			}
		}
	}
	// exported function-valued variables (TimeCounterFunc): their initialiser closures
	uniq := map[*ssa.Function]bool{}
	var res []*ssa.Function
	for _, f := range out {
		if !uniq[f] {
			uniq[f] = true
			res = append(res, f)
		}
	}
	sort.Slice(res, func(i, j int) bool { return res[i].String() < res[j].String() })
	return res
}

// Reachable returns the module functions reachable from roots through the call graph
// (static + VTA-resolved dynamic edges), including closures created (MakeClosure) in them.
func (w *World) Reachable(roots ...*ssa.Function) map[*ssa.Function]bool {
	cg := w.CG()
	seen := map[*ssa.Function]bool{}
	var visit func(f *ssa.Function)
	visit = func(f *ssa.Function) {
		if f == nil || seen[f] {
			return
		}
		seen[f] = true
		if n := cg.Nodes[f]; n != nil {
			for _, e := range n.Out {
				if w.InModule(e.Callee.Func) {
					visit(e.Callee.Func)
				}
			}
		}
		for _, b := range f.Blocks {
			for _, in := range b.Instrs {
				if mc, ok := in.(*ssa.MakeClosure); ok {
					visit(mc.Fn.(*ssa.Function))
				}
			}
		}
	}
	for _, r := range roots {
		visit(r)
	}
	return seen
}

// Callers of a function through the call graph: the call instructions.
func (w *World) CallSites(f *ssa.Function) []ssa.CallInstruction {
	var out []ssa.CallInstruction
	if n := w.CG().Nodes[f]; n != nil {
		for _, e := range n.In {
			if e.Site != nil {
				out = append(out, e.Site)
			}
		}
	}
	return out
}

// Callees of a call site (module + external), via the call graph.
func (w *World) Callees(site ssa.CallInstruction) []*ssa.Function {
	if c := site.Common().StaticCallee(); c != nil {
		return []*ssa.Function{c}
	}
	var out []*ssa.Function
	if n := w.CG().Nodes[site.Parent()]; n != nil {
		for _, e := range n.Out {
			if e.Site == site {
				out = append(out, e.Callee.Func)
			}
		}
	}
	return out
}

// GlobalNeverWritten: no module function outside package initialisation stores into, updates or deletes from the global.
func (w *World) GlobalNeverWritten(g *ssa.Global) bool {
	if w.nwCache == nil {
		w.nwCache = map[*ssa.Global]bool{}
	}
	if v, ok := w.nwCache[g]; ok {
		return v
	}
	ok := true
	for _, f := range w.ModuleFuncs() {
		if isInit(f) {
			continue
		}
		EachInstr(f, func(in ssa.Instruction) {
			for _, op := range operandsOf(in) {
				if op != ssa.Value(g) {
					continue
				}
				// any use of the global's address other than a plain load may write it
				if u, isLoad := in.(*ssa.UnOp); isLoad && u.Op == token.MUL {
					// the loaded map/slice value must itself not be written: map updates, index stores, appends
					if refs := u.Referrers(); refs != nil {
						for _, r := range *refs {
							switch y := r.(type) {
							case *ssa.MapUpdate:
								if y.Map == ssa.Value(u) {
									ok = false
								}
							case *ssa.IndexAddr:
								if rr := y.Referrers(); rr != nil {
									for _, q := range *rr {
										if st, isSt := q.(*ssa.Store); isSt && st.Addr == ssa.Value(y) {
											ok = false
										}
									}
								}
							case ssa.CallInstruction:
								if bu, isB := y.Common().Value.(*ssa.Builtin); isB && (bu.Name() == "delete" || bu.Name() == "clear" || bu.Name() == "append") {
									ok = false
								}
							}
						}
					}
					continue
				}
				// an element or field address derived from the global that is only read through
				if addrOnlyRead(in) {
					continue
				}
				ok = false
			}
		})
	}
	w.nwCache[g] = ok
	return ok
}

// addrOnlyRead: in computes an element/field address (&g[i], &g.f) that is used only to load from (directly or
// through further element/field addresses).
func addrOnlyRead(in ssa.Instruction) bool {
	var v ssa.Value
	switch x := in.(type) {
	case *ssa.IndexAddr:
		v = x
	case *ssa.FieldAddr:
		v = x
	default:
		return false
	}
	refs := v.Referrers()
	if refs == nil {
		return true
	}
	for _, r := range *refs {
		switch y := r.(type) {
		case *ssa.UnOp:
			if y.Op != token.MUL {
				return false
			}
		case *ssa.IndexAddr, *ssa.FieldAddr:
			if !addrOnlyRead(y.(ssa.Instruction)) {
				return false
			}
		case *ssa.DebugRef:
		default:
			return false
		}
	}
	return true
}
