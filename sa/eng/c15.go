package eng

import (
	"fmt"
	"go/constant"
	"go/token"
	"go/types"
	"regexp"
	"sort"
	"strconv"
	"strings"

	"golang.org/x/tools/go/ssa"
)

// suiteSpec is what an RFC 6287 suite name denotes (computed by the checker's own parser).
type suiteSpec struct {
	Hash          string // SHA1, SHA256, SHA512
	Digits        int64
	C, Q, P, S, T bool
	QFormat       string // N08, N10, A08, ...
	PHash         string // SHA1, SHA256, SHA512
	TimeStep      int64  // seconds
}

var (
	reCrypto = regexp.MustCompile(`^HOTP-(SHA1|SHA256|SHA512)-(\d+)$`)
	reQ      = regexp.MustCompile(`^Q([NAH])(\d\d)$`)
	reP      = regexp.MustCompile(`^PSHA(1|256|512)$`)
	reS      = regexp.MustCompile(`^S(\d{3})?$`)
	reT      = regexp.MustCompile(`^T(\d+)([SMH]?)$`)
)

// parseSuiteName: independent parser for OCRA-1:HOTP-<hash>-<digits>:[C-][Q..][-P..][-S[nnn]][-T<n>[SMH]].
// A time token without unit is read as seconds (the registry's own spelling "T1"; frozen exception).
func parseSuiteName(name string) (*suiteSpec, error) {
	parts := strings.Split(name, ":")
	if len(parts) != 3 || parts[0] != "OCRA-1" {
		return nil, fmt.Errorf("not of the form OCRA-1:<crypto>:<data input>")
	}
	m := reCrypto.FindStringSubmatch(parts[1])
	if m == nil {
		return nil, fmt.Errorf("crypto function %q", parts[1])
	}
	sp := &suiteSpec{Hash: m[1]}
	sp.Digits, _ = strconv.ParseInt(m[2], 10, 64)
	stage := 0 // order C < Q < P < S < T
	for _, tok := range strings.Split(parts[2], "-") {
		var st int
		switch {
		case tok == "C":
			st = 1
			sp.C = true
		case reQ.MatchString(tok):
			st = 2
			q := reQ.FindStringSubmatch(tok)
			sp.Q, sp.QFormat = true, q[1]+q[2]
		case reP.MatchString(tok):
			st = 3
			sp.P, sp.PHash = true, "SHA"+reP.FindStringSubmatch(tok)[1]
		case reS.MatchString(tok):
			st = 4
			sp.S = true
		case reT.MatchString(tok):
			st = 5
			t := reT.FindStringSubmatch(tok)
			n, _ := strconv.ParseInt(t[1], 10, 64)
			switch t[2] {
			case "M":
				n *= 60
			case "H":
				n *= 3600
			}
			sp.T, sp.TimeStep = true, n
		default:
			return nil, fmt.Errorf("data input token %q", tok)
		}
		if st <= stage {
			return nil, fmt.Errorf("token %q out of order or repeated", tok)
		}
		stage = st
	}
	return sp, nil
}

// registryGlobal: the map variable ranged over by ListSuites.
func registryGlobal(w *World) *ssa.Global {
	f := w.Func(OtpPath, "ListSuites")
	if f == nil {
		return nil
	}
	var g *ssa.Global
	EachInstr(f, func(in ssa.Instruction) {
		if r, ok := in.(*ssa.Range); ok {
			if u, ok := r.X.(*ssa.UnOp); ok {
				if gg, ok := u.X.(*ssa.Global); ok {
					g = gg
				}
			}
		}
	})
	if g != nil {
		return g
	}
	// ListSuites may hand the table to an iterator (maps.Keys): the registry is the package-level map from suite
	// strings to configurations that ListSuites loads
	EachInstr(f, func(in ssa.Instruction) {
		if u, ok := in.(*ssa.UnOp); ok && u.Op == token.MUL {
			if gg, ok := u.X.(*ssa.Global); ok {
				if m, isMap := gg.Type().(*types.Pointer).Elem().Underlying().(*types.Map); isMap {
					if nm, isNamed := m.Elem().(*types.Named); isNamed && nm.Obj().Name() == "SuiteConfig" {
						g = gg
					}
				}
			}
		}
	})
	return g
}

// registryEntryFromInit: the configuration the package initialiser stores under key name, for entries that are not
// struct literals (built by a helper such as counterSuite(hash, digits, format)): the helper call is expanded with
// its constant arguments; every field must fold to a constant.
func registryEntryFromInit(w *World, tb *TB, name string) *Lit {
	var out *Lit
	for _, f := range w.ModuleFuncs(OtpPath) {
		if !isInit(f) {
			continue
		}
		EachInstr(f, func(in ssa.Instruction) {
			mu, ok := in.(*ssa.MapUpdate)
			if !ok || out != nil {
				return
			}
			k, ok := mu.Key.(*ssa.Const)
			if !ok || k.Value == nil || k.Value.Kind() != constant.String || constant.StringVal(k.Value) != name {
				return
			}
			t := tb.Expand(tb.Of(mu.Value), 2)
			if t.Op != "struct" {
				return
			}
			l := &Lit{Kind: "struct", Fields: map[string]*Lit{}}
			for i, fn := range strings.Split(t.Sym, ",") {
				if i >= len(t.Args) {
					return
				}
				a := t.Args[i]
				for a.Op == "conv" && len(a.Args) == 1 {
					a = a.Args[0]
				}
				var cv constant.Value
				if !a.IsConst() {
					// a comparison or sum of constants (IncludeChallenge: challenge != ChallengeNone) folds
					v, ok := evalEnv(a, map[string]int64{})
					if !ok || a.Op != "bin" {
						return
					}
					switch a.Sym {
					case "==", "!=", "<", "<=", ">", ">=":
						cv = constant.MakeBool(v != 0)
					default:
						cv = constant.MakeInt64(v)
					}
					l.Fields[fn] = &Lit{Kind: "const", Const: cv}
					continue
				}
				switch {
				case a.Sym == "true" || a.Sym == "false":
					cv = constant.MakeBool(a.Sym == "true")
				case strings.HasPrefix(a.Sym, `"`):
					u, err := unquote(a.Sym)
					if err != nil {
						return
					}
					cv = constant.MakeString(u)
				default:
					cv = constant.MakeFromLiteral(a.Sym, token.INT, 0)
					if cv.Kind() != constant.Int {
						return
					}
				}
				l.Fields[fn] = &Lit{Kind: "const", Const: cv}
			}
			out = l
		})
	}
	return out
}

func ruleRegistryFidelity(c *Check, w *World, rule string) map[string]*Lit {
	tbR := NewTB(w)
	g := registryGlobal(w)
	if g == nil {
		c.Fatal("anchor not found: the suite registry ranged over by ListSuites")
		return nil
	}
	e, info := w.GlobalInit(OtpPath, g.Name())
	if e == nil {
		c.Fatal("registry %s has no literal initialiser", g.Name())
		return nil
	}
	lit := EvalLit(e, info)
	if lit.Kind != "map" {
		c.Unk(rule, "otp."+g.Name(), "registry-literal", "the registry is not a map literal", w.Pos(g.Pos()))
		return nil
	}
	enum := func(n string) int64 {
		v, ok := w.pkgConstInt(n)
		if !ok {
			c.Fatal("constant %s not found", n)
		}
		return v
	}
	hashVal := map[string]int64{"SHA1": enum("SHA1"), "SHA256": enum("SHA256"), "SHA512": enum("SHA512")}
	qVal := map[string]int64{"N08": enum("ChallengeNumeric08"), "N10": enum("ChallengeNumeric10"), "A08": enum("ChallengeAlpha08"), "A10": enum("ChallengeAlpha10"), "H08": enum("ChallengeHex08"), "H10": enum("ChallengeHex10")}
	pVal := map[string]int64{"SHA1": enum("PasswordSHA1"), "SHA256": enum("PasswordSHA256"), "SHA512": enum("PasswordSHA512")}
	byName := map[string]*Lit{}
	seenKey := map[string]bool{}
	for i, k := range lit.Keys {
		name, ok := k.Str()
		pos := w.Pos(k.Expr.Pos())
		if !ok {
			c.Unk(rule, "otp."+g.Name(), fmt.Sprintf("entry#%d", i), "registry key is not a string constant", pos)
			continue
		}
		construct := "entry:" + name
		v := lit.Elems[i]
		if v == nil || v.Kind != "struct" {
			if fromInit := registryEntryFromInit(w, tbR, name); fromInit != nil {
				v = fromInit
			}
		}
		if seenKey[name] {
			c.Bad(rule, "otp."+g.Name(), construct, "duplicate registry key", pos)
			continue
		}
		seenKey[name] = true
		byName[name] = v
		if v == nil || v.Kind != "struct" {
			c.Unk(rule, "otp."+g.Name(), construct, "registry value is not a struct literal", pos)
			continue
		}
		sp, err := parseSuiteName(name)
		if err != nil {
			c.Bad(rule, "otp."+g.Name(), construct, "advertised name is not an RFC 6287 suite string: "+err.Error(), pos)
			continue
		}
		var diffs []string
		cmpInt := func(field string, want int64) {
			got, ok := v.FieldInt(field)
			if !ok {
				diffs = append(diffs, field+" is not a constant")
			} else if got != want {
				diffs = append(diffs, fmt.Sprintf("%s=%d but the name says %d", field, got, want))
			}
		}
		cmpBool := func(field string, want bool) {
			got := v.Field(field).Bool()
			if f := v.Field(field); f != nil && (f.Const == nil || f.Const.Kind() != constant.Bool) {
				diffs = append(diffs, field+" is not a constant")
			} else if got != want {
				diffs = append(diffs, fmt.Sprintf("%s=%v but the name says %v", field, got, want))
			}
		}
		cmpInt("Hash", hashVal[sp.Hash])
		cmpInt("Digits", sp.Digits)
		cmpBool("IncludeCounter", sp.C)
		cmpBool("IncludeChallenge", sp.Q)
		cmpBool("IncludePassword", sp.P)
		cmpBool("IncludeSession", sp.S)
		cmpBool("IncludeTimestamp", sp.T)
		if sp.Q {
			cmpInt("Challenge", qVal[sp.QFormat])
		} else {
			cmpInt("Challenge", 0)
		}
		if sp.P {
			cmpInt("PasswordHash", pVal[sp.PHash])
		} else {
			cmpInt("PasswordHash", 0)
		}
		cmpInt("TimeStep", sp.TimeStep)
		if r := v.Field("Raw"); r != nil {
			if s, ok := r.Str(); !ok || s != name {
				diffs = append(diffs, "Raw differs from the key")
			}
		}
		// instantiable: satisfies the suite admission predicate
		if sp.Digits < 4 || sp.Digits > 10 {
			diffs = append(diffs, "digits outside 4..10: the advertised suite cannot be instantiated")
		}
		if sp.T && sp.TimeStep <= 0 {
			diffs = append(diffs, "time step not positive: the advertised suite cannot be instantiated")
		}
		if len(diffs) > 0 {
			c.Bad(rule, "otp."+g.Name(), construct, "configuration does not mean what its name says: "+strings.Join(diffs, "; "), pos)
		} else {
			c.OK(rule, "otp."+g.Name(), construct, "hash, digits, five include flags, challenge format, password hash and time step equal the independently parsed name", pos)
		}
	}
	c.Count("registry_entries", len(lit.Keys))
	c.Extra["exhaustive_registry"] = true
	return byName
}

// ruleOneTable (R15.2): the four lookup functions read the same never-written table; NewRawSuite
// reports the given string as the suite's name on every successful return.
func ruleOneTable(c *Check, w *World, tb *TB, ef *Effects, rule string) {
	g := registryGlobal(w)
	if g == nil {
		return
	}
	gsym := valID(g)
	for _, name := range []string{"ListSuites", "IsKnownSuite", "SuiteConfigFromRaws", "NewRawSuite"} {
		f := w.Func(OtpPath, name)
		if f == nil {
			c.Fatal("anchor not found: %s", name)
			continue
		}
		uses := map[string]bool{}
		mapReads := func(fn *ssa.Function) map[string]bool {
			m := map[string]bool{}
			EachInstr(fn, func(in ssa.Instruction) {
				var x ssa.Value
				switch y := in.(type) {
				case *ssa.Lookup:
					x = y.X
				case *ssa.Range:
					x = y.X
				case ssa.CallInstruction:
					// handing the map to a read-only iterator of package maps reads it
					if n := CalleeName(y.Common()); (n == "maps.Keys" || n == "maps.Values" || n == "maps.All") && len(y.Common().Args) == 1 {
						x = y.Common().Args[0]
					} else {
						return
					}
				default:
					return
				}
				if _, isMap := x.Type().Underlying().(*types.Map); !isMap {
					return
				}
				for _, r := range tb.RootTerms(tb.Of(x), 0) {
					m[r.Sym] = true
				}
			})
			return m
		}
		for u := range mapReads(f) {
			uses[u] = true
		}
		// lookup helpers: module callees (transitively, depth 3) that themselves read the registry count with
		// all their map reads
		seenH := map[*ssa.Function]bool{f: true}
		var addHelpers func(fn *ssa.Function, depth int)
		addHelpers = func(fn *ssa.Function, depth int) {
			if depth > 3 {
				return
			}
			EachInstr(fn, func(in ssa.Instruction) {
				ci, ok := in.(ssa.CallInstruction)
				if !ok {
					return
				}
				g := ci.Common().StaticCallee()
				if g == nil || !w.InModule(g) || g.Blocks == nil || seenH[g] {
					return
				}
				seenH[g] = true
				if mr := mapReads(g); mr[gsym] {
					for u := range mr {
						uses[u] = true
					}
					addHelpers(g, depth+1)
				}
			})
		}
		addHelpers(f, 1)
		var list []string
		for u := range uses {
			list = append(list, u)
		}
		sort.Strings(list)
		ok := len(list) == 1 && list[0] == gsym
		c.Decide(ok, rule, FuncName(f), "table", "reads the one registry "+gsym, fmt.Sprintf("reads %v instead of exactly the registry %s that ListSuites advertises", list, gsym), w.Pos(f.Pos()))
	}
	// the known-suite test and the lookup by name are the table membership / the table entry, nothing else
	for _, spec := range []struct{ name, want, what string }{
		{"IsKnownSuite", "lookupok(gval(" + gsym + "); %s)", "membership in the registry"},
		{"SuiteConfigFromRaws", "lookup(gval(" + gsym + "); %s)", "the registry entry (the zero configuration for an unknown name)"},
	} {
		f := w.Func(OtpPath, spec.name)
		if f == nil || len(f.Params) != 1 {
			continue
		}
		rs := tb.Results(f, nil, nil, 0)
		want := fmt.Sprintf(spec.want, tb.Of(f.Params[0]).String())
		got := ""
		if len(rs) == 1 {
			got = tb.Norm(rs[0]).String()
		}
		c.Decide(got == want, rule, FuncName(f), "table-result", "the result is exactly "+spec.what, "the result is "+clip(got, 200)+", not exactly "+spec.what+": list, known-suite test and lookup by name can disagree", w.Pos(f.Pos()))
	}
	// registry never written
	written := false
	for _, f := range w.ModuleFuncs(OtpPath) {
		if isInit(f) {
			continue
		}
		for _, e := range ef.Of(f) {
			if e.Via == "" && (e.Root.Op == "global" || e.Root.Op == "gval") && e.Root.Sym == gsym {
				written = true
				c.Bad(rule, FuncName(f), "registry-write", "the registry is modified at run time ("+e.Kind+")", w.InstrPos(e.In))
			}
		}
	}
	if !written {
		c.OK(rule, "otp", "registry-read-only", "no function outside package initialisation writes "+gsym, w.Pos(g.Pos()))
	}
	// NewRawSuite: Raw of every successful result is the parameter
	f := w.Func(OtpPath, "NewRawSuite")
	if f == nil {
		return
	}
	p0 := fmt.Sprintf("param(%s#0)", FuncName(f))
	n := 0
	for i, r := range Returns(f) {
		errT := tb.Of(r.Results[1])
		if !(errT.IsConst() && errT.Sym == "nil") {
			continue // error return
		}
		n++
		raw := tb.fieldOf(tb.fieldOf(tb.Of(r.Results[0]), "SuiteConfig", nil), "Raw", nil)
		raw = tb.Expand(raw, 2)
		okRaw := true
		for _, alt := range raw.Alts() {
			a := alt
			if a.Op == "field" && a.Sym == "Raw" {
				// Raw taken from the parsed configuration: the parser must have stored the parameter
				a = tb.resolveParsedRaw(a, p0)
			}
			if a.String() != p0 {
				okRaw = false
			}
		}
		c.Decide(okRaw, rule, FuncName(f), fmt.Sprintf("raw-name#%d", i), "a suite instantiated from a string reports that string as its name", "successful return whose Raw is "+raw.String()+", not the given suite string", w.InstrPos(r))
	}
	if n == 0 {
		c.Unk(rule, FuncName(f), "raw-name", "no successful return found", w.Pos(f.Pos()))
	}
}

// resolveParsedRaw: field(Raw; extract(0; call(parseRawSuite; p))) -> evaluates the callee's Raw on success returns.
func (tb *TB) resolveParsedRaw(t *Term, p0 string) *Term {
	base := t.Args[0]
	idx := 0
	ct := base
	if base.Op == "extract" {
		fmt.Sscanf(base.Sym, "%d", &idx)
		ct = base.Args[0]
	}
	call, ok := ct.Val.(*ssa.Call)
	if ct.Op != "call" || !ok {
		return t
	}
	f := call.Call.StaticCallee()
	if f == nil || !tb.W.InModule(f) {
		return t
	}
	e := &Env{Fn: f, Params: ct.Args}
	var alts []*Term
	for _, r := range Returns(f) {
		if len(r.Results) < 2 {
			return t
		}
		et := tb.Val(r.Results[len(r.Results)-1], e)
		if !(et.IsConst() && et.Sym == "nil") {
			continue
		}
		alts = append(alts, tb.fieldOf(tb.Val(r.Results[idx], e), "Raw", e))
	}
	if len(alts) == 0 {
		return t
	}
	return mkPhi(alts)
}

// stringSwitchTable extracts, for a function, the mapping literal -> constant assigned/returned in the
// branch taken when a value equals that literal (switch lowered to == chains).
type swEntry struct {
	Lit    string
	Target string // "return" or field name stored
	Val    string
	Pos    string
	Ctx    string // literal of a dominating strings.HasPrefix(x, "..") test (token context), if any
	Whole  bool   // the literal is compared with the very text the HasPrefix test is about (not with a suffix of it)
}

func stringSwitchTables(w *World, tb *TB, f *ssa.Function) []swEntry {
	var out []swEntry
	for _, b := range f.Blocks {
		iff, ok := b.Instrs[len(b.Instrs)-1].(*ssa.If)
		if !ok {
			continue
		}
		bo, ok := iff.Cond.(*ssa.BinOp)
		if !ok || bo.Op.String() != "==" {
			continue
		}
		var litV *ssa.Const
		if k, ok := bo.X.(*ssa.Const); ok {
			litV = k
		} else if k, ok := bo.Y.(*ssa.Const); ok {
			litV = k
		}
		if litV == nil || litV.Value == nil || litV.Value.Kind() != constant.String {
			continue
		}
		lit := constant.StringVal(litV.Value)
		tgt := b.Succs[0]
		for _, in := range tgt.Instrs {
			switch x := in.(type) {
			case *ssa.Store:
				if fa, ok := x.Addr.(*ssa.FieldAddr); ok {
					if k, ok := x.Val.(*ssa.Const); ok && k.Value != nil {
						ctx := ""
						whole := false
						other := bo.X
						if other == ssa.Value(litV) {
							other = bo.Y
						}
						for _, cd := range CondsAt(tgt) {
							if cl, ok := cd.V.(*ssa.Call); ok && cd.Pos && CalleeName(cl.Common()) == "strings.HasPrefix" {
								if pk, ok := cl.Call.Args[1].(*ssa.Const); ok && pk.Value != nil && pk.Value.Kind() == constant.String && ctx == "" {
									ctx = constant.StringVal(pk.Value)
									whole = tb.Of(cl.Call.Args[0]).String() == tb.Of(other).String()
								}
							}
						}
						out = append(out, swEntry{Lit: lit, Target: fieldName(fa.X.Type(), fa.Field), Val: k.Value.ExactString(), Pos: w.InstrPos(in), Ctx: ctx, Whole: whole})
					}
				}
			case *ssa.Return:
				if len(x.Results) > 0 {
					if k, ok := x.Results[0].(*ssa.Const); ok && k.Value != nil {
						out = append(out, swEntry{Lit: lit, Target: "return", Val: k.Value.ExactString(), Pos: w.InstrPos(in)})
					}
				}
			}
		}
		// value returned through a phi in the join block
		for _, s := range tgt.Succs {
			for _, in := range s.Instrs {
				ph, ok := in.(*ssa.Phi)
				if !ok {
					break
				}
				for i, p := range s.Preds {
					if p == tgt {
						if k, ok := ph.Edges[i].(*ssa.Const); ok && k.Value != nil {
							out = append(out, swEntry{Lit: lit, Target: "phi", Val: k.Value.ExactString(), Pos: w.Pos(litV.Pos())})
						}
					}
				}
			}
		}
		if len(tgt.Instrs) == 1 {
			// empty case body jumping to a join that returns a phi: also look at the If block's own phi edges
			if j, ok := tgt.Instrs[0].(*ssa.Jump); ok {
				_ = j
			}
		}
	}
	return out
}

// ruleParserTables (R15.3): the parser's token tables and its validate-before-return structure.
func ruleParserTables(c *Check, w *World, tb *TB, rule string) {
	enum := func(n string) string {
		v, _ := w.pkgConstInt(n)
		return fmt.Sprint(v)
	}
	nr := w.Func(OtpPath, "NewRawSuite")
	if nr == nil {
		return
	}
	reach := w.Reachable(nr)
	want := map[string]string{ // literal|target -> value
		"SHA1|Hash": enum("SHA1"), "SHA256|Hash": enum("SHA256"), "SHA512|Hash": enum("SHA512"),
		"08|Challenge": enum("ChallengeNumeric08"), "10|Challenge": enum("ChallengeNumeric10"),
		"PSHA1|PasswordHash": enum("PasswordSHA1"), "PSHA256|PasswordHash": enum("PasswordSHA256"), "PSHA512|PasswordHash": enum("PasswordSHA512"),
	}
	found := map[string]bool{}
	// a token table may live in a helper that returns the constant; the fields its result is stored into
	// are the targets of its entries
	fedBy := map[*ssa.Function]map[string]bool{}
	for f := range reach {
		if fnPkgPath(f) != OtpPath {
			continue
		}
		EachInstr(f, func(in ssa.Instruction) {
			st, ok := in.(*ssa.Store)
			if !ok {
				return
			}
			fa, ok := st.Addr.(*ssa.FieldAddr)
			if !ok {
				return
			}
			v := st.Val
			for {
				switch x := v.(type) {
				case *ssa.Convert:
					v = x.X
					continue
				case *ssa.ChangeType:
					v = x.X
					continue
				case *ssa.Extract:
					if x.Index == 0 {
						v = x.Tuple
						continue
					}
				}
				break
			}
			if cl, ok := v.(*ssa.Call); ok {
				if g := cl.Call.StaticCallee(); g != nil && w.InModule(g) {
					if fedBy[g] == nil {
						fedBy[g] = map[string]bool{}
					}
					fedBy[g][fieldName(fa.X.Type(), fa.Field)] = true
				}
			}
		})
	}
	// a parsing helper may return its findings in a small struct of its own whose fields the caller copies into the
	// configuration (SuiteConfig{Hash: cf.hash, …}): such a field stands for the configuration field it is copied to
	alias := map[string]string{}
	for f := range reach {
		if fnPkgPath(f) != OtpPath {
			continue
		}
		EachInstr(f, func(in ssa.Instruction) {
			st, ok := in.(*ssa.Store)
			if !ok {
				return
			}
			fa, ok := st.Addr.(*ssa.FieldAddr)
			if !ok {
				return
			}
			v := stripConv(st.Val)
			var srcT types.Type
			var srcIdx int
			switch x := v.(type) {
			case *ssa.Field:
				srcT, srcIdx = x.X.Type(), x.Field
			case *ssa.UnOp:
				if sfa, isFA := x.X.(*ssa.FieldAddr); isFA && x.Op == token.MUL {
					srcT, srcIdx = sfa.X.Type(), sfa.Field
				}
			}
			if srcT == nil {
				return
			}
			dstT := fa.X.Type()
			deref := func(t types.Type) types.Type {
				if p, ok := t.Underlying().(*types.Pointer); ok {
					return p.Elem()
				}
				return t
			}
			if types.Identical(deref(srcT), deref(dstT)) {
				return
			}
			alias[fieldName(srcT, srcIdx)] = fieldName(dstT, fa.Field)
		})
	}
	for f := range reach {
		if fnPkgPath(f) != OtpPath {
			continue
		}
		var entries []swEntry
		for _, e := range stringSwitchTables(w, tb, f) {
			if e.Target == "return" && len(fedBy[f]) > 0 {
				for fld := range fedBy[f] {
					e2 := e
					e2.Target = fld
					entries = append(entries, e2)
				}
				continue
			}
			if to, ok := alias[e.Target]; ok {
				e.Target = to
			}
			entries = append(entries, e)
		}
		sort.SliceStable(entries, func(i, j int) bool { return entries[i].Lit+entries[i].Target < entries[j].Lit+entries[j].Target })
		for _, e := range entries {
			k := e.Lit + "|" + e.Target
			if e.Target == "Challenge" {
				// the width literal must be read in the context of its format letter: QN / QA / QH
				pfxLit := e.Ctx
				if e.Whole && strings.HasPrefix(e.Lit, e.Ctx) {
					pfxLit = "" // the literal already is the whole token
				}
				name := map[string]string{"QN08": "ChallengeNumeric08", "QN10": "ChallengeNumeric10", "QA08": "ChallengeAlpha08", "QA10": "ChallengeAlpha10", "QH08": "ChallengeHex08", "QH10": "ChallengeHex10"}[pfxLit+e.Lit]
				if name == "" {
					c.Unk(rule, FuncName(f), "token:"+pfxLit+e.Lit+"|Challenge", fmt.Sprintf("a challenge format is set for token %q%q, which is not a format of the RFC 6287 grammar known to the checker", pfxLit, e.Lit), e.Pos)
					continue
				}
				found[k] = true
				if full := pfxLit + e.Lit; strings.HasPrefix(full, "QN") {
					found[full[2:]+"|Challenge"] = true
				}
				c.Decide(e.Val == enum(name), rule, FuncName(f), "token:"+pfxLit+e.Lit+"|Challenge", "challenge token maps to the format constant of the same letter and width", fmt.Sprintf("token %s%s sets Challenge=%s, expected %s (%s)", pfxLit, e.Lit, e.Val, enum(name), name), e.Pos)
				continue
			}
			if wv, ok := want[k]; ok {
				found[k] = true
				c.Decide(e.Val == wv, rule, FuncName(f), "token:"+k, "token maps to the constant of the same name", fmt.Sprintf("token %q sets %s=%s, expected %s", e.Lit, e.Target, e.Val, wv), e.Pos)
			} else if e.Target == "Hash" || e.Target == "Challenge" || e.Target == "PasswordHash" {
				c.Unk(rule, FuncName(f), "token:"+k, fmt.Sprintf("parser token %q sets %s=%s: not a token of the RFC 6287 grammar known to the checker", e.Lit, e.Target, e.Val), e.Pos)
			}
		}
	}
	for k := range want {
		if !found[k] {
			c.Bad(rule, "otp.parser", "token:"+k, "the parser has no case mapping "+k+" (token unsupported or mapped indirectly)", "")
		}
	}
	// the data-input part is split into all its tokens: strings.Split(x, "-") ranged over (a bounded SplitN drops or
	// glues the tokens beyond its limit)
	nSplit := 0
	for f := range reach {
		if fnPkgPath(f) != OtpPath {
			continue
		}
		EachInstr(f, func(in ssa.Instruction) {
			cl, ok := in.(*ssa.Call)
			if !ok {
				return
			}
			n := CalleeName(cl.Common())
			if n != "strings.Split" && n != "strings.SplitN" && n != "strings.SplitAfter" && n != "strings.SplitAfterN" && n != "strings.Fields" {
				return
			}
			t := tb.Of(cl)
			sep := ""
			if len(t.Args) >= 2 && t.Args[1].IsConst() {
				sep, _ = unquote(t.Args[1].Sym)
			}
			if sep != "-" {
				return
			}
			// only the token list that is ranged over (each element handled alike), not a fixed-arity split
			ranged := false
			if refs := cl.Referrers(); refs != nil {
				for _, r := range *refs {
					if c2, isCall := r.(*ssa.Call); isCall {
						if b, isB := c2.Call.Value.(*ssa.Builtin); isB && b.Name() == "len" {
							// the loop bound of a range over the slice
							if InLoopBoundOf(c2) {
								ranged = true
							}
						}
					}
				}
			}
			if !ranged {
				return
			}
			nSplit++
			c.Decide(n == "strings.Split", rule, FuncName(f), "token-split", "the data-input tokens are all of strings.Split(x, \"-\")", "the data-input tokens are split with "+clip(t.String(), 140)+": tokens beyond the limit are dropped or glued together, so a well-formed string is accepted with a configuration that lacks them", w.InstrPos(in))
		})
	}
	if nSplit == 0 {
		c.Unk(rule, "otp.parser", "token-split", "no ranged split of the data-input tokens found on the path from NewRawSuite", "")
	}
	// no step's error is lost: every error result of a call on the parser's path is tested, returned or wrapped (an
	// error variable overwritten by the next step before anyone looked at it accepts what the first step refused)
	var pfs []*ssa.Function
	for f := range reach {
		if fnPkgPath(f) == OtpPath && f.Blocks != nil {
			pfs = append(pfs, f)
		}
	}
	sortFuncs(pfs)
	if ruleErrorsUsed(c, w, rule, pfs) == 0 {
		c.Unk(rule, "otp.parser", "error-used", "no fallible step found on the path from NewRawSuite", "")
	}
	// the digit count is the parsed number itself: no remapping of values the configuration cannot represent
	nDig := 0
	for f := range reach {
		if fnPkgPath(f) != OtpPath {
			continue
		}
		for _, st := range fieldStores(tb, f, "SuiteConfig")["Digits"] {
			vt := tb.Of(st.Val)
			for vt.Op == "conv" && len(vt.Args) == 1 {
				vt = vt.Args[0]
			}
			nDig++
			isParsed := func(t *Term) bool {
				for t.Op == "conv" && len(t.Args) == 1 {
					t = t.Args[0]
				}
				return t.Op == "extract" && t.Sym == "0" && t.Args[0].Op == "call" && (t.Args[0].Sym == "strconv.Atoi" || t.Args[0].Sym == "strconv.ParseUint" || t.Args[0].Sym == "strconv.ParseInt")
			}
			ok := isParsed(vt)
			if !ok && vt.Op == "field" && len(vt.Args) == 1 {
				// handed over in a field of a parsing helper's result: on every return of the helper that field is the
				// parsed number (or the zero of an error return)
				inner := vt.Args[0]
				if inner.Op == "extract" && inner.Sym == "0" && len(inner.Args) == 1 {
					inner = inner.Args[0]
				}
				if cl, isCall := inner.Val.(*ssa.Call); isCall && inner.Op == "call" {
					if g := cl.Call.StaticCallee(); g != nil && w.InModule(g) {
						if rs := tb.Results(g, nil, nil, 0); len(rs) >= 1 {
							ft := tb.fieldOf(rs[0], vt.Sym, nil)
							ok, nParsed := true, 0
							for _, a := range ft.Alts() {
								switch {
								case isParsed(a):
									nParsed++
								case a.Op == "zero" || (a.IsConst() && a.Sym == "0"):
								default:
									ok = false
								}
							}
							ok = ok && nParsed > 0
							_ = ok
							if ok {
								c.OK(rule, FuncName(f), "digits-parsed-verbatim", "Digits is the number parsed from the suite string, handed over unchanged in a field of "+FuncName(g)+"'s result", w.InstrPos(st))
								continue
							}
						}
					}
				}
			}
			c.Decide(ok, rule, FuncName(f), "digits-parsed-verbatim", "Digits is the number parsed from the suite string, unchanged (Validate then rejects what cannot be represented)", "Digits is set from "+clip(vt.String(), 200)+", not from the parsed number unchanged: a string the configuration cannot represent is mapped to another code length instead of being rejected", w.InstrPos(st))
		}
	}
	if nDig == 0 {
		c.Unk(rule, "otp.parser", "digits-parsed-verbatim", "no store of the parsed digit count found on the path from NewRawSuite", "")
	}
	// time units: the function reached from NewRawSuite that switches on a byte/rune unit
	unitOK := false
	for f := range reach {
		if fnPkgPath(f) != OtpPath || HasLoop(f) {
			continue
		}
		units := map[int64]string{}
		for _, b := range f.Blocks {
			iff, ok := b.Instrs[len(b.Instrs)-1].(*ssa.If)
			if !ok {
				continue
			}
			bo, ok := iff.Cond.(*ssa.BinOp)
			if !ok || bo.Op.String() != "==" {
				continue
			}
			k, ok := bo.Y.(*ssa.Const)
			if !ok {
				k, ok = bo.X.(*ssa.Const)
			}
			if !ok || k.Value == nil || k.Value.Kind() != constant.Int {
				continue
			}
			if bt, isB := k.Type().Underlying().(*types.Basic); !isB || (bt.Kind() != types.Uint8 && bt.Kind() != types.Int32 && bt.Kind() != types.UntypedRune) {
				continue
			}
			ch, _ := constant.Int64Val(k.Value)
			tgt := b.Succs[0]
			if r, ok := tgt.Instrs[len(tgt.Instrs)-1].(*ssa.Return); ok && len(r.Results) > 0 {
				units[ch] = tb.Of(r.Results[0]).String()
			} else if _, isJ := tgt.Instrs[len(tgt.Instrs)-1].(*ssa.Jump); isJ && len(tgt.Instrs) == 1 {
				// the case selects a constant multiplier: return v * phi(…k…)
				j := tgt.Succs[0]
				for _, r := range Returns(f) {
					if len(r.Results) == 0 {
						continue
					}
					mul, ok := r.Results[0].(*ssa.BinOp)
					if !ok || mul.Op != token.MUL {
						continue
					}
					for side := 0; side < 2; side++ {
						ph, v := mul.X, mul.Y
						if side == 1 {
							ph, v = mul.Y, mul.X
						}
						p, ok := ph.(*ssa.Phi)
						if !ok || p.Block() != j {
							continue
						}
						for i, pr := range j.Preds {
							if pr != tgt {
								continue
							}
							if k, ok := constInt(p.Edges[i]); ok {
								if k.Int64() == 1 {
									units[ch] = tb.Of(v).String()
								} else {
									units[ch] = "bin(*; " + tb.Of(v).String() + "; const(" + k.String() + "))"
								}
							}
						}
					}
				}
			}
		}
		if len(units) == 0 {
			continue
		}
		// expected: 'S' -> v, 'M' -> v*60, 'H' -> v*3600 for one and the same v
		s, m, h := units['S'], units['M'], units['H']
		if s == "" || m == "" || h == "" {
			continue
		}
		okM := m == "bin(*; const(60); "+s+")" || m == "bin(*; "+s+"; const(60))"
		okH := h == "bin(*; const(3600); "+s+")" || h == "bin(*; "+s+"; const(3600))"
		okS := strings.HasPrefix(s, "extract(0; call(strconv.Atoi") || strings.HasPrefix(s, "extract(0; call(strconv.Parse")
		// the number is the whole spec but its last character (the unit): Atoi(g[:len(g)-1]) of the function's text
		if okS && len(f.Params) == 1 {
			g := tb.Of(f.Params[0]).String()
			wantNum := "slice(" + g + "; none; bin(-; len(" + g + "); const(1)); none)"
			numOK := false
			EachInstr(f, func(in ssa.Instruction) {
				if cl, ok := in.(*ssa.Call); ok && strings.HasPrefix(CalleeName(cl.Common()), "strconv.") && len(cl.Call.Args) >= 1 {
					if tb.Of(cl.Call.Args[0]).String() == wantNum {
						numOK = true
					}
				}
			})
			c.Decide(numOK, rule, FuncName(f), "time-number", "the number parsed is the whole granularity text without its unit character", "the number handed to the integer parser is not text[:len(text)-1]: multi-digit time steps are cut short or include the unit", w.Pos(f.Pos()))
		}
		unitOK = true
		c.Decide(okS && okM && okH && len(units) == 3, rule, FuncName(f), "time-units", "S/M/H scale the parsed number by 1/60/3600 in plain int arithmetic", fmt.Sprintf("time unit table is S→%s, M→%s, H→%s (%d units): not number×1/60/3600", s, m, h, len(units)), w.Pos(f.Pos()))
		// narrowing conversions on the way would wrap
		EachInstr(f, func(in ssa.Instruction) {
			if cv, ok := in.(*ssa.Convert); ok {
				if _, isInt, _ := intInfoOK(cv.Type(), w); isInt && !valuePreserving(cv.X.Type(), cv.Type(), w) {
					c.Bad(rule, FuncName(f), "time-units-narrowing", "the time step is computed through a narrowing/sign-changing conversion to "+cv.Type().String()+": large values wrap instead of being rejected", w.InstrPos(in))
				}
			}
		})
	}
	if !unitOK {
		c.Unk(rule, "otp.parser", "time-units", "no S/M/H unit table found on the path from NewRawSuite", "")
	}
	// validate-before-return: every successful return of the parser entry reached from NewRawSuite is
	// dominated by a nil test of Validate() on the returned configuration
	for f := range reach {
		if fnPkgPath(f) != OtpPath || f == nr {
			continue
		}
		res := f.Signature.Results()
		if res.Len() != 2 || !isErrorType(res.At(1).Type()) {
			continue
		}
		if n, ok := res.At(0).Type().(*types.Named); !ok || n.Obj().Name() != "SuiteConfig" {
			continue
		}
		// only the function whose success value is handed out by NewRawSuite (its direct callee)
		direct := false
		for _, s := range w.CallSites(f) {
			if s.Parent() == nr {
				direct = true
			}
		}
		if !direct {
			continue
		}
		for i, r := range Returns(f) {
			et := tb.Of(r.Results[1])
			if !(et.IsConst() && et.Sym == "nil") {
				continue
			}
			ok := false
			for _, at := range atomsOf(CondsAt(r.Block())) {
				t := tb.Of(at.X)
				if at.Op.String() == "==" && isNilConst(at.Y) && t.Op == "call" && strings.HasSuffix(t.Sym, ".Validate") {
					// the validated value must be the returned one
					if t.Args[0].String() == tb.Of(r.Results[0]).String() {
						ok = true
					}
				}
			}
			c.Decide(ok, rule, FuncName(f), fmt.Sprintf("validate-before-return#%d", i), "a parsed configuration is handed out only after its own Validate() returned nil (unrepresentable tokens are rejected, not approximated)", "a successful return of the parser is not guarded by Validate()==nil of the returned configuration", w.InstrPos(r))
		}
	}
	// version prefix and part count: whole-token equality, exactly three parts
	for f := range reach {
		if fnPkgPath(f) != OtpPath {
			continue
		}
		EachInstr(f, func(in ssa.Instruction) {
			ci, ok := in.(ssa.CallInstruction)
			if !ok {
				return
			}
			n := CalleeName(ci.Common())
			if (n == "strings.HasPrefix" || n == "strings.Contains" || n == "strings.HasSuffix") && len(ci.Common().Args) == 2 {
				if k, ok := ci.Common().Args[1].(*ssa.Const); ok && k.Value != nil && k.Value.Kind() == constant.String && strings.HasPrefix(constant.StringVal(k.Value), "OCRA-") {
					c.Bad(rule, FuncName(f), "version-token", "the version part is tested with "+n+"(…, "+k.Value.ExactString()+") instead of equality: strings such as \"OCRA-10:…\" or \"OCRA-1x:…\" are accepted as OCRA-1", w.InstrPos(in))
				}
			}
		})
		EachInstr(f, func(in ssa.Instruction) {
			bo, ok := in.(*ssa.BinOp)
			if !ok {
				return
			}
			// number of ':'-separated parts: exactly three (a tail after the data input would be ignored)
			if isCompare(bo.Op) {
				for _, side := range [][2]ssa.Value{{bo.X, bo.Y}, {bo.Y, bo.X}} {
					lt := tb.Of(side[0])
					kc, isC := constInt(side[1])
					if isC && lt.Op == "len" && lt.Args[0].Op == "call" && lt.Args[0].Sym == "strings.Split" && len(lt.Args[0].Args) == 2 && lt.Args[0].Args[1].Sym == `":"` {
						if (bo.Op.String() == "!=" || bo.Op.String() == "==") && kc.Int64() == 3 {
							c.OK(rule, FuncName(f), "part-count", "the suite string must have exactly three ':'-separated parts", w.InstrPos(in))
						} else {
							c.Bad(rule, FuncName(f), "part-count", fmt.Sprintf("the number of ':'-separated parts is tested with %s %d instead of != 3: extra parts after the data input are silently ignored (the suite is approximated, and keeps the full string as its name)", bo.Op, kc.Int64()), w.InstrPos(in))
						}
					}
				}
			}
			k, ok := bo.Y.(*ssa.Const)
			if !ok || k.Value == nil || k.Value.Kind() != constant.String || !strings.HasPrefix(constant.StringVal(k.Value), "OCRA-") {
				return
			}
			if bo.Op.String() == "==" || bo.Op.String() == "!=" {
				c.OK(rule, FuncName(f), "version-token", "version part compared for equality with "+k.Value.ExactString(), w.InstrPos(in))
			}
		})
	}
}

func init() {
	register(&propDef{
		id:    "C15",
		level: "other",
		explain: "R15.1 (exhaustive): every key/value pair of the registry literal (found as the map ListSuites ranges over) is evaluated from the syntax tree with the type checker's constants; the key is parsed by an independent RFC 6287 name parser inside the checker and compared field by field " +
			"(hash, digits, five include flags, challenge format, password hash, time step; enumerator values taken from the package's exported constants by name) and checked for instantiability. " +
			"R15.2: ListSuites, IsKnownSuite, SuiteConfigFromRaws and NewRawSuite read that one table, nobody writes it, and every successful return of NewRawSuite carries the given string as Raw (through the parser's own store of raw). " +
			"R15.3: the parser's token tables (hash names, 08/10, PSHA*, S/M/H x1/60/3600 without narrowing) and its structure: every successful parser return is dominated by Validate()==nil of the returned configuration; the version part is compared by equality. " +
			"R15.4: the functions reachable from the suite constructors and lookups keep no package-level mutable state (no memoisation that could make one parse influence the next). " +
			"R15.5: the enumerators have the documented numeric wire values; R15.6: NewSuite returns the given configuration unchanged. " +
			"Not decided: the parser's behaviour over the whole string language (split/trim/Atoi are runtime string processing). " +
			"R15.3 error-used: no step's error on the parser path is dropped or overwritten unread; R15.REST.7 a handler that answers from the table with SuiteConfigFromRaws also asks IsKnownSuite about the same text.",
		assume:   []string{"a time token without unit in a registered name (\"T1\") means seconds: the registry's own spelling, frozen as the single exception"},
		quick:    []Config{CfgNative},
		thorough: []Config{CfgNative, CfgWasm, Cfg386},
		run: func(c *Check, w *World) {
			tb := NewTB(w)
			ef := NewEffects(tb)
			ruleRegistryFidelity(c, w, "R15.1")
			ruleOneTable(c, w, tb, ef, "R15.2")
			ruleParserTables(c, w, tb, "R15.3")
			ruleHistoryIndependence(c, w, tb, ef, "R15.4", w.Funcs(OtpPath, "NewRawSuite", "NewSuite", "ListSuites", "IsKnownSuite", "SuiteConfigFromRaws", "MustRawSuite")...)
			// the REST face of the registry: list, description and the raw-suite text handed to the library
			checkRESTEndpoints(c, w, tb, ef, "R15.REST", "/ocra/suite", "/ocra/suites")
			// a configuration reported or sent in numeric form means the documented format
			ruleWireEnums(c, w, "R15.5")
			c.Floor("R15.5", 11)
			ruleConstructorIdentity(c, w, tb, "R15.6")
			c.Floor("R15.6", 1)
			c.Floor("R15.1", 40)
			c.Floor("R15.2", 6)
			c.Floor("R15.3", 10)
		},
	})
}

// InLoopBoundOf: the len(...) call is compared with an induction variable in a loop head (range over a slice).
func InLoopBoundOf(lenCall *ssa.Call) bool {
	refs := lenCall.Referrers()
	if refs == nil {
		return false
	}
	for _, r := range *refs {
		bo, ok := r.(*ssa.BinOp)
		if !ok {
			continue
		}
		if rr := bo.Referrers(); rr != nil {
			for _, u := range *rr {
				if iff, isIf := u.(*ssa.If); isIf && InLoop(iff.Block()) {
					return true
				}
			}
		}
	}
	return false
}

// ruleErrorsUsed: every error result of a call made in fns is looked at — tested, returned, wrapped or stored. An
// error variable that the next step overwrites before anyone has read it (err := a(); err = b(); if err != nil)
// makes what the first step refuses pass. Returns the number of fallible calls examined.
func ruleErrorsUsed(c *Check, w *World, rule string, fns []*ssa.Function) int {
	nErr := 0
	for _, f := range fns {
		EachInstr(f, func(in ssa.Instruction) {
			cl, ok := in.(*ssa.Call)
			if !ok {
				return
			}
			var ev ssa.Value
			switch t := cl.Type().(type) {
			case *types.Tuple:
				hasErr := false
				for i := 0; i < t.Len(); i++ {
					if isErrorType(t.At(i).Type()) {
						hasErr = true
					}
				}
				if !hasErr {
					return
				}
				if cl.Referrers() != nil {
					for _, r := range *cl.Referrers() {
						if ex, isEx := r.(*ssa.Extract); isEx && isErrorType(ex.Type()) {
							ev = ex
						}
					}
				}
			default:
				if !isErrorType(cl.Type()) {
					return
				}
				ev = cl
			}
			name := CalleeName(cl.Common())
			if strings.HasPrefix(name, "fmt.Errorf") || strings.HasPrefix(name, "errors.") {
				return // constructing an error, not a step that can fail
			}
			if name == "(hash.Hash).Write" || strings.HasPrefix(name, "(*strings.Builder).Write") || strings.HasPrefix(name, "(*bytes.Buffer).Write") {
				return // documented never to return an error
			}
			nErr++
			used := false
			if ev != nil && ev.Referrers() != nil {
				for _, r := range *ev.Referrers() {
					if _, isDbg := r.(*ssa.DebugRef); !isDbg {
						used = true
					}
				}
			}
			c.Decide(used, rule, FuncName(f), "error-used:"+name, "the error of this step is tested, returned or wrapped", "the error returned by "+name+" is never looked at (overwritten or dropped): what this step refuses is accepted", w.InstrPos(in))
		})
	}
	return nErr
}
