package eng

import (
	"fmt"
	"os"
	"sort"

	"golang.org/x/tools/go/ssa"
)

// A rule set for one property: runs on one loaded configuration.
type propDef struct {
	id       string
	level    string
	explain  string
	trusted  []string
	assume   []string
	quick    []Config
	thorough []Config
	run      func(c *Check, w *World)
	post     func(c *Check) // after all configurations (cross-configuration rules)
}

var registry = map[string]*propDef{}

func register(p *propDef) { registry[p.id] = p }

var commonTrusted = []string{
	"Go type checker and go/ssa construction (golang.org/x/tools v0.50.0, go1.26.8)",
	"documented semantics of the standard-library functions named in the rules",
}

// Run executes the check of one property and returns it (nil if unknown).
func Run(id, tier string) *Check {
	p := registry[id]
	if p == nil {
		return nil
	}
	c := NewCheck(id, tier)
	c.Level = p.level
	c.Explanation = p.explain
	c.Trusted = append(append([]string{}, commonTrusted...), p.trusted...)
	c.Assumptions = p.assume
	cfgs := p.quick
	if tier == "thorough" && len(p.thorough) > 0 {
		cfgs = p.thorough
	}
	for _, cfg := range cfgs {
		c.SetConfig(cfg.Name)
		w, err := Load(cfg, false)
		if err != nil {
			c.Fatal("%v", err)
			continue
		}
		c.Count("packages", len(w.Pkgs))
		c.Count("module_functions", len(w.ModuleFuncs()))
		func() {
			defer func() {
				if r := recover(); r != nil {
					c.Fatal("checker panic in %s on %s: %v", id, cfg.Name, r)
					if os.Getenv("OTPSA_DEBUG") != "" {
						panic(r)
					}
				}
			}()
			p.run(c, w)
		}()
	}
	if p.post != nil {
		p.post(c)
	}
	return c
}

// DebugTerms prints the result terms and interesting instruction terms of a function.
func DebugTerms(pkg, fn string, wasm bool) {
	cfg := CfgNative
	if wasm {
		cfg = CfgWasm
	}
	w, err := Load(cfg, false)
	if err != nil {
		fmt.Println(err)
		return
	}
	tb := NewTB(w)
	NewEffects(tb)
	var fns []*ssa.Function
	for _, f := range w.ModuleFuncs() {
		if fnPkgPath(f) == pkg && (fn == "*" || f.Name() == fn || FuncName(f) == fn) {
			fns = append(fns, f)
		}
	}
	sort.Slice(fns, func(i, j int) bool { return fns[i].String() < fns[j].String() })
	for _, f := range fns {
		fmt.Printf("== %s\n", FuncName(f))
		for i, r := range tb.Results(f, nil, nil, 0) {
			fmt.Printf("  result %d: %s\n", i, r)
		}
		for _, b := range f.Blocks {
			for _, in := range b.Instrs {
				switch in := in.(type) {
				case *ssa.Call:
					fmt.Printf("  b%d call %s = %s\n", b.Index, in.Name(), tb.Of(in))
				case *ssa.If:
					fmt.Printf("  b%d if %s\n", b.Index, tb.Of(in.Cond))
				case *ssa.Store:
					fmt.Printf("  b%d store %s <- %s\n", b.Index, tb.Of(in.Addr), tb.Of(in.Val))
				}
			}
		}
	}
}
