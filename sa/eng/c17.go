package eng

import (
	"fmt"
	"go/token"
	"go/types"
	"strings"

	"golang.org/x/tools/go/ssa"
)

// checkBigEndian8 verifies that f writes the 64-bit value V into an 8-byte buffer most significant
// byte first: for i = 7 … 0: out[i] = byte(v); v >>= 8, and returns that whole buffer.
// vT is the term of the 64-bit value (a parameter or a parse result).
func checkBigEndian8(c *Check, w *World, tb *TB, rule string, f *ssa.Function, vMatch func(t *Term) bool, vDesc string) string {
	fn := FuncName(f)
	pos := w.Pos(f.Pos())
	var stores []*ssa.Store
	EachInstr(f, func(in ssa.Instruction) {
		if st, ok := in.(*ssa.Store); ok {
			if _, isIA := st.Addr.(*ssa.IndexAddr); isIA {
				if b, isB := st.Val.Type().Underlying().(*types.Basic); isB && b.Kind() == types.Uint8 {
					stores = append(stores, st)
				}
			}
		}
	})
	if len(stores) == 0 {
		// the library idiom: binary.BigEndian.PutUint64(buf, v) on an 8-byte buffer that is returned
		var puts []ssa.CallInstruction
		EachInstr(f, func(in ssa.Instruction) {
			if ci, ok := in.(ssa.CallInstruction); ok && strings.Contains(CalleeName(ci.Common()), "encoding/binary.") && strings.HasSuffix(CalleeName(ci.Common()), "PutUint64") {
				puts = append(puts, ci)
			}
		})
		if len(puts) == 1 {
			n := CalleeName(puts[0].Common())
			args := puts[0].Common().Args
			bufT, vT := tb.Of(args[len(args)-2]), tb.Of(args[len(args)-1])
			okBuf := (bufT.Op == "slice" && bufT.Args[0].Op == "alloc" && bufT.Args[2].IsConst() && bufT.Args[2].Sym == "8" && bufT.Args[1].Op == "none") || (bufT.Op == "makeslice" && bufT.Args[0].IsConst() && bufT.Args[0].Sym == "8")
			res := tb.Results(f, nil, nil, 0)
			okRes := false
			for _, a := range res[0].Alts() {
				if a.String() == bufT.String() {
					okRes = true
				}
			}
			ok := n == "(encoding/binary.bigEndian).PutUint64" && okBuf && vMatch(vT) && okRes
			c.Decide(ok, rule, fn, "big-endian-8", "binary.BigEndian.PutUint64 of "+vDesc+" into the returned 8-byte buffer", "the 8-byte encoding is "+n+" of "+clip(vT.String(), 120)+" (buffer ok: "+fmt.Sprint(okBuf)+", returned: "+fmt.Sprint(okRes)+"), not big-endian of "+vDesc, pos)
			if ok {
				return "big-endian-8(V)"
			}
			return "other:" + n
		}
	}
	if len(stores) == 0 {
		// binary.BigEndian.AppendUint64(empty, v), returned: the eight big-endian bytes of v and nothing else
		res := tb.Results(f, nil, nil, 0)
		var apps []*Term
		otherRes := false
		for _, a := range res[0].Alts() {
			switch {
			case a.IsConst():
			case a.Op == "call" && a.Sym == "(encoding/binary.bigEndian).AppendUint64" && len(a.Args) == 3:
				apps = append(apps, a)
			default:
				otherRes = true
			}
		}
		if len(apps) == 1 && !otherRes {
			base, vT := apps[0].Args[1], apps[0].Args[2]
			okBase := (base.Op == "makeslice" && base.Args[0].IsConst() && base.Args[0].Sym == "0") || (base.IsConst() && base.Sym == "nil") ||
				(base.Op == "slice" && base.Args[0].Op == "alloc" && base.Args[2].IsConst() && base.Args[2].Sym == "0") // make([]byte, 0, 8)
			ok := okBase && vMatch(vT)
			c.Decide(ok, rule, fn, "big-endian-8", "binary.BigEndian.AppendUint64 of "+vDesc+" onto an empty slice, returned", "the 8-byte encoding is AppendUint64 of "+clip(vT.String(), 120)+" onto "+clip(base.String(), 80)+", not the big-endian bytes of "+vDesc+" alone", pos)
			if ok {
				return "big-endian-8(V)"
			}
			return "other:append"
		}
	}
	if len(stores) == 0 {
		// delegation: the result is G(V) with G a module function that is itself the big-endian-8 encoder of its argument
		res := tb.Results(f, nil, nil, 0)
		var calls []*Term
		other := false
		for _, a := range res[0].Alts() {
			switch {
			case a.IsConst():
			case a.Op == "call" && len(a.Args) == 1:
				calls = append(calls, a)
			default:
				other = true
			}
		}
		if len(calls) == 1 && !other {
			if cl, ok := calls[0].Val.(*ssa.Call); ok && cl.Call.StaticCallee() != nil && w.InModule(cl.Call.StaticCallee()) && cl.Call.StaticCallee() != f && len(cl.Call.StaticCallee().Params) == 1 {
				g := cl.Call.StaticCallee()
				if !vMatch(calls[0].Args[0]) {
					c.Bad(rule, fn, "big-endian-8", "the encoder "+FuncName(g)+" is applied to "+clip(calls[0].Args[0].String(), 120)+", not to "+vDesc, w.InstrPos(cl))
					return "other-arg"
				}
				gp := tb.Of(g.Params[0]).String()
				sig := checkBigEndian8(c, w, tb, rule, g, func(t *Term) bool { return t.String() == gp }, "the argument")
				c.Decide(sig == "big-endian-8(V)", rule, fn, "big-endian-8", "delegates to "+FuncName(g)+"("+vDesc+"), checked as the big-endian-8 encoder", "delegates to "+FuncName(g)+", which is not a big-endian-8 encoder", w.InstrPos(cl))
				return sig
			}
		}
	}
	if len(stores) != 1 {
		c.Unk(rule, fn, "byte-sweep", fmt.Sprintf("%d byte stores, expected the single store of the sweep loop", len(stores)), pos)
		return ""
	}
	st := stores[0]
	ia := st.Addr.(*ssa.IndexAddr)
	bufT := tb.Of(ia.X)
	// buffer of exactly 8 bytes
	okBuf := (bufT.Op == "slice" && bufT.Args[0].Op == "alloc" && bufT.Args[2].IsConst() && bufT.Args[2].Sym == "8" && bufT.Args[1].Op == "none") ||
		(bufT.Op == "makeslice" && bufT.Args[0].IsConst() && bufT.Args[0].Sym == "8")
	// value: conv(byte; V & 255) or conv(byte; V), V = phi(v0, V >> 8)
	vt := tb.Of(st.Val)
	okVal := false
	var runner *Term
	if vt.Op == "conv" && (vt.Sym == "byte" || vt.Sym == "uint8") {
		in := vt.Args[0]
		if in.Op == "bin" && in.Sym == "&" {
			for k := 0; k < 2; k++ {
				if in.Args[k].IsConst() && in.Args[k].Sym == "255" {
					runner = in.Args[1-k]
				}
			}
		} else {
			runner = in
		}
	}
	if runner != nil && (runner.Op == "phi") {
		okVal = true
		seenInit := false
		for _, a := range runner.Alts() {
			switch {
			case a.Op == "bin" && a.Sym == ">>" && a.Args[1].IsConst() && a.Args[1].Sym == "8" && a.Args[0].Op == "cycle":
			case vMatch(a):
				seenInit = true
			default:
				okVal = false
			}
		}
		okVal = okVal && seenInit
	}
	// index: descending from 7, exhausted before return
	okIdx := false
	whyIdx := "the byte index is not a loop counter"
	if ph, ok := ia.Index.(*ssa.Phi); ok {
		ind := InductionOf(ph)
		switch {
		case ind == nil || ind.Step != -1:
			whyIdx = "the byte index does not go down by one per step (ascending index = little-endian)"
		case len(ind.Inits) != 1 || !isConstInt(ind.Inits[0], 7):
			whyIdx = "the byte index does not start at 7"
		default:
			okIdx = false
			whyIdx = "the buffer can be returned before index 0 was written"
			for _, r := range Returns(f) {
				for _, at := range atomsOf(CondsAt(r.Block())) {
					if at.X == ssa.Value(ph) {
						if k, ok := constInt(at.Y); ok && ((at.Op == token.LSS && k.Sign() == 0) || (at.Op == token.LEQ && k.Int64() == -1)) {
							okIdx = true
						}
					}
				}
			}
		}
	}
	// result is the whole buffer
	res := tb.Results(f, nil, nil, 0)
	okRes := false
	for _, a := range res[0].Alts() {
		if a.String() == bufT.String() {
			okRes = true
		}
	}
	why := ""
	switch {
	case !okBuf:
		why = "the buffer is not exactly 8 bytes: " + clip(bufT.String(), 120)
	case !okVal:
		why = "the byte stored is not the low byte of the running value (" + vDesc + ", shifted right by 8 per step): " + clip(normT(vt), 200)
	case !okIdx:
		why = whyIdx
	case !okRes:
		why = "the function does not return the buffer it filled"
	}
	c.Decide(why == "", rule, fn, "big-endian-8", "8-byte buffer filled from index 7 down to 0 with the low byte of "+vDesc+", shifting right by 8: big-endian", why, pos)
	// semantic class for the sibling comparison
	if why == "" {
		return "big-endian-8(V)"
	}
	return fmt.Sprintf("buf8=%v val=%s idx=%v", okBuf, normT(vt), okIdx)
}

// padInfo describes "src padded with ch on one side up to width".
type padInfo struct {
	src   *Term
	side  string // "left" or "right"
	ch    string // the pad text, quoted constant
	width int64  // -1 for the loop form (the caller reads the loop bound)
}

// padForm recognises the two padding idioms: the loop (s = s + ch / s = ch + s while len(s) < W) and the guarded
// one-shot form (if W - len(s) > 0 { s = s + Repeat(ch, W - len(s)) }), whose amount and guard are checked
// by folding them for every length 0..W+8 (single linear comparison, so the truth beyond is settled).
func padForm(t *Term) (padInfo, bool) {
	switch {
	case t.Op == "phi":
		var pi padInfo
		pi.width = -1
		n := 0
		for _, a := range t.Alts() {
			if a.Op == "bin" && a.Sym == "+" && len(a.Args) == 2 {
				n++
				switch {
				case a.Args[0].Op == "cycle" && a.Args[1].IsConst():
					if pi.side != "" && (pi.side != "right" || pi.ch != a.Args[1].Sym) {
						return pi, false
					}
					pi.side, pi.ch = "right", a.Args[1].Sym
				case a.Args[1].Op == "cycle" && a.Args[0].IsConst():
					if pi.side != "" && (pi.side != "left" || pi.ch != a.Args[0].Sym) {
						return pi, false
					}
					pi.side, pi.ch = "left", a.Args[0].Sym
				default:
					return pi, false
				}
			} else if a.Op == "cycle" {
			} else {
				if pi.src != nil {
					return pi, false
				}
				pi.src = a
			}
		}
		return pi, n > 0 && pi.src != nil
	case t.Op == "ite" && len(t.Args) == 3:
		cnd, t1, t2 := t.Args[0], t.Args[1], t.Args[2]
		var pi padInfo
		var padded *Term
		switch {
		case t1.Op == "bin" && t1.Sym == "+" && (t1.Args[0].String() == t2.String() || t1.Args[1].String() == t2.String()):
			pi.src, padded = t2, t1
		case t2.Op == "bin" && t2.Sym == "+" && (t2.Args[0].String() == t1.String() || t2.Args[1].String() == t1.String()):
			pi.src, padded = t1, t2
		default:
			return pi, false
		}
		var rep *Term
		if padded.Args[0].String() == pi.src.String() && padded.Args[1].Op == "call" {
			pi.side, rep = "right", padded.Args[1]
		} else if padded.Args[1].String() == pi.src.String() && padded.Args[0].Op == "call" {
			pi.side, rep = "left", padded.Args[0]
		} else {
			return pi, false
		}
		if rep.Sym != "strings.Repeat" || len(rep.Args) != 2 || !rep.Args[0].IsConst() {
			return pi, false
		}
		pi.ch = rep.Args[0].Sym
		L := "len(" + pi.src.String() + ")"
		if !linearIn(cnd, L) || !linearIn(rep.Args[1], L) {
			return pi, false
		}
		W, ok := evalSmall(rep.Args[1], L, 0)
		if !ok || W <= 0 || W > 1<<16 {
			return pi, false
		}
		for l := int64(0); l <= W+8; l++ {
			cv, ok1 := evalSmall(cnd, L, l)
			n, ok2 := evalSmall(rep.Args[1], L, l)
			if !ok1 || !ok2 {
				return pi, false
			}
			takesPad := (cv != 0) == (padded == t1)
			if !takesPad {
				n = 0
			}
			want := W - l
			if want < 0 {
				want = 0
			}
			if n != want {
				return pi, false
			}
		}
		pi.width = W
		return pi, true
	}
	return padInfo{}, false
}

// linearIn: t is built from constants, the symbols syms, +, - and at most one comparison at the top.
func linearIn(t *Term, syms ...string) bool {
	var lin func(x *Term) bool
	lin = func(x *Term) bool {
		for _, sym := range syms {
			if x.String() == sym {
				return true
			}
		}
		switch {
		case x.IsConst():
			return true
		case x.Op == "conv" && len(x.Args) == 1:
			return lin(x.Args[0])
		case x.Op == "bin" && (x.Sym == "+" || x.Sym == "-") && len(x.Args) == 2:
			return lin(x.Args[0]) && lin(x.Args[1])
		}
		return false
	}
	if t.Op == "bin" && len(t.Args) == 2 {
		switch t.Sym {
		case "<", "<=", ">", ">=":
			return lin(t.Args[0]) && lin(t.Args[1])
		}
	}
	return lin(t)
}

// loopPadsTo: the padding loop over text t runs exactly while len(t) < width.
func loopPadsTo(tb *TB, f *ssa.Function, t *Term, width int64) bool {
	ok := false
	EachInstr(f, func(in ssa.Instruction) {
		if iff, isIf := in.(*ssa.If); isIf {
			ct := tb.Of(iff.Cond)
			if ct.Op == "bin" && ct.Sym == "<" && ct.Args[0].String() == "len("+t.String()+")" && ct.Args[1].IsConst() && ct.Args[1].Sym == fmt.Sprint(width) {
				ok = true
			}
		}
	})
	return ok
}

func isConstInt(v ssa.Value, k int64) bool {
	x, ok := constInt(v)
	return ok && x.Int64() == k
}

func runC17(c *Check, w *World) {
	tb := NewTB(w)
	ef := NewEffects(tb)
	get := func(n string) *ssa.Function {
		f := w.Func(OtpPath, n)
		if f == nil {
			c.Fatal("anchor not found: %s", n)
		}
		return f
	}
	// R17.1 / R17.2
	var sigs []string
	delegated := map[*ssa.Function]*ssa.Function{}
	for _, n := range []string{"ParseDecimalToBigEndian8", "ParseDecimal64BigEndian"} {
		f := get(n)
		if f == nil {
			continue
		}
		fn := FuncName(f)
		// whole-function delegation to the sibling (return G(s)) inherits the sibling's obligations
		if rs := tb.Results(f, nil, nil, 0); len(rs) == 2 && rs[0].Op == "extract" && rs[1].Op == "extract" && rs[0].Sym == "0" && rs[1].Sym == "1" &&
			rs[0].Args[0].String() == rs[1].Args[0].String() && rs[0].Args[0].Op == "call" && len(rs[0].Args[0].Args) == 1 && rs[0].Args[0].Args[0].String() == fmt.Sprintf("param(%s#0)", fn) {
			if cl, ok := rs[0].Args[0].Val.(*ssa.Call); ok && cl.Call.StaticCallee() != nil {
				g := cl.Call.StaticCallee()
				if g != f && (g == w.Func(OtpPath, "ParseDecimalToBigEndian8") || g == w.Func(OtpPath, "ParseDecimal64BigEndian")) {
					c.OK("R17.1", fn, "decimal-parse", "returns "+FuncName(g)+"(s) unchanged; that sibling is checked", w.InstrPos(cl))
					c.OK("R17.1", fn, "parse-error-returned", "returns "+FuncName(g)+"(s) unchanged; that sibling is checked", w.InstrPos(cl))
					c.OK("R17.1", fn, "ParseUint-gate", "returns "+FuncName(g)+"(s) unchanged; that sibling is checked", w.InstrPos(cl))
					c.OK("R17.2", fn, "big-endian-8", "returns "+FuncName(g)+"(s) unchanged; that sibling is checked", w.InstrPos(cl))
					delegated[f] = g
					continue
				}
			}
		}
		want := fmt.Sprintf("call(strconv.ParseUint; param(%s#0); const(10); const(64))", fn)
		found := false
		EachInstr(f, func(in ssa.Instruction) {
			if cl, ok := in.(*ssa.Call); ok && strings.HasPrefix(CalleeName(cl.Common()), "strconv.") {
				t := tb.Of(cl)
				found = true
				c.Decide(t.String() == want, "R17.1", fn, "decimal-parse", "the text is parsed as an unsigned base-10 64-bit number", "the text is parsed with "+clip(t.String(), 160)+", not ParseUint(s, 10, 64): other bases, signs or widths are accepted", w.InstrPos(in))
				gateDominates(c, w, "R17.1", f, cl, "ParseUint")
			}
		})
		if !found {
			c.Bad("R17.1", fn, "decimal-parse", "no strconv parse of the argument", w.Pos(f.Pos()))
		}
		sigs = append(sigs, checkBigEndian8(c, w, tb, "R17.2", f, func(t *Term) bool { return t.String() == "extract(0; "+want+")" }, "the parsed number"))
		// on parse failure: (nil, that error)
		res := tb.Results(f, nil, nil, 0)
		okErr := false
		for _, a := range res[1].Alts() {
			if a.String() == "extract(1; "+want+")" {
				okErr = true
			}
		}
		c.Decide(okErr, "R17.1", fn, "parse-error-returned", "a parse failure is returned as the error", "the parse error is not returned", w.Pos(f.Pos()))
	}
	if f := get("To8ByteBigEndian"); f != nil {
		p0 := fmt.Sprintf("param(%s#0)", FuncName(f))
		sigs = append(sigs, checkBigEndian8(c, w, tb, "R17.2", f, func(t *Term) bool { return t.String() == p0 }, "the argument"))
	}
	// R17.3 decimal question
	if f := get("ParseDecimalChallengeRFC6287"); f != nil {
		fn := FuncName(f)
		pos := w.Pos(f.Pos())
		res := tb.Results(f, nil, nil, 0)
		p0 := fmt.Sprintf("param(%s#0)", fn)
		var dec *Term
		for _, a := range res[0].Alts() {
			if a.Op == "extract" && a.Args[0].Op == "call" && a.Args[0].Sym == "encoding/hex.DecodeString" {
				dec = a.Args[0]
			}
		}
		if dec == nil {
			c.Unk("R17.3", fn, "question", "the result is not hex.DecodeString of the padded text", pos)
		} else {
			hx := dec.Args[0]
			okPad, okSrc := false, false
			var src *Term
			pi, isPad := padForm(hx)
			if isPad {
				okPad = pi.side == "right" && pi.ch == `"0"`
				src = pi.src
			}
			if src != nil {
				s := src
				if s.Op == "call" && s.Sym == "strings.ToUpper" {
					s = s.Args[0]
				}
				if s.Op == "call" && s.Sym == "(*math/big.Int).Text" && s.Args[1].IsConst() && s.Args[1].Sym == "16" {
					ss := s.Args[0]
					if ss.Op == "extract" && ss.Sym == "0" && ss.Args[0].Op == "call" && ss.Args[0].Sym == "(*math/big.Int).SetString" && ss.Args[0].Args[1].String() == p0 && ss.Args[0].Args[2].Sym == "10" {
						okSrc = true
					}
				}
			}
			c.Decide(okSrc, "R17.3", fn, "decimal-to-hex", "the question is read as a base-10 big integer and written as base-16 text", "the text that is padded is "+clip(normT(hx), 240)+", not hex(decimal(question))", pos)
			c.Decide(okPad, "R17.3", fn, "right-pad", "the hex text is padded on the right with '0'", "the hex text is not right-padded with '0' (left padding shifts the value; RFC 6287 pads on the right)", pos)
			// loop bound 256
			okBound := isPad && pi.width == 256
			if isPad && pi.width < 0 {
				okBound = loopPadsTo(tb, f, hx, 256)
			}
			c.Decide(okBound, "R17.3", fn, "pad-width", "padding continues while the text is shorter than 256 hex digits (128 bytes)", "the padding does not stop at exactly 256 hex digits", pos)
		}
		// failure of SetString -> error
		okFail := false
		EachInstr(f, func(in ssa.Instruction) {
			if iff, ok := in.(*ssa.If); ok {
				t := tb.Of(iff.Cond)
				if t.Op == "extract" && t.Sym == "1" && t.Args[0].Sym == "(*math/big.Int).SetString" {
					eb := iff.Block().Succs[1]
					if r, ok := eb.Instrs[len(eb.Instrs)-1].(*ssa.Return); ok && !isNilConst(r.Results[1]) {
						okFail = true
					}
				}
			}
		})
		c.Decide(okFail, "R17.3", fn, "malformed-rejected", "text that is not a decimal number is rejected with an error", "a failed SetString does not lead to an error return", pos)
	}
	// R17.4 hex timestamp
	if f := get("ParseHexTimestamp"); f != nil {
		fn := FuncName(f)
		res := tb.Results(f, nil, nil, 0)
		p0 := fmt.Sprintf("param(%s#0)", fn)
		okShape, okBound := false, false
		if r0 := res[0]; r0.Op == "extract" && r0.Sym == "0" && r0.Args[0].Op == "call" && r0.Args[0].Sym == "encoding/hex.DecodeString" {
			hx := r0.Args[0].Args[0]
			if pi, ok := padForm(hx); ok && pi.side == "left" && pi.ch == `"0"` && pi.src.String() == p0 {
				okShape = true
				okBound = pi.width == 16 || (pi.width < 0 && loopPadsTo(tb, f, hx, 16))
			}
		}
		c.Decide(okShape, "R17.4", fn, "left-pad-16", "hex text is left-padded with '0' and decoded", "result is "+clip(normT(res[0]), 240), w.Pos(f.Pos()))
		c.Decide(okBound, "R17.4", fn, "pad-width", "padding continues while shorter than 16 hex digits (8 bytes)", "the padding does not stop at 16 hex digits", w.Pos(f.Pos()))
	}
	// R17.5 LeftPadHex
	if f := get("LeftPadHex"); f != nil {
		fn := FuncName(f)
		s, n := fmt.Sprintf("param(%s#0)", fn), fmt.Sprintf("param(%s#1)", fn)
		paths, err := EnumPaths(f, 16)
		ok := err == nil && len(paths) == 2
		why := "not a two-way function"
		if ok {
			for _, p := range paths {
				rt := tb.Of(p.Result(0)).String()
				ct := tb.Of(p.Conds[0].Cond).String()
				long := p.Conds[0].Taken
				if ct != "bin(>=; len("+s+"); "+n+")" {
					if ct == "bin(<; len("+s+"); "+n+")" {
						long = !long
					} else {
						ok, why = false, "the case split is "+ct
						continue
					}
				}
				if long && rt != "slice("+s+"; bin(-; len("+s+"); "+n+"); none; none)" {
					ok, why = false, "long inputs give "+clip(rt, 160)+", not the rightmost characters"
				}
				if !long && rt != "bin(+; call(strings.Repeat; const(\"0\"); bin(-; "+n+"; len("+s+"))); "+s+")" {
					ok, why = false, "short inputs give "+clip(rt, 160)+", not zeros followed by the text"
				}
			}
		}
		c.Decide(ok, "R17.5", fn, "left-pad", "shorter text is prefixed with '0' × (n − len); longer text keeps its rightmost n characters", "LeftPadHex deviates: "+why, w.Pos(f.Pos()))
	}
	if f := get("MustHexPadLeft"); f != nil {
		fn := FuncName(f)
		res := tb.Results(f, nil, nil, 0)
		want := fmt.Sprintf("extract(0; call(encoding/hex.DecodeString; call(github.com/ja7ad/otp.LeftPadHex; param(%s#0); bin(*; const(2); param(%s#1)))))", fn, fn)
		c.Decide(res[0].String() == want, "R17.5", fn, "pad-then-decode", "decodes the text left-padded to 2×size hex digits", "result is "+clip(res[0].String(), 200), w.Pos(f.Pos()))
	}
	// R17.6 HexInputToOCRA
	ruleHexInput(c, w, tb, "R17.6")
	// siblings agree
	if len(sigs) >= 2 {
		same := true
		base := strings.NewReplacer("extract(0; call(strconv.ParseUint; param(otp.ParseDecimalToBigEndian8#0); const(10); const(64)))", "V", "extract(0; call(strconv.ParseUint; param(otp.ParseDecimal64BigEndian#0); const(10); const(64)))", "V", "param(otp.To8ByteBigEndian#0)", "V")
		for _, s := range sigs[1:] {
			if base.Replace(s) != base.Replace(sigs[0]) {
				same = false
			}
		}
		c.Decide(same, "R17.2", "otp", "sibling-writers-agree", "the three 8-byte writers have the same normalised sweep", "the three 8-byte writers differ: "+strings.Join(sigs, " | "), "")
	}
	var api []*ssa.Function
	for _, n := range []string{"ParseDecimalToBigEndian8", "ParseDecimal64BigEndian", "To8ByteBigEndian", "ParseDecimalChallengeRFC6287", "ParseHexTimestamp", "LeftPadHex", "MustHexPadLeft", "HexInputToOCRA"} {
		if f := w.Func(OtpPath, n); f != nil {
			api = append(api, f)
		}
	}
	ruleHistoryIndependence(c, w, tb, ef, "R17.H", api...)
	// the REST use of the hex helper: five request fields in the helper's argument order, in both OCRA endpoints
	checkRESTEndpoints(c, w, tb, ef, "R17.REST", "/ocra/generate", "/ocra/validate")
	c.Floor("R17.1", 6)
	c.Floor("R17.2", 4)
	c.Floor("R17.3", 4)
	c.Floor("R17.4", 2)
	c.Floor("R17.5", 2)
	c.Floor("R17.6", 7) // five fields, the decode gate(s) and the count; a shared decoding helper has one gate
}

func init() {
	register(&propDef{
		id:    "C17",
		level: "other",
		explain: "R17.1 both decimal-counter helpers call ParseUint(s, 10, 64) with constant arguments, test the error and return it; R17.2 the three 8-byte writers are the same sweep: an 8-byte buffer, index 7 down to 0 exhausted before return, storing the low byte of the running value which is shifted right by 8 per step (big-endian), and they agree with each other; " +
			"R17.3 the decimal question is SetString(s,10) → Text(16) → right-padded with \"0\" while shorter than 256 → hex.DecodeString, malformed text rejected; R17.4 hex timestamps are left-padded with \"0\" to 16 and decoded; R17.5 LeftPadHex is Repeat(\"0\", n−len)+s / the rightmost n characters, on both of its paths; " +
			"R17.6 HexInputToOCRA sets each of the five fields from hex.DecodeString of the same-position argument (a fresh slice each), every decode error is tested and returned. Not decided: numeric identity beyond these idioms and the RFC end-to-end equality (C05).",
		trusted:  []string{"strconv.ParseUint, math/big.Int SetString/Text, encoding/hex.DecodeString"},
		quick:    []Config{CfgNative},
		thorough: []Config{CfgNative, CfgWasm, Cfg386},
		run:      runC17,
	})
}

// hexFieldTable recognises "for _, r := range rows { …; b, err := hex.DecodeString(r.text); …; *r.dst = b }" over a
// local array literal rows of (…, text string, dst *[]byte): the single store through the row's pointer writes the
// decode of the same row's text. It returns, per OCRAInput field the row's pointer designates, the row's text term.
func hexFieldTable(tb *TB, f *ssa.Function) map[string]string {
	var out map[string]string
	EachInstr(f, func(in ssa.Instruction) {
		st, ok := in.(*ssa.Store)
		if !ok || out != nil {
			return
		}
		at := tb.Of(st.Addr)
		vt := tb.Of(st.Val)
		// *row.dst = extract(0; DecodeString(row.text)), both fields of the same indexed row of one array
		if at.Op != "field" || len(at.Args) != 1 || at.Args[0].Op != "index" {
			return
		}
		row := at.Args[0]
		if vt.Op != "extract" || vt.Sym != "0" || vt.Args[0].Op != "call" || vt.Args[0].Sym != "encoding/hex.DecodeString" || len(vt.Args[0].Args) != 1 {
			return
		}
		txt := vt.Args[0].Args[0]
		if txt.Op != "field" || len(txt.Args) != 1 || txt.Args[0].String() != row.String() || row.Args[0].Op != "mem" {
			return
		}
		// the array: the local whose content the row is indexed from
		var arr *ssa.Alloc
		var arrT *Term
		EachInstr(f, func(x ssa.Instruction) {
			if a, ok := x.(*ssa.Alloc); ok {
				t := tb.Of(a)
				if t.Op == "alloc" && t.Sym+"." == row.Args[0].Sym {
					arr, arrT = a, t
				}
			}
		})
		if arr == nil {
			return
		}
		saved := tb.curLoad
		tb.curLoad = nil
		defer func() { tb.curLoad = saved }()
		res := map[string]string{}
		for k := 0; k < 32; k++ {
			r := fmt.Sprintf("[%d]", k)
			d := tb.cellContent(arr, arrT, []string{r, at.Sym}, nil)
			x := tb.cellContent(arr, arrT, []string{r, txt.Sym}, nil)
			if d.Op == "zero" {
				break
			}
			if d.Op != "faddr" || len(d.Args) != 1 || d.Args[0].Op != "alloc" {
				return
			}
			if _, dup := res[d.Sym]; dup {
				return
			}
			res[d.Sym] = x.String()
		}
		if len(res) > 0 {
			out = res
		}
	})
	return out
}

// shortBy: over the grid W in 0..12, L in 0..W+8 the linear terms behave like "L < W" (cond, may be nil) and
// like the amount W - L whenever L < W (cnt, may be nil). Terms are linear with small integer coefficients,
// so agreement on the grid (which follows the boundary L = W over thirteen points) settles all values.
func shortBy(cond, cnt *Term, L, W string) bool {
	return shortByPol(cond, cnt, L, W, true) || (cond != nil && shortByPol(cond, cnt, L, W, false))
}

// shortByPol: pol=false reads cond as the negated test (L >= W).
func shortByPol(cond, cnt *Term, L, W string, pol bool) bool {
	if (cond != nil && !linearIn(cond, L, W)) || (cnt != nil && !linearIn(cnt, L, W)) {
		return false
	}
	for w := int64(0); w <= 12; w++ {
		for l := int64(0); l <= w+8; l++ {
			env := map[string]int64{L: l, W: w}
			if cond != nil {
				cv, ok := evalEnv(cond, env)
				if !ok || (cv != 0) != ((l < w) == pol) {
					return false
				}
			}
			if cnt != nil && l < w {
				n, ok := evalEnv(cnt, env)
				if !ok || n != w-l {
					return false
				}
			}
		}
	}
	return true
}

// ruleHexInput (R17.6; shared with C14 and C05, whose REST and hex-driven inputs pass through it): HexInputToOCRA
// sets each of the five fields from the hex bytes of its own argument — a fresh slice per field, nil for an empty
// argument — with every decode error tested.
func ruleHexInput(c *Check, w *World, tb *TB, rule string) {
	f := w.Func(OtpPath, "HexInputToOCRA")
	if f == nil {
		c.Unk(rule, "otp", "hex-input", "HexInputToOCRA was not found", "")
		return
	}
	fn := FuncName(f)
	fs := fieldStores(tb, f, "OCRAInput")
	order := []string{"Counter", "Challenge", "Password", "SessionInfo", "Timestamp"}
	tableRows := hexFieldTable(tb, f) // the table-driven form: rows (text, &input.Field) walked by one loop
	if tableRows == nil {
		tableRows = hexFieldViaDst(w, tb, f) // a decoding helper that is handed the field's address
	}
	for i, fld := range order {
		want := fmt.Sprintf("extract(0; call(encoding/hex.DecodeString; param(%s#%d)))", fn, i)
		sts := fs[fld]
		if len(sts) == 0 && tableRows != nil {
			src, ok := tableRows[fld]
			c.Decide(ok && src == fmt.Sprintf("param(%s#%d)", fn, i), rule, fn, "field:"+fld, fld+" ← hex bytes of argument "+fmt.Sprint(i+1)+" (table row: the loop decodes row.text into *row.field)", fld+"'s table row decodes "+clip(src, 120)+", not argument "+fmt.Sprint(i+1), w.Pos(f.Pos()))
			continue
		}
		if len(sts) == 0 {
			c.Bad(rule, fn, "field:"+fld, "the "+fld+" field is never set", w.Pos(f.Pos()))
			continue
		}
		for _, st := range sts {
			vt := tb.Of(st.Val)
			viaHelper := false
			if vt.String() != want {
				// through a decoding helper: every value the helper can yield is nil or the decode of this argument
				nv := tb.Norm(vt)
				okAlts, has := true, false
				for _, a := range nv.Alts() {
					switch {
					case a.IsConst() && a.Sym == "nil":
					case a.String() == want:
						has = true
					default:
						okAlts = false
					}
				}
				if okAlts && has {
					viaHelper = true
				}
			}
			c.Decide(vt.String() == want || viaHelper, rule, fn, "field:"+fld, fld+" ← hex bytes of argument "+fmt.Sprint(i+1)+" (a fresh slice per field)", fld+" is set from "+clip(vt.String(), 200)+", not from hex.DecodeString of argument "+fmt.Sprint(i+1), w.InstrPos(st))
		}
	}
	hitsD := tb.Reach(f, MatchCallee("encoding/hex.DecodeString"), 2)
	n := len(hitsD)
	gated := map[ssa.CallInstruction]bool{}
	for _, h := range hitsD {
		if !gated[h.Call] {
			gated[h.Call] = true
			gateDominates(c, w, rule, h.Fn, h.Call, "hex.DecodeString")
		}
	}
	if tableRows != nil && len(tableRows) == 5 && n == 1 {
		n = 5 // one decode site walked over the five table rows
	}
	c.Decide(n == 5, rule, fn, "five-decodes", "each of the five arguments is decoded once", fmt.Sprintf("%d hex decodes, expected five", n), w.Pos(f.Pos()))

}

// hexFieldViaDst: fields of the local OCRAInput that are filled by a module helper g(…, text, &input.F): every store
// g makes through that pointer writes extract(0; hex.DecodeString(text)) of its own text parameter, and g stores
// nothing else through it. Returns field → the caller-side term of the text argument; nil when there is no such call.
func hexFieldViaDst(w *World, tb *TB, f *ssa.Function) map[string]string {
	res := map[string]string{}
	bad := false
	EachInstr(f, func(in ssa.Instruction) {
		cl, ok := in.(*ssa.Call)
		if !ok {
			return
		}
		g := cl.Call.StaticCallee()
		if g == nil || !w.InModule(g) || g.Blocks == nil {
			return
		}
		for j, a := range cl.Call.Args {
			fa, ok := a.(*ssa.FieldAddr)
			if !ok || j >= len(g.Params) {
				continue
			}
			if _, isLocal := fa.X.(*ssa.Alloc); !isLocal || !strings.HasSuffix(fa.X.Type().String(), "OCRAInput") {
				continue
			}
			fld := fieldName(fa.X.Type(), fa.Field)
			dst := g.Params[j]
			// the stores through dst inside g
			textIdx := -1
			okStores, n := true, 0
			if dst.Referrers() != nil {
				for _, r := range *dst.Referrers() {
					switch x := r.(type) {
					case *ssa.Store:
						if x.Addr != ssa.Value(dst) {
							okStores = false
							continue
						}
						n++
						vt := tb.Of(x.Val)
						if vt.Op == "extract" && vt.Sym == "0" && vt.Args[0].Op == "call" && vt.Args[0].Sym == "encoding/hex.DecodeString" && len(vt.Args[0].Args) == 1 && vt.Args[0].Args[0].Op == "param" {
							k := paramIdxOfTerm(vt.Args[0].Args[0])
							if textIdx >= 0 && textIdx != k {
								okStores = false
							}
							textIdx = k
						} else {
							okStores = false
						}
					case *ssa.DebugRef:
					case *ssa.UnOp:
						// reading *dst is harmless
					default:
						okStores = false
					}
				}
			}
			if !okStores || n == 0 || textIdx < 0 || textIdx >= len(cl.Call.Args) {
				bad = true
				continue
			}
			if _, dup := res[fld]; dup {
				bad = true
			}
			res[fld] = tb.Of(cl.Call.Args[textIdx]).String()
		}
	})
	if bad || len(res) == 0 {
		return nil
	}
	return res
}
