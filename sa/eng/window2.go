package eng

// General window analysis (C03, C04, C19, C20): instead of matching one loop shape, the set of counters a
// validation entry point hands to its per-step validator is computed as offsets from a centre:
//
//   - every per-step validation call reached from the entry point (directly, through a closure, or through an
//     unexported helper that contains the loop) is a *site*; parameters are bound through the calls, so all
//     terms are over the entry point's own values;
//   - the site's enclosing loop gives a unit-stride induction variable I with a start value and a continue
//     test that are linear in the window size S; the counter argument is linear: C + a·I + b·S + k (a = ±1);
//   - conditions between the loop head and the site either restrict I (linear in I and S) or are the
//     underflow guard "counter argument ≥ 0" (HOTP) — anything else is undecided;
//   - since a dominating gate bounds S to 0..10, the offsets reached are enumerated from these linear forms
//     for each S and must be exactly −S..+S.
//
// Nothing of /repo is executed: the enumeration ranges over the analyser's own linear bounds.

import (
	"fmt"
	"go/token"
	"go/types"
	"sort"
	"strings"

	"golang.org/x/tools/go/ssa"
)

// ---- linear forms over term atoms -----------------------------------------------------------------

type linForm struct {
	coef map[string]int64
	k    int64
}

func (l linForm) String() string {
	var ks []string
	for a := range l.coef {
		ks = append(ks, a)
	}
	sort.Strings(ks)
	var sb strings.Builder
	for _, a := range ks {
		if l.coef[a] != 0 {
			fmt.Fprintf(&sb, "%+d*%s ", l.coef[a], clip(a, 40))
		}
	}
	fmt.Fprintf(&sb, "%+d", l.k)
	return sb.String()
}

func (l linForm) add(o linForm, sign int64) linForm {
	r := linForm{coef: map[string]int64{}, k: l.k + sign*o.k}
	for a, c := range l.coef {
		r.coef[a] += c
	}
	for a, c := range o.coef {
		r.coef[a] += sign * c
	}
	for a, c := range r.coef {
		if c == 0 {
			delete(r.coef, a)
		}
	}
	return r
}

func (l linForm) scale(m int64) linForm {
	r := linForm{coef: map[string]int64{}, k: l.k * m}
	for a, c := range l.coef {
		if c*m != 0 {
			r.coef[a] = c * m
		}
	}
	return r
}

func (l linForm) eq(o linForm) bool {
	if l.k != o.k || len(l.coef) != len(o.coef) {
		return false
	}
	for a, c := range l.coef {
		if o.coef[a] != c {
			return false
		}
	}
	return true
}

func (l linForm) atoms() []string {
	var out []string
	for a := range l.coef {
		out = append(out, a)
	}
	sort.Strings(out)
	return out
}

func (l linForm) eval(env map[string]int64) (int64, bool) {
	v := l.k
	for a, c := range l.coef {
		x, ok := env[a]
		if !ok {
			return 0, false
		}
		v += c * x
	}
	return v, true
}

// convRange: a conversion met in exact mode: the converted value (linear, free of the centre) must lie in
// the target type's range wherever it is evaluated.
type convRange struct {
	l      linForm
	lo, hi int64
	typ    string
}

type linMaker struct {
	w *World
	// modular: every conversion between integer types of 64 bits is the identity modulo 2^64 (used for the
	// counter argument, which is consumed modulo 2^64). Otherwise (exact): a conversion is the identity only
	// while its operand stays in the target range; operands containing centreAtom are not looked through.
	modular    bool
	centreAtom string
	checks     []convRange
	atomTerms  map[string]*Term
}

func intRangeOfName(name string, w *World) (lo, hi int64, bits int, ok bool) {
	wordBits := 64
	if w != nil {
		if b, _, isInt := intInfo(types.Typ[types.Int], w); isInt {
			wordBits = b
		}
	}
	switch name {
	case "int64":
		return -1 << 63, 1<<63 - 1, 64, true
	case "uint64":
		return 0, 1<<63 - 1, 64, true // upper bound clipped to int64: the analysis only meets small values or the centre
	case "int":
		if wordBits == 32 {
			return -1 << 31, 1<<31 - 1, 32, true
		}
		return -1 << 63, 1<<63 - 1, 64, true
	case "uint", "uintptr":
		if wordBits == 32 {
			return 0, 1<<32 - 1, 32, true
		}
		return 0, 1<<63 - 1, 64, true
	case "int32", "rune":
		return -1 << 31, 1<<31 - 1, 32, true
	case "uint32":
		return 0, 1<<32 - 1, 32, true
	case "int16":
		return -1 << 15, 1<<15 - 1, 16, true
	case "uint16":
		return 0, 1<<16 - 1, 16, true
	case "int8":
		return -128, 127, 8, true
	case "uint8", "byte":
		return 0, 255, 8, true
	}
	return 0, 0, 0, false
}

func (m *linMaker) atom(t *Term) linForm {
	if m.atomTerms == nil {
		m.atomTerms = map[string]*Term{}
	}
	s := t.String()
	m.atomTerms[s] = t
	return linForm{coef: map[string]int64{s: 1}}
}

func (m *linMaker) of(t *Term) linForm {
	switch {
	case t.IsConst():
		var n int64
		if _, err := fmt.Sscanf(t.Sym, "%d", &n); err == nil && fmt.Sprint(n) == t.Sym {
			return linForm{coef: map[string]int64{}, k: n}
		}
		return m.atom(t)
	case t.Op == "conv" && len(t.Args) == 1:
		lo, hi, bits, ok := intRangeOfName(t.Sym, m.w)
		if !ok {
			return m.atom(t)
		}
		inner := m.of(t.Args[0])
		if m.modular {
			if bits == 64 {
				return inner
			}
			return m.atom(t)
		}
		if m.centreAtom != "" && inner.coef[m.centreAtom] != 0 {
			return m.atom(t) // a sign-changing or narrowing view of the centre is a different number
		}
		m.checks = append(m.checks, convRange{inner, lo, hi, t.Sym})
		return inner
	case t.Op == "un" && t.Sym == "-" && len(t.Args) == 1:
		return m.of(t.Args[0]).scale(-1)
	case t.Op == "bin" && len(t.Args) == 2:
		a, b := m.of(t.Args[0]), m.of(t.Args[1])
		// arithmetic in a type narrower than 64 bits wraps at that type's modulus, not at 2^64 (n - skew in uint on a
		// 32-bit target): looked through only while the exact value stays in the type's range
		narrow := func(r linForm) linForm {
			if !m.modular || t.Typ == nil {
				return r
			}
			if bt, ok := t.Typ.Underlying().(*types.Basic); ok {
				if lo, hi, bits, okR := intRangeOfName(bt.Name(), m.w); okR && bits < 64 {
					m.checks = append(m.checks, convRange{r, lo, hi, bt.Name() + " arithmetic"})
				}
			}
			return r
		}
		switch t.Sym {
		case "+":
			return narrow(a.add(b, 1))
		case "-":
			return narrow(a.add(b, -1))
		case "*":
			if len(a.coef) == 0 {
				return b.scale(a.k)
			}
			if len(b.coef) == 0 {
				return a.scale(b.k)
			}
		case "<<":
			if len(b.coef) == 0 && b.k >= 0 && b.k < 32 {
				return a.scale(1 << uint(b.k))
			}
		}
		return m.atom(t)
	case t.Op == "ite" && len(t.Args) == 3:
		a, b := m.of(t.Args[1]), m.of(t.Args[2])
		if a.eq(b) {
			return a
		}
		return m.atom(t)
	}
	return m.atom(t)
}

// ---- sites ------------------------------------------------------------------------------------------------

type winLevel struct {
	fn   *ssa.Function
	env  *Env
	inst ssa.CallInstruction // the call at this level on the way to the step validator (the validator call itself at the last level)
}

type winSite struct {
	levels  []winLevel
	call    *ssa.Call // the per-step validator call
	argT    *Term     // counter argument over the entry point's values
	origArg *Term     // the argument as written at the call (before a (value, ok) helper is read through)
	hsplit  *helperSplit
	loopLvl int
	I       *ssa.Phi
	ind     *Induction
	header  *ssa.BasicBlock
	cond    *ssa.BinOp
	rotated bool        // range-lowered loop: tested at the bottom on I+step, entered under the same test on the initial value
	condOp  token.Token // continue while I <condOp> bound
	initL   linForm
	boundL  linForm
	argL    linForm
	iAtom   string
	parts   []*winPart
	guarded bool // some part carries the underflow guard
}

// winPart: one way the counter argument is produced inside the loop body (one per incoming edge when the
// argument is a phi inside the loop), with the conditions that hold on that way.
type winPart struct {
	argL     linForm   // modular linear form of the counter argument on this way
	restrict []winCond // linear in I and S
	checks   []convRange
	extra    []string // conditions not understood (no centre involved)
	badGuard []string // conditions on the centre that are not the underflow guard
	guarded  bool
}

type winCond struct {
	d   linForm // condition: d >= 0
	src string
}

// stepSites finds the per-step validator calls reached from entry without passing through another step
// validator, descending into closures and unexported helpers (depth 3), with parameters bound.
func stepSites(tb *TB, entry *ssa.Function, isStep func(*ssa.Call) bool) []*winSite {
	var out []*winSite
	var walk func(fn *ssa.Function, e *Env, levels []winLevel, depth int)
	walk = func(fn *ssa.Function, e *Env, levels []winLevel, depth int) {
		if fn == nil || fn.Blocks == nil || depth > 3 {
			return
		}
		EachInstr(fn, func(in ssa.Instruction) {
			ci, ok := in.(ssa.CallInstruction)
			if !ok {
				return
			}
			cc := ci.Common()
			if _, isB := cc.Value.(*ssa.Builtin); isB {
				return
			}
			lv := append(append([]winLevel(nil), levels...), winLevel{fn, e, ci})
			if cl, isCall := ci.(*ssa.Call); isCall && isStep(cl) {
				out = append(out, &winSite{levels: lv, call: cl})
				return
			}
			var args []*Term
			for _, a := range cc.Args {
				args = append(args, tb.Val(a, e))
			}
			if callee := cc.StaticCallee(); callee != nil {
				if !tb.W.InModule(callee) || callee.Blocks == nil {
					return
				}
				if callee.Object() != nil && callee.Object().Exported() {
					return // another operation, not a wrapper of this one
				}
				var free []*Term
				if mc, ok := cc.Value.(*ssa.MakeClosure); ok {
					for _, b := range mc.Bindings {
						free = append(free, tb.Val(b, e))
					}
				}
				walk(callee, &Env{Fn: callee, Params: args, Free: free}, lv, depth+1)
				return
			}
			if !cc.IsInvoke() {
				ft := tb.Val(cc.Value, e)
				for _, alt := range ft.Alts() {
					if alt.Op == "closure" {
						if mc, ok := alt.Val.(*ssa.MakeClosure); ok {
							cf := mc.Fn.(*ssa.Function)
							walk(cf, &Env{Fn: cf, Params: args, Free: alt.Args}, lv, depth+1)
						}
					}
				}
			}
		})
	}
	walk(entry, nil, nil, 0)
	return out
}

func inNaturalLoopOf(h, b *ssa.BasicBlock) bool { return naturalLoop(h)[b] }

// windowResult is what the callers need beyond the obligations.
type windowResult struct {
	sites    []*winSite
	centre   *Term
	sizeT    *Term
	sizeItv  Itv
	ctrArgs  []string // counter argument terms of the sites
	firstPos string
}

// analyseWindow emits obligations pfx.1 … pfx.5 for the validation entry point.
func analyseWindow(c *Check, w *World, tb *TB, iv *IV, pfx string, entry *ssa.Function, isStep func(*ssa.Call) bool, wantBase string, needGuard bool) *windowResult {
	fn := FuncName(entry)
	epos := w.Pos(entry.Pos())
	sites := stepSites(tb, entry, isStep)
	if len(sites) == 0 {
		c.Unk(pfx+".2", fn, "window-loop", "0 per-step validation calls are reached from the entry point", epos)
		return nil
	}
	res := &windowResult{sites: sites, firstPos: w.InstrPos(sites[0].call)}
	// ---- per site: loop, induction, counter argument --------------------------------------------------
	for _, s := range sites {
		// counter argument: the uint64-typed argument
		ctrIdx := -1
		for i, a := range s.call.Call.Args {
			if b, ok := a.Type().Underlying().(*types.Basic); ok && b.Kind() == types.Uint64 {
				ctrIdx = i
			}
		}
		last := s.levels[len(s.levels)-1]
		if ctrIdx < 0 {
			c.Unk(pfx+".3", fn, "counter-argument", "the per-step validator takes no uint64 counter", w.InstrPos(s.call))
			return nil
		}
		s.argT = tb.Val(s.call.Call.Args[ctrIdx], last.env)
		s.origArg = s.argT
		if hs := splitHelper(w, tb, s.argT); hs != nil {
			// the counter is computed by a (value, ok) helper or closure: each of its return paths is one way
			s.hsplit = hs
			s.argT = hs.okValue
		}
		// enclosing loop: exactly one level of the chain has its instruction inside a loop
		s.loopLvl = -1
		for k, lv := range s.levels {
			if InLoop(lv.inst.Block()) {
				if s.loopLvl >= 0 {
					c.Unk(pfx+".2", fn, "window-loop", "the per-step validation sits in nested loops ("+FuncName(s.levels[s.loopLvl].fn)+" and "+FuncName(lv.fn)+")", w.InstrPos(lv.inst))
					return nil
				}
				s.loopLvl = k
			}
		}
		if s.loopLvl < 0 {
			c.Bad(pfx+".2", fn, "window-loop", "the per-step validation is not inside a loop: the window size has no effect", w.InstrPos(s.call))
			return nil
		}
		lv := s.levels[s.loopLvl]
		var cands []*ssa.Phi
		for _, b := range lv.fn.Blocks {
			if !b.Dominates(lv.inst.Block()) || !inNaturalLoopOf(b, lv.inst.Block()) {
				continue
			}
			for _, in := range b.Instrs {
				ph, ok := in.(*ssa.Phi)
				if !ok {
					break
				}
				if InductionOf(ph) != nil {
					cands = append(cands, ph)
				}
			}
		}
		if len(cands) != 1 {
			c.Unk(pfx+".2", fn, "window-loop", fmt.Sprintf("%d loop counters enclose the per-step validation, expected exactly one", len(cands)), w.InstrPos(lv.inst))
			return nil
		}
		s.I = cands[0]
		s.ind = InductionOf(s.I)
		s.header = s.I.Block()
		body := naturalLoop(s.header)
		var iff *ssa.If
		var bo *ssa.BinOp
		var boundV ssa.Value
		var op token.Token
		condBlock := s.header
		// the usual form: the loop head compares the counter with its bound
		if hi, ok := s.header.Instrs[len(s.header.Instrs)-1].(*ssa.If); ok {
			if hb, ok := hi.Cond.(*ssa.BinOp); ok {
				switch {
				case stripConv(hb.X) == ssa.Value(s.I):
					iff, bo, boundV, op = hi, hb, hb.Y, hb.Op
				case stripConv(hb.Y) == ssa.Value(s.I):
					iff, bo, boundV, op = hi, hb, hb.X, flipOp(hb.Op)
				}
			}
		}
		if iff == nil {
			// the range-lowered form (for i := range n): the block that jumps back to the head tests the advanced
			// counter I+step against the bound, and the loop is entered under the same test on the initial value
			isNextI := func(v ssa.Value) bool {
				nb, ok := stripConv(v).(*ssa.BinOp)
				if !ok || nb.Op != token.ADD {
					return false
				}
				k, isK := constInt(nb.Y)
				return isK && nb.X == ssa.Value(s.I) && k.IsInt64() && k.Int64() == int64(s.ind.Step)
			}
			for _, p := range s.header.Preds {
				if !body[p] {
					continue
				}
				pi, ok := p.Instrs[len(p.Instrs)-1].(*ssa.If)
				if !ok {
					continue
				}
				pb, ok := pi.Cond.(*ssa.BinOp)
				if !ok {
					continue
				}
				switch {
				case isNextI(pb.X):
					iff, bo, boundV, op, condBlock = pi, pb, pb.Y, pb.Op, p
				case isNextI(pb.Y):
					iff, bo, boundV, op, condBlock = pi, pb, pb.X, flipOp(pb.Op), p
				}
			}
			if iff != nil {
				s.rotated = true
			}
		}
		if iff == nil {
			c.Unk(pfx+".2", fn, "window-loop", "the loop condition does not compare the loop counter with a bound", w.InstrPos(lv.inst))
			return nil
		}
		s.cond = bo
		// the true edge must be the one that continues the loop
		switch {
		case body[condBlock.Succs[0]] && !body[condBlock.Succs[1]]:
		case body[condBlock.Succs[1]] && !body[condBlock.Succs[0]]:
			op = negOp(op)
		default:
			c.Unk(pfx+".2", fn, "window-loop", "the loop test is not the loop's exit test", w.InstrPos(iff))
			return nil
		}
		if s.rotated {
			// entered only under  init <op> bound : some condition on the way into the head says exactly that
			okPre := len(s.ind.Inits) == 1
			exq := &linMaker{w: w}
			for _, p := range s.header.Preds {
				if body[p] || !okPre {
					continue
				}
				found := false
				iL, bL := exq.of(tb.Val(s.ind.Inits[0], lv.env)), exq.of(tb.Val(boundV, lv.env))
				for _, at := range atomsOf(append(append([]Cond(nil), CondsAt(p)...), EdgeConds(p, s.header)...)) {
					xl, yl := exq.of(tb.Val(at.X, lv.env)), exq.of(tb.Val(at.Y, lv.env))
					if xl.eq(iL) && yl.eq(bL) && at.Op == op {
						found = true
					}
					if xl.eq(bL) && yl.eq(iL) && flipOp(at.Op) == op {
						found = true
					}
				}
				if !found {
					okPre = false
				}
			}
			if !okPre {
				c.Unk(pfx+".2", fn, "window-loop", "the loop is tested at its bottom but not entered under the same test on the initial counter", w.InstrPos(iff))
				return nil
			}
		}
		s.condOp = op
		if s.ind.Step != 1 && s.ind.Step != -1 {
			c.Bad(pfx+".2", fn, "window-loop", fmt.Sprintf("the loop counter advances by %d per step, not by one: counters inside the window are skipped", s.ind.Step), w.InstrPos(iff))
			return nil
		}
		if len(s.ind.Inits) != 1 {
			c.Unk(pfx+".2", fn, "window-loop", "the loop counter has several initial values", w.InstrPos(iff))
			return nil
		}
		s.iAtom = tb.Val(s.I, lv.env).String()
		ex := &linMaker{w: w}
		s.initL = ex.of(tb.Val(s.ind.Inits[0], lv.env))
		s.boundL = ex.of(tb.Val(boundV, lv.env))
		mod := &linMaker{w: w, modular: true}
		s.argL = mod.of(s.argT)
	}
	// ---- the symbols: window size S, centre C ------------------------------------------------------------
	sAtoms := map[string]bool{}
	for _, s := range sites {
		for _, a := range append(s.initL.atoms(), s.boundL.atoms()...) {
			if a != s.iAtom {
				sAtoms[a] = true
			}
		}
	}
	var sAtom string
	switch len(sAtoms) {
	case 0:
		c.Bad(pfx+".2", fn, "window-loop", "the loop bounds do not depend on the window size", res.firstPos)
		return nil
	case 1:
		for a := range sAtoms {
			sAtom = a
		}
	default:
		var l []string
		for a := range sAtoms {
			l = append(l, clip(a, 60))
		}
		sort.Strings(l)
		c.Unk(pfx+".2", fn, "window-loop", "the loop bounds depend on several values: "+strings.Join(l, " / "), res.firstPos)
		return nil
	}
	var cAtom string
	okArg := true
	for _, s := range sites {
		ia := s.argL.coef[s.iAtom]
		if ia == 0 {
			c.Bad(pfx+".3", fn, "counter-argument", "the counter handed to the per-step validation does not depend on the loop counter: every iteration checks the same counter and the window has no effect", w.InstrPos(s.call))
			return nil
		}
		if ia != 1 && ia != -1 {
			c.Bad(pfx+".3", fn, "counter-argument", fmt.Sprintf("the counter advances by %d per loop step: counters inside the window are skipped", ia), w.InstrPos(s.call))
			return nil
		}
		var others []string
		for _, a := range s.argL.atoms() {
			if a != s.iAtom && a != sAtom {
				others = append(others, a)
			}
		}
		if len(others) != 1 || s.argL.coef[others[0]] != 1 {
			c.Unk(pfx+".3", fn, "counter-argument", "the counter handed to the per-step validation is not centre ± i (+ terms in the window size): "+clip(normT(s.argT), 220), w.InstrPos(s.call))
			okArg = false
			continue
		}
		if cAtom == "" {
			cAtom = others[0]
		} else if cAtom != others[0] {
			c.Bad(pfx+".3", fn, "counter-argument", "the validation calls are centred on different counters: "+clip(cAtom, 100)+" and "+clip(others[0], 100), w.InstrPos(s.call))
			okArg = false
		}
	}
	if !okArg || cAtom == "" {
		return nil
	}
	mm := &linMaker{w: w, modular: true}
	for _, s := range sites {
		mm.of(s.argT)
	}
	res.centre = mm.atomTerms[cAtom]
	// the centre is one number for the whole walk: a value carried round the loop (counter += i) moves with it
	if res.centre != nil && res.centre.ContainsStr("cycle(") {
		c.Bad(pfx+".3", fn, "counter-argument", "the centre of the window changes from one loop step to the next ("+clip(normT(res.centre), 160)+"): the steps validated are not centre-s … centre+s", res.firstPos)
		return nil
	}
	ex0 := &linMaker{w: w}
	for _, s := range sites {
		lv := s.levels[s.loopLvl]
		ex0.of(tb.Val(s.ind.Inits[0], lv.env))
		ex0.of(s.argT)
		if bo := s.cond; bo != nil {
			ex0.of(tb.Val(bo.X, lv.env))
			ex0.of(tb.Val(bo.Y, lv.env))
		}
	}
	res.sizeT = ex0.atomTerms[sAtom]
	if res.sizeT == nil {
		res.sizeT = mk("raw", sAtom)
	}
	okB := wantBase == "" || (res.centre != nil && (res.centre.String() == wantBase || tb.Norm(res.centre).String() == wantBase))
	c.Decide(okB, pfx+".3", fn, "counter-argument", "every step validates centre + offset, the centre being the caller's counter / time step", "the window is centred on "+clip(cAtom, 160)+", expected "+clip(wantBase, 160), res.firstPos)
	for _, s := range sites {
		res.ctrArgs = append(res.ctrArgs, s.origArg.String())
	}
	// ---- conditions between loop head and site -------------------------------------------------------------
	for _, s := range sites {
		type condSrc struct {
			t   *Term
			pos bool
		}
		inLoopConds := func(lv winLevel, conds []Cond, anywhere bool) []condSrc {
			var out []condSrc
			for _, cd := range conds {
				if !anywhere {
					var ifb *ssa.BasicBlock
					if refs := cd.V.Referrers(); refs != nil {
						for _, r := range *refs {
							if iff, isIf := r.(*ssa.If); isIf && inNaturalLoopOf(s.header, iff.Block()) {
								ifb = iff.Block()
							}
						}
					}
					if ifb == nil || ifb == s.header {
						continue
					}
				}
				out = append(out, condSrc{tb.Val(cd.V, lv.env), cd.Pos})
			}
			return out
		}
		// conditions inside deeper levels (wrapper bodies) hold on every way
		var common []condSrc
		for k := s.loopLvl + 1; k < len(s.levels); k++ {
			lv := s.levels[k]
			common = append(common, inLoopConds(lv, CondsAt(lv.inst.Block()), true)...)
		}
		lv := s.levels[s.loopLvl]
		var ctrV ssa.Value
		for _, a := range lv.inst.Common().Args {
			if tb.Val(a, lv.env).String() == s.origArg.String() {
				ctrV = a
			}
		}
		type way struct {
			argT  *Term
			conds []condSrc
		}
		// every acyclic path through the loop body from the loop head to the site is one way: its branch decisions
		// are its conditions, and a counter argument that is a phi on the path takes the value of the edge used
		var ways []way
		body := naturalLoop(s.header)
		target := lv.inst.Block()
		var start *ssa.BasicBlock
		for _, sc := range s.header.Succs {
			if body[sc] {
				start = sc
			}
		}
		if s.rotated {
			start = s.header // the head is the first block of the body
		}
		tooMany := false
		var dfs func(b *ssa.BasicBlock, trace []*ssa.BasicBlock, conds []condSrc)
		dfs = func(b *ssa.BasicBlock, trace []*ssa.BasicBlock, conds []condSrc) {
			if tooMany || !body[b] || (b == s.header && !(s.rotated && len(trace) == 0)) {
				return
			}
			for _, t := range trace {
				if t == b {
					return
				}
			}
			trace = append(append([]*ssa.BasicBlock(nil), trace...), b)
			if b == target {
				argT := s.argT
				if ph, ok := ctrV.(*ssa.Phi); ok && ph.Block() != s.header {
					for i := len(trace) - 1; i >= 1; i-- {
						if trace[i] == ph.Block() {
							for k, pr := range ph.Block().Preds {
								if pr == trace[i-1] {
									argT = tb.Val(ph.Edges[k], lv.env)
								}
							}
						}
					}
				}
				if len(ways) >= 64 {
					tooMany = true
					return
				}
				all := append(append([]condSrc(nil), common...), conds...)
				if s.hsplit == nil {
					ways = append(ways, way{argT, all})
					return
				}
				// one way per return path of the helper on which the caller's tests of its ok flag can hold
				for _, hp := range s.hsplit.paths {
					feasible := true
					var cs []condSrc
					for _, cd := range all {
						t, pos := cd.t, cd.pos
						for t.Op == "un" && t.Sym == "!" && len(t.Args) == 1 {
							t, pos = t.Args[0], !pos
						}
						if t.String() == s.hsplit.okTerm {
							if hp.ok != pos {
								feasible = false
							}
							continue
						}
						cs = append(cs, cd)
					}
					if !feasible {
						continue
					}
					for _, hc := range hp.conds {
						cs = append(cs, condSrc{hc.t, hc.pos})
					}
					if len(ways) >= 64 {
						tooMany = true
						return
					}
					ways = append(ways, way{hp.val, cs})
				}
				return
			}
			if iff, ok := b.Instrs[len(b.Instrs)-1].(*ssa.If); ok && b.Succs[0] != b.Succs[1] {
				ct := tb.Val(iff.Cond, lv.env)
				dfs(b.Succs[0], trace, append(append([]condSrc(nil), conds...), condSrc{ct, true}))
				dfs(b.Succs[1], trace, append(append([]condSrc(nil), conds...), condSrc{ct, false}))
				return
			}
			for _, sc := range b.Succs {
				dfs(sc, trace, conds)
			}
		}
		if start != nil && s.rotated {
			dfs(start, nil, nil)
		} else if start != nil {
			dfs(start, []*ssa.BasicBlock{s.header}, nil)
		}
		if tooMany || len(ways) == 0 {
			c.Unk(pfx+".2", fn, "window-loop", "the paths from the loop head to the per-step validation cannot be enumerated", w.InstrPos(lv.inst))
			return nil
		}
		for _, wy := range ways {
			// a way that needs a condition known to be false with the arguments bound (a flag parameter) does not exist
			dead := false
			for _, cd := range wy.conds {
				t, pos := cd.t, cd.pos
				for t.Op == "un" && t.Sym == "!" && len(t.Args) == 1 {
					t, pos = t.Args[0], !pos
				}
				if t.IsConst() && (t.Sym == "true" || t.Sym == "false") && (t.Sym == "true") != pos {
					dead = true
				}
			}
			if dead {
				continue
			}
			am := &linMaker{w: w, modular: true}
			part := &winPart{argL: am.of(wy.argT)}
			part.checks = append(part.checks, am.checks...)
			// every way must be centre ± i like the joined argument
			if part.argL.coef[cAtom] != 1 || (part.argL.coef[s.iAtom] != 1 && part.argL.coef[s.iAtom] != -1) {
				part.extra = append(part.extra, "on one branch the counter argument is "+clip(normT(wy.argT), 140)+", not centre ± i")
			}
			ex := &linMaker{w: w, centreAtom: cAtom}
			for _, cd := range wy.conds {
				wc, kind := classifyWinCond(ex, cd.t, cd.pos, s, sAtom, cAtom)
				switch kind {
				case "restrict":
					part.restrict = append(part.restrict, wc...)
				case "guard":
					okG := false
					for _, g := range wc {
						if g.d.eq(part.argL) {
							okG = true
						}
					}
					if okG {
						part.guarded = true
						s.guarded = true
					} else {
						part.badGuard = append(part.badGuard, clip(normT(cd.t), 160))
					}
				case "centre-unknown":
					part.badGuard = append(part.badGuard, clip(normT(cd.t), 160))
				case "ignore":
				default:
					part.extra = append(part.extra, clip(normT(cd.t), 160))
				}
			}
			part.checks = append(part.checks, ex.checks...)
			s.parts = append(s.parts, part)
		}
	}
	// ---- the gate: S within exactly [0,10] where the window is walked --------------------------------------
	var sVal ssa.Value
	EachInstr(entry, func(in ssa.Instruction) {
		if v, ok := in.(ssa.Value); ok && sVal == nil {
			if _, isInt, _ := intInfoOK(v.Type(), w); isInt && tb.Of(v).String() == sAtom {
				sVal = v
			}
		}
	})
	at := sites[0].levels[0].inst.Block()
	if sites[0].loopLvl == 0 {
		at = sites[0].header
	}
	if sVal == nil {
		c.Unk(pfx+".1", fn, "window-gate", "the window size "+clip(sAtom, 120)+" is not a value of the entry point: its range at the loop is unknown", res.firstPos)
		return res
	}
	it := iv.At(sVal, at)
	res.sizeItv = it
	exact := it.Lo != nil && it.Hi != nil && it.Lo.Sign() == 0 && it.Hi.Cmp(bi(10)) == 0
	var whyG string
	switch {
	case it.Hi == nil || it.Hi.Cmp(bi(10)) > 0:
		whyG = fmt.Sprintf("the window size can be %s at the loop: sizes above 10 are not refused (unbounded work, and almost any code becomes acceptable)", it)
	case !exact:
		whyG = fmt.Sprintf("the window size is restricted to %s, but every size 0..10 must be served", it)
	}
	c.Decide(exact, pfx+".1", fn, "window-gate", "the window size is within [0,10] at the loop (dominating gate), and nothing narrower", whyG, w.InstrPos(sites[0].cond))
	if it.Hi == nil || it.Hi.Cmp(bi(64)) > 0 || it.Lo == nil || it.Lo.Sign() < 0 {
		return res // coverage is enumerated only over a bounded size
	}
	// ---- coverage: for each admitted size the offsets reached are exactly -S..+S -----------------------------
	okGuard, whyGuard := true, ""
	for _, s := range sites {
		for _, p := range s.parts {
			for _, e := range p.extra {
				c.Unk(pfx+".2", fn, "window-loop", "a condition on the way to the per-step validation is not understood: "+e, w.InstrPos(s.call))
			}
			for _, e := range p.badGuard {
				okGuard, whyGuard = false, "the guard against counters below zero is not the comparison 'step counter ≥ 0' made without wrap-around: "+e
			}
		}
	}
	okCover, whyCover := true, ""
	maxS := it.Hi.Int64()
	for sz := int64(0); sz <= maxS && okCover; sz++ {
		reached := map[int64]bool{}
		for _, s := range sites {
			env := map[string]int64{sAtom: sz}
			i0, ok1 := s.initL.eval(env)
			b, ok2 := s.boundL.eval(env)
			if !ok1 || !ok2 {
				okCover, whyCover = false, "the loop bounds are not functions of the window size alone"
				break
			}
			lo, hi := i0, i0
			switch {
			case s.ind.Step == 1 && s.condOp == token.LEQ:
				hi = b
			case s.ind.Step == 1 && s.condOp == token.LSS:
				hi = b - 1
			case s.ind.Step == 1 && s.condOp == token.NEQ && i0 <= b:
				hi = b - 1
			case s.ind.Step == -1 && s.condOp == token.GEQ:
				lo = b
			case s.ind.Step == -1 && s.condOp == token.GTR:
				lo = b + 1
			case s.ind.Step == -1 && s.condOp == token.NEQ && i0 >= b:
				lo = b + 1
			default:
				okCover, whyCover = false, fmt.Sprintf("the loop runs while i %s bound with step %+d: not a counted walk towards the bound", s.condOp, s.ind.Step)
			}
			if !okCover {
				break
			}
			if hi-lo > 1000 {
				okCover, whyCover = false, "the loop range is not bounded by the window size"
				break
			}
			for i := lo; i <= hi && okCover; i++ {
				env[s.iAtom] = i
				for _, p := range s.parts {
					admitted := true
					for _, r := range p.restrict {
						v, ok := r.d.eval(env)
						if !ok {
							admitted = false
							okCover, whyCover = false, "a restriction of the loop counter cannot be evaluated: "+r.src
							break
						}
						if v < 0 {
							admitted = false
						}
					}
					if !admitted {
						continue
					}
					for _, ck := range p.checks {
						if v, ok := ck.l.eval(env); ok && (v < ck.lo || v > ck.hi) {
							okCover, whyCover = false, fmt.Sprintf("a conversion to %s on the way to the per-step validation wraps around for loop counter %d (window %d)", ck.typ, i, sz)
						}
					}
					envC := map[string]int64{sAtom: sz, s.iAtom: i, cAtom: 0}
					d, ok := p.argL.eval(envC)
					if !ok {
						okCover, whyCover = false, "the counter argument is not centre + offset"
						break
					}
					reached[d] = true
					if d < 0 && needGuard && !p.guarded {
						okGuard, whyGuard = false, fmt.Sprintf("steps below counter zero are not skipped (offset %d with window %d is validated unguarded): centre-%d wraps around to counters near 2^64", d, sz, -d)
					}
				}
			}
		}
		if !okCover {
			break
		}
		var missing, surplus []string
		for d := -sz; d <= sz; d++ {
			if !reached[d] {
				missing = append(missing, fmt.Sprint(d))
			}
		}
		for d := range reached {
			if d < -sz || d > sz {
				surplus = append(surplus, fmt.Sprint(d))
			}
		}
		sort.Strings(surplus)
		if len(missing) > 0 || len(surplus) > 0 {
			okCover = false
			whyCover = fmt.Sprintf("with window size %d the steps validated are not exactly centre-%d … centre+%d", sz, sz, sz)
			if len(missing) > 0 {
				whyCover += "; never validated: offsets " + strings.Join(missing, ",")
			}
			if len(surplus) > 0 {
				whyCover += "; validated although outside the window: offsets " + strings.Join(surplus, ",")
			}
		}
	}
	c.Decide(okCover, pfx+".2", fn, "window-loop", fmt.Sprintf("for every window size 0..%d the steps validated are exactly centre-s … centre+s (%d validation site(s), offsets enumerated from the loops' linear bounds)", maxS, len(sites)), whyCover, w.InstrPos(sites[0].cond))
	// ---- .4 underflow guard ------------------------------------------------------------------------------------
	if needGuard {
		c.Decide(okGuard, pfx+".4", fn, "underflow-guard", "every step below the centre is validated only under 'step counter ≥ 0' (compared without wrap-around)", whyGuard, res.firstPos)
	} else {
		g := !okGuard
		for _, s := range sites {
			if s.guarded {
				g = true
			}
		}
		c.Decide(!g, pfx+".4", fn, "no-underflow-skip", "no step is skipped near counter zero: the window wraps modulo 2^64 like the native time-step arithmetic", "steps whose counter would be below zero are skipped, but the time-step window is defined modulo 2^64 (the native validation accepts the codes of counters 2^64-k there)", res.firstPos)
	}
	checkAcceptGuardG(c, w, tb, pfx, entry, sites)
	return res
}

// classifyWinCond turns a branch condition into "d >= 0" forms and says what it constrains.
func classifyWinCond(ex *linMaker, t *Term, pos bool, s *winSite, sAtom, cAtom string) ([]winCond, string) {
	for t.Op == "un" && t.Sym == "!" && len(t.Args) == 1 {
		t, pos = t.Args[0], !pos
	}
	if t.Op != "bin" || len(t.Args) != 2 {
		if t.ContainsStr(s.iAtom) || t.ContainsStr(cAtom) {
			return nil, "unknown"
		}
		return nil, "ignore"
	}
	op := tokenOf(t.Sym)
	switch op {
	case token.LSS, token.LEQ, token.GTR, token.GEQ, token.EQL, token.NEQ:
	default:
		if t.ContainsStr(s.iAtom) || t.ContainsStr(cAtom) {
			return nil, "unknown"
		}
		return nil, "ignore"
	}
	if !pos {
		op = negOp(op)
	}
	// the signed reading of a counter kept modulo 2^64 compared with zero (int64(centre + uint64(i)) < 0): the same
	// bits, hence the same test, as the signed step counter int64(centre) + i of the usual form
	side := func(k int) linForm {
		a, z := t.Args[k], t.Args[1-k]
		if a.Op == "conv" && a.Sym == "int64" && len(a.Args) == 1 && cAtom != "" && a.Args[0].ContainsStr(cAtom) && z.IsConst() && z.Sym == "0" {
			return (&linMaker{w: ex.w, modular: true}).of(a.Args[0])
		}
		return ex.of(a)
	}
	l, r := side(0), side(1)
	d := l.add(r, -1) // l - r
	var out []winCond
	src := normT(t)
	switch op {
	case token.GEQ:
		out = []winCond{{d, src}}
	case token.GTR:
		out = []winCond{{d.add(linForm{k: 1}, -1), src}}
	case token.LEQ:
		out = []winCond{{d.scale(-1), src}}
	case token.LSS:
		out = []winCond{{d.scale(-1).add(linForm{k: 1}, -1), src}}
	case token.EQL:
		out = []winCond{{d, src}, {d.scale(-1), src}}
	default:
		if len(d.coef) > 0 && (d.coef[s.iAtom] != 0 || d.coef[cAtom] != 0) {
			return nil, "unknown"
		}
		return nil, "ignore"
	}
	hasI, hasC, other := false, false, false
	for a := range d.coef {
		switch a {
		case s.iAtom:
			hasI = true
		case cAtom:
			hasC = true
		case sAtom:
		default:
			if strings.Contains(a, cAtom) || strings.Contains(a, s.iAtom) {
				other = true
			}
		}
	}
	switch {
	case other && strings.Contains(d.String(), "") && containsAtomOf(d, cAtom):
		return nil, "centre-unknown"
	case other:
		return nil, "unknown"
	case hasC:
		return out, "guard"
	case hasI:
		for a := range d.coef {
			if a != s.iAtom && a != sAtom {
				return nil, "unknown"
			}
		}
		return out, "restrict"
	}
	return nil, "ignore"
}

func containsAtomOf(d linForm, sub string) bool {
	for a := range d.coef {
		if a != sub && strings.Contains(a, sub) {
			return true
		}
	}
	return false
}

// vtrack follows a verdict upwards through wrappers: a value is a *carrier* in a function if it can be true only
// where the verdict of the level below was true.
type vtrack struct {
	carriers map[*ssa.Function]map[ssa.Value]bool
	atomOK   func(f *ssa.Function, at Atom) bool // extra base facts given as branch atoms (e.g. compare == 1)
}

func newVtrack() *vtrack { return &vtrack{carriers: map[*ssa.Function]map[ssa.Value]bool{}} }

func (t *vtrack) add(f *ssa.Function, v ssa.Value) {
	if t.carriers[f] == nil {
		t.carriers[f] = map[ssa.Value]bool{}
	}
	t.carriers[f][v] = true
}

// resultCarriers marks the (first) result of call ci in f as a carrier.
func (t *vtrack) resultCarriers(f *ssa.Function, ci ssa.CallInstruction) {
	v := ci.Value()
	if v == nil {
		return
	}
	if _, isTuple := v.Type().(*types.Tuple); isTuple {
		if refs := v.Referrers(); refs != nil {
			for _, r := range *refs {
				if ex, ok := r.(*ssa.Extract); ok && ex.Index == 0 {
					t.add(f, ex)
				}
			}
		}
		return
	}
	t.add(f, v)
}

func (t *vtrack) underCarrier(f *ssa.Function, conds []Cond) bool {
	for _, cd := range conds {
		v, pos := cd.V, cd.Pos
		for {
			if u, ok := v.(*ssa.UnOp); ok && u.Op == token.NOT {
				v, pos = u.X, !pos
				continue
			}
			break
		}
		if pos && t.carriers[f][v] {
			return true
		}
		for _, at := range atomsOf([]Cond{cd}) {
			if t.carriers[f][at.X] {
				if k, ok := at.Y.(*ssa.Const); ok && k.Value != nil && ((at.Op == token.EQL && k.Value.String() == "true") || (at.Op == token.NEQ && k.Value.String() == "false")) {
					return true
				}
			}
			if t.atomOK != nil && t.atomOK(f, at) {
				return true
			}
		}
	}
	return false
}

// onlyUnder: value v, reached under conds, can be true only under a carrier.
func (t *vtrack) onlyUnder(f *ssa.Function, v ssa.Value, conds []Cond, depth int) bool {
	if k, ok := v.(*ssa.Const); ok && k.Value != nil && k.Value.String() == "false" {
		return true
	}
	if t.carriers[f][v] {
		return true
	}
	if t.underCarrier(f, conds) {
		return true
	}
	if bo, ok := v.(*ssa.BinOp); ok && t.atomOK != nil {
		// the comparison itself as a boolean value: true exactly where the atom holds
		if t.atomOK(f, Atom{bo.X, bo.Y, bo.Op}) {
			return true
		}
	}
	if ph, ok := v.(*ssa.Phi); ok && depth < 4 {
		for i, e := range ph.Edges {
			if !t.onlyUnder(f, e, append(append([]Cond(nil), conds...), EdgeConds(ph.Block().Preds[i], ph.Block())...), depth+1) {
				return false
			}
		}
		return true
	}
	return false
}

// fnOK: every return of f yields true (first result) only under a carrier.
func (t *vtrack) fnOK(f *ssa.Function) bool {
	for _, r := range Returns(f) {
		if len(r.Results) == 0 {
			continue
		}
		if !t.onlyUnder(f, r.Results[0], CondsAt(r.Block()), 0) {
			return false
		}
	}
	return true
}

// checkAcceptGuardG (pfx.5): the entry point returns true only under the verdict of a per-step validation.
// The verdict may reach the entry point through wrappers (closures / helpers returning bool or (bool, error)):
// a wrapper's result carries the verdict iff it can be true only where the next level's verdict is true.
func checkAcceptGuardG(c *Check, w *World, tb *TB, pfx string, entry *ssa.Function, sites []*winSite) {
	fn := FuncName(entry)
	vt := newVtrack()
	resultCarriers := vt.resultCarriers
	underCarrier := vt.underCarrier
	onlyUnder := vt.onlyUnder
	okAll := true
	for _, s := range sites {
		last := len(s.levels) - 1
		resultCarriers(s.levels[last].fn, s.levels[last].inst)
	}
	// propagate upwards: level k's call result carries the verdict iff level k+1's function returns true only under carriers
	maxDepth := 0
	for _, s := range sites {
		if len(s.levels) > maxDepth {
			maxDepth = len(s.levels)
		}
	}
	for d := maxDepth - 1; d >= 1; d-- {
		for _, s := range sites {
			if len(s.levels) <= d {
				continue
			}
			callee := s.levels[d].fn
			ok := true
			for _, r := range Returns(callee) {
				if len(r.Results) == 0 {
					continue
				}
				if !onlyUnder(callee, r.Results[0], CondsAt(r.Block()), 0) {
					ok = false
				}
			}
			if ok {
				resultCarriers(s.levels[d-1].fn, s.levels[d-1].inst)
			} else {
				okAll = false
				c.Bad(pfx+".5", fn, "accept-guard@"+FuncName(callee), "the helper "+FuncName(callee)+" can report a match without the per-step validation having returned true", w.Pos(callee.Pos()))
			}
		}
	}
	// the walk ends early only on acceptance: any other way out of the window loop (a break or return on some
	// error class, say) leaves steps of the window unvalidated
	seenExit := map[*ssa.BasicBlock]bool{}
	for _, s := range sites {
		if s.header == nil || s.loopLvl >= len(s.levels) {
			continue
		}
		lv := s.levels[s.loopLvl]
		body := naturalLoop(s.header)
		var blocks []*ssa.BasicBlock
		for b := range body {
			blocks = append(blocks, b)
		}
		sort.Slice(blocks, func(i, j int) bool { return blocks[i].Index < blocks[j].Index })
		for _, b := range blocks {
			if seenExit[b] {
				continue
			}
			seenExit[b] = true
			iff, isIf := b.Instrs[len(b.Instrs)-1].(*ssa.If)
			for _, sc := range b.Succs {
				if body[sc] {
					continue
				}
				if isIf && s.cond != nil && iff.Cond == ssa.Value(s.cond) {
					continue // the loop's own bound
				}
				if b == s.header && !isIf {
					continue
				}
				conds := append(append([]Cond(nil), CondsAt(b)...), EdgeConds(b, sc)...)
				if !underCarrier(lv.fn, conds) {
					okAll = false
					c.Bad(pfx+".2", fn, "window-loop:early-exit", "the window walk can stop before all steps are validated on a condition other than a step's acceptance: the remaining steps of the window are never tried", w.InstrPos(b.Instrs[len(b.Instrs)-1]))
				}
			}
		}
	}
	nTrue := 0
	for i, r := range Returns(entry) {
		if len(r.Results) == 0 {
			continue
		}
		rt := tb.Of(r.Results[0]).String()
		if rt != "const(true)" && rt != "call(syscall/js.ValueOf; const(true))" {
			continue
		}
		nTrue++
		okAcc := underCarrier(entry, CondsAt(r.Block()))
		c.Decide(okAcc, pfx+".5", fn, fmt.Sprintf("accept-guard#%d", i), "acceptance only under the per-step verdict of that iteration", "a path returns true without the per-step validation having returned true in that iteration", w.InstrPos(r))
	}
	if nTrue == 0 && okAll {
		c.Bad(pfx+".5", fn, "accept-guard", "the entry point never accepts", w.Pos(entry.Pos()))
	}
}

// helperSplit: a counter argument of the form v, ok := helper(…) read through the helper's return paths.
type helperSplit struct {
	okTerm  string // the term of the ok flag at the caller: extract(1; <call>)
	okValue *Term  // the value on the ok paths (they agree modulo 2^64)
	paths   []helperPath
}

type helperPath struct {
	val   *Term
	ok    bool
	conds []struct {
		t   *Term
		pos bool
	}
}

// splitHelper: t = extract(0; call) of a loop-free module helper or closure returning (uint64, bool): its return
// paths with the call's arguments (and the closure's captures) bound. nil when t is not of that form, when the ok
// flag is not a constant on some path, or when the values of the ok paths do not agree.
func splitHelper(w *World, tb *TB, t *Term) *helperSplit {
	if t.Op != "extract" || t.Sym != "0" || len(t.Args) != 1 {
		return nil
	}
	inner := t.Args[0]
	var g *ssa.Function
	var params, free []*Term
	switch {
	case inner.Op == "call":
		cl, ok := inner.Val.(*ssa.Call)
		if !ok {
			return nil
		}
		g = cl.Call.StaticCallee()
		params = inner.Args
	case inner.Op == "calldyn" && len(inner.Args) >= 1 && inner.Args[0].Op == "closure":
		mc, ok := inner.Args[0].Val.(*ssa.MakeClosure)
		if !ok {
			return nil
		}
		g, _ = mc.Fn.(*ssa.Function)
		params, free = inner.Args[1:], inner.Args[0].Args
	}
	if g == nil || !w.InModule(g) || g.Blocks == nil || HasLoop(g) || g.Signature.Results().Len() != 2 {
		return nil
	}
	if b, ok := g.Signature.Results().At(1).Type().Underlying().(*types.Basic); !ok || b.Kind() != types.Bool {
		return nil
	}
	paths, err := EnumPaths(g, 64)
	if err != nil || len(paths) == 0 {
		return nil
	}
	env := &Env{Fn: g, Params: params, Free: free}
	hs := &helperSplit{okTerm: "extract(1; " + inner.String() + ")"}
	var okForm *linForm
	for _, p := range paths {
		if p.Ret == nil {
			return nil
		}
		hp := helperPath{val: tb.Val(p.Result(0), env)}
		okT := tb.Val(p.Result(1), env)
		switch {
		case okT.IsConst() && okT.Sym == "true":
			hp.ok = true
		case okT.IsConst() && okT.Sym == "false":
		default:
			return nil
		}
		for _, pc := range p.Conds {
			hp.conds = append(hp.conds, struct {
				t   *Term
				pos bool
			}{tb.Val(pc.Cond, env), pc.Taken})
		}
		if hp.ok {
			lf := (&linMaker{w: w, modular: true}).of(hp.val)
			if okForm == nil {
				okForm, hs.okValue = &lf, hp.val
			} else if !okForm.eq(lf) {
				return nil
			}
		}
		hs.paths = append(hs.paths, hp)
	}
	if hs.okValue == nil {
		return nil
	}
	return hs
}
