package eng

// Engine D: intervals of integer SSA values at a program point, refined by dominating branch
// conditions on the same origin term; symbolic "value <= base + c" bounds for index-vs-length.

import (
	"go/constant"
	"go/token"
	"go/types"
	"math/big"

	"golang.org/x/tools/go/ssa"
)

type Itv struct {
	Lo, Hi *big.Int // nil = unbounded
}

func (a Itv) String() string {
	s := "["
	if a.Lo == nil {
		s += "-inf"
	} else {
		s += a.Lo.String()
	}
	s += ","
	if a.Hi == nil {
		s += "+inf"
	} else {
		s += a.Hi.String()
	}
	return s + "]"
}

func bi(x int64) *big.Int { return big.NewInt(x) }

func point(x *big.Int) Itv { return Itv{new(big.Int).Set(x), new(big.Int).Set(x)} }

func (a Itv) Within(lo, hi int64) bool {
	return a.Lo != nil && a.Hi != nil && a.Lo.Cmp(bi(lo)) >= 0 && a.Hi.Cmp(bi(hi)) <= 0
}

func (a Itv) Empty() bool { return a.Lo != nil && a.Hi != nil && a.Lo.Cmp(a.Hi) > 0 }

func (a Itv) ContainsInt(x int64) bool {
	v := bi(x)
	return (a.Lo == nil || a.Lo.Cmp(v) <= 0) && (a.Hi == nil || a.Hi.Cmp(v) >= 0)
}

func maxB(a, b *big.Int) *big.Int {
	if a == nil {
		return b
	}
	if b == nil {
		return a
	}
	if a.Cmp(b) >= 0 {
		return a
	}
	return b
}
func minB(a, b *big.Int) *big.Int {
	if a == nil {
		return b
	}
	if b == nil {
		return a
	}
	if a.Cmp(b) <= 0 {
		return a
	}
	return b
}

func (a Itv) Meet(b Itv) Itv { return Itv{maxB(a.Lo, b.Lo), minB(a.Hi, b.Hi)} }
func (a Itv) Hull(b Itv) Itv {
	var r Itv
	if a.Lo != nil && b.Lo != nil {
		r.Lo = minB(a.Lo, b.Lo)
	}
	if a.Hi != nil && b.Hi != nil {
		r.Hi = maxB(a.Hi, b.Hi)
	}
	return r
}

type IV struct {
	W      *World
	TB     *TB
	Tables func(g *ssa.Global) []*big.Int // constant integer table of a never-written package variable (nil if unknown)
	inprog map[ssa.Value]bool
	// Assume lets a rule add facts about parameters (preconditions proven at call sites).
	Assume map[string]Itv // term string -> interval
	// CallSummary gives the interval of a call result for callees with a verified summary.
	CallSummary func(c *ssa.Call, arg func(ssa.Value) Itv) (Itv, bool)
	inCallee    map[*ssa.Function]bool
	nwCache     map[*ssa.Global]bool
}

func NewIV(w *World, tb *TB) *IV {
	return &IV{W: w, TB: tb, inprog: map[ssa.Value]bool{}, Assume: map[string]Itv{}}
}

func (iv *IV) TypeRange(t types.Type) Itv {
	bits, signed, ok := intInfo(t, iv.W)
	if !ok {
		return Itv{}
	}
	if signed {
		lo := new(big.Int).Lsh(bi(1), uint(bits-1))
		hi := new(big.Int).Sub(lo, bi(1))
		return Itv{lo.Neg(lo), hi}
	}
	hi := new(big.Int).Lsh(bi(1), uint(bits))
	return Itv{bi(0), hi.Sub(hi, bi(1))}
}

func constInt(v ssa.Value) (*big.Int, bool) {
	c, ok := v.(*ssa.Const)
	if !ok || c.Value == nil {
		if ok {
			if b, isB := c.Type().Underlying().(*types.Basic); isB && b.Info()&types.IsInteger != 0 {
				return bi(0), true
			}
		}
		return nil, false
	}
	if c.Value.Kind() != constant.Int {
		return nil, false
	}
	x, ok2 := new(big.Int).SetString(c.Value.ExactString(), 10)
	return x, ok2
}

// Cond is a branch condition known to hold.
type Cond struct {
	V   ssa.Value
	Pos bool // true: V holds; false: !V holds
}

// CondsAt: the branch conditions that hold on entry to block b (dominating single-predecessor edges).
func CondsAt(b *ssa.BasicBlock) []Cond {
	var out []Cond
	for d := b; d != nil; d = d.Idom() {
		p := d.Idom()
		if p == nil {
			break
		}
		if len(d.Preds) != 1 || d.Preds[0] != p {
			continue
		}
		iff, ok := p.Instrs[len(p.Instrs)-1].(*ssa.If)
		if !ok || p.Succs[0] == p.Succs[1] {
			continue
		}
		out = append(out, Cond{iff.Cond, p.Succs[0] == d})
	}
	return out
}

// EdgeConds: conditions holding when control flows pred -> succ.
func EdgeConds(pred, succ *ssa.BasicBlock) []Cond {
	out := CondsAt(pred)
	if iff, ok := pred.Instrs[len(pred.Instrs)-1].(*ssa.If); ok && pred.Succs[0] != pred.Succs[1] {
		if pred.Succs[0] == succ {
			out = append(out, Cond{iff.Cond, true})
		} else if pred.Succs[1] == succ {
			out = append(out, Cond{iff.Cond, false})
		}
	}
	return out
}

func negOp(op token.Token) token.Token {
	switch op {
	case token.LSS:
		return token.GEQ
	case token.LEQ:
		return token.GTR
	case token.GTR:
		return token.LEQ
	case token.GEQ:
		return token.LSS
	case token.EQL:
		return token.NEQ
	case token.NEQ:
		return token.EQL
	}
	return token.ILLEGAL
}

func flipOp(op token.Token) token.Token {
	switch op {
	case token.LSS:
		return token.GTR
	case token.LEQ:
		return token.GEQ
	case token.GTR:
		return token.LSS
	case token.GEQ:
		return token.LEQ
	}
	return op
}

// Atom: x OP y holds.
type Atom struct {
	X, Y ssa.Value
	Op   token.Token
}

func atomsOf(conds []Cond) []Atom {
	var out []Atom
	for _, c := range conds {
		v, pos := c.V, c.Pos
		for {
			if u, ok := v.(*ssa.UnOp); ok && u.Op == token.NOT {
				v, pos = u.X, !pos
				continue
			}
			break
		}
		b, ok := v.(*ssa.BinOp)
		if !ok {
			continue
		}
		op := b.Op
		if !pos {
			op = negOp(op)
		}
		if op == token.ILLEGAL {
			continue
		}
		switch op {
		case token.LSS, token.LEQ, token.GTR, token.GEQ, token.EQL, token.NEQ:
			out = append(out, Atom{b.X, b.Y, op})
		}
	}
	return out
}

func (iv *IV) sameValue(a, b ssa.Value) bool {
	if a == b {
		return true
	}
	ta, tb := iv.TB.Of(a), iv.TB.Of(b)
	if ta.ContainsStr("cycle(") || ta.ContainsStr("mem(") || ta.ContainsStr("unknown(") {
		return false
	}
	return ta.String() == tb.String()
}

func refine(cur Itv, op token.Token, other Itv) Itv {
	switch op {
	case token.LSS:
		if other.Hi != nil {
			cur = cur.Meet(Itv{nil, new(big.Int).Sub(other.Hi, bi(1))})
		}
	case token.LEQ:
		if other.Hi != nil {
			cur = cur.Meet(Itv{nil, other.Hi})
		}
	case token.GTR:
		if other.Lo != nil {
			cur = cur.Meet(Itv{new(big.Int).Add(other.Lo, bi(1)), nil})
		}
	case token.GEQ:
		if other.Lo != nil {
			cur = cur.Meet(Itv{other.Lo, nil})
		}
	case token.EQL:
		cur = cur.Meet(other)
	case token.NEQ:
		if other.Lo != nil && other.Hi != nil && other.Lo.Cmp(other.Hi) == 0 {
			if cur.Lo != nil && cur.Lo.Cmp(other.Lo) == 0 {
				cur.Lo = new(big.Int).Add(cur.Lo, bi(1))
			}
			if cur.Hi != nil && cur.Hi.Cmp(other.Lo) == 0 {
				cur.Hi = new(big.Int).Sub(cur.Hi, bi(1))
			}
		}
	}
	return cur
}

// At: interval of v on entry to block b.
func (iv *IV) At(v ssa.Value, b *ssa.BasicBlock) Itv {
	return iv.with(v, b, CondsAt(b), 0)
}

// AtInstr: interval of v just before instruction in (same as block entry conditions).
func (iv *IV) AtInstr(v ssa.Value, in ssa.Instruction) Itv { return iv.At(v, in.Block()) }

func (iv *IV) with(v ssa.Value, b *ssa.BasicBlock, conds []Cond, depth int) Itv {
	cur := iv.structural(v, b, depth)
	if tr := iv.TypeRange(v.Type()); tr.Lo != nil {
		cur = cur.Meet(tr)
	}
	if a, ok := iv.Assume[iv.TB.Of(v).String()]; ok {
		cur = cur.Meet(a)
	}
	if depth > 6 {
		return cur
	}
	for _, at := range atomsOf(conds) {
		if _, isInt, _ := intInfoOK(at.X.Type(), iv.W); !isInt {
			continue
		}
		if iv.sameValue(at.X, v) {
			cur = refine(cur, at.Op, iv.with(at.Y, b, nil, depth+3))
		} else if iv.sameValue(at.Y, v) {
			cur = refine(cur, flipOp(at.Op), iv.with(at.X, b, nil, depth+3))
		}
	}
	return cur
}

func intInfoOK(t types.Type, w *World) (int, bool, bool) {
	b, s, ok := intInfo(t, w)
	return b, ok, s
}

func (iv *IV) structural(v ssa.Value, b *ssa.BasicBlock, depth int) Itv {
	if x, ok := constInt(v); ok {
		return point(x)
	}
	tr := iv.TypeRange(v.Type())
	if depth > 12 || iv.inprog[v] {
		return tr
	}
	iv.inprog[v] = true
	defer delete(iv.inprog, v)
	sub := func(x ssa.Value) Itv {
		conds := []Cond(nil)
		if b != nil {
			conds = CondsAt(b)
		}
		return iv.with(x, b, conds, depth+1)
	}
	switch v := v.(type) {
	case *ssa.Convert:
		in := sub(v.X)
		if _, ok, _ := intInfoOK(v.X.Type(), iv.W); !ok {
			return tr
		}
		if in.Lo != nil && in.Hi != nil && tr.Lo != nil && in.Lo.Cmp(tr.Lo) >= 0 && in.Hi.Cmp(tr.Hi) <= 0 {
			return in
		}
		return tr
	case *ssa.ChangeType:
		return sub(v.X)
	case *ssa.BinOp:
		x, y := sub(v.X), sub(v.Y)
		r := arith(v.Op, x, y)
		if tr.Lo != nil && (r.Lo == nil || r.Hi == nil || r.Lo.Cmp(tr.Lo) < 0 || r.Hi.Cmp(tr.Hi) > 0) {
			// possible wrap-around: only sound results that stay in range are kept
			switch v.Op {
			case token.AND, token.REM, token.SHR, token.QUO:
				return r.Meet(tr)
			}
			return tr
		}
		return r
	case *ssa.UnOp:
		if v.Op == token.SUB {
			x := sub(v.X)
			var r Itv
			if x.Hi != nil {
				r.Lo = new(big.Int).Neg(x.Hi)
			}
			if x.Lo != nil {
				r.Hi = new(big.Int).Neg(x.Lo)
			}
			if tr.Lo != nil && (r.Lo == nil || r.Hi == nil || r.Lo.Cmp(tr.Lo) < 0 || r.Hi.Cmp(tr.Hi) > 0) {
				return tr
			}
			return r
		}
		if v.Op == token.MUL {
			return iv.loadItv(v, tr, b, depth)
		}
	case *ssa.Phi:
		return iv.phiItv(v, depth)
	case *ssa.Call:
		if iv.CallSummary != nil {
			if r, ok := iv.CallSummary(v, sub); ok {
				return r
			}
		}
		if r, ok := iv.calleeResult(v, tr, depth); ok {
			return r
		}
		if bu, ok := v.Call.Value.(*ssa.Builtin); ok && (bu.Name() == "len" || bu.Name() == "cap") {
			lo, hi := iv.lenBounds(v.Call.Args[0], b, depth)
			r := Itv{bi(0), tr.Hi}
			if lo != nil {
				r.Lo = lo
			}
			if hi != nil {
				r.Hi = hi
			}
			return r
		}
		if CalleeName(v.Common()) == "cmp.Or" && len(v.Call.Args) == 1 {
			// first non-zero argument: the earlier arguments contribute their non-zero values only
			if els := variadicElems(v.Call.Args[0]); len(els) > 0 {
				var acc *Itv
				join := func(x Itv) {
					if acc == nil {
						acc = &x
					} else {
						h := acc.Hull(x)
						acc = &h
					}
				}
				for i, e := range els {
					x := sub(e)
					if i == len(els)-1 || !x.ContainsInt(0) {
						join(x)
						break
					}
					if x.Lo != nil && x.Lo.Sign() == 0 {
						x.Lo = bi(1)
					} else if x.Hi != nil && x.Hi.Sign() == 0 {
						x.Hi = bi(-1)
					}
					if !x.Empty() {
						join(x)
					}
				}
				if acc != nil {
					return acc.Meet(tr)
				}
			}
		}
		if bu, ok := v.Call.Value.(*ssa.Builtin); ok && (bu.Name() == "min" || bu.Name() == "max") && len(v.Call.Args) == 2 {
			x, y := sub(v.Call.Args[0]), sub(v.Call.Args[1])
			if bu.Name() == "min" {
				return Itv{minLo(x.Lo, y.Lo), minB(x.Hi, y.Hi)}
			}
			return Itv{maxB(x.Lo, y.Lo), maxHi(x.Hi, y.Hi)}
		}
	case *ssa.Extract:
		if c, ok := v.Tuple.(*ssa.Call); ok {
			if r, ok := iv.calleeResultIdx(c, v.Index, tr, depth); ok {
				return r
			}
		}
		if c, ok := v.Tuple.(*ssa.Call); ok && v.Index == 0 {
			name := CalleeName(c.Common())
			if (name == "strconv.ParseUint" || name == "strconv.ParseInt") && len(c.Call.Args) == 3 {
				if bits, ok := constInt(c.Call.Args[2]); ok {
					n := int(bits.Int64())
					if n == 0 {
						n, _, _ = intInfo(types.Typ[types.Int], iv.W)
					}
					if n >= 1 && n <= 64 {
						if name == "strconv.ParseUint" {
							hi := new(big.Int).Lsh(bi(1), uint(n))
							return Itv{bi(0), hi.Sub(hi, bi(1))}
						}
						lo := new(big.Int).Lsh(bi(1), uint(n-1))
						hi := new(big.Int).Sub(lo, bi(1))
						return Itv{new(big.Int).Neg(lo), hi}
					}
				}
			}
		}
	case *ssa.Field, *ssa.Index, *ssa.Lookup:
		return iv.loadItv(v, tr, b, depth)
	}
	return tr
}

// calleeResult: the result interval of a call to a module function with one integer result is the
// hull of the intervals of its return sites (context-insensitive: parameters range over their types;
// the conditions that dominate each return site apply). Recursive callees give no information.
func (iv *IV) calleeResult(c *ssa.Call, tr Itv, depth int) (Itv, bool) {
	if c.Call.StaticCallee() == nil || c.Call.StaticCallee().Signature.Results().Len() != 1 {
		return tr, false
	}
	return iv.calleeResultIdx(c, 0, tr, depth)
}

// calleeResultIdx: the same for result number idx of a (possibly tuple-returning) module callee.
func (iv *IV) calleeResultIdx(c *ssa.Call, idx int, tr Itv, depth int) (Itv, bool) {
	callee := c.Call.StaticCallee()
	if callee == nil || callee.Blocks == nil || !iv.W.InModule(callee) || depth > 6 {
		return tr, false
	}
	if idx >= callee.Signature.Results().Len() {
		return tr, false
	}
	if _, _, isInt := intInfo(callee.Signature.Results().At(idx).Type(), iv.W); !isInt {
		return tr, false
	}
	if iv.inCallee == nil {
		iv.inCallee = map[*ssa.Function]bool{}
	}
	if iv.inCallee[callee] {
		return tr, false
	}
	iv.inCallee[callee] = true
	defer delete(iv.inCallee, callee)
	var hull *Itv
	for _, r := range Returns(callee) {
		if idx >= len(r.Results) {
			return tr, false
		}
		it := iv.with(r.Results[idx], r.Block(), CondsAt(r.Block()), depth+1)
		if hull == nil {
			h := it
			hull = &h
			continue
		}
		hull.Lo, hull.Hi = minLo(hull.Lo, it.Lo), maxHi(hull.Hi, it.Hi)
	}
	if hull == nil {
		return tr, false
	}
	return *hull, true
}

func minLo(a, b *big.Int) *big.Int {
	if a == nil || b == nil {
		return nil
	}
	return minB(a, b)
}
func maxHi(a, b *big.Int) *big.Int {
	if a == nil || b == nil {
		return nil
	}
	return maxB(a, b)
}

// loadItv: table element loads with a known constant table.
func (iv *IV) loadItv(v ssa.Value, tr Itv, b *ssa.BasicBlock, depth int) Itv {
	u, ok := v.(*ssa.UnOp)
	if !ok || iv.Tables == nil {
		return tr
	}
	ia, ok := u.X.(*ssa.IndexAddr)
	if !ok {
		return tr
	}
	g, ok := ia.X.(*ssa.Global)
	if !ok {
		return tr
	}
	tab := iv.Tables(g)
	if tab == nil {
		return tr
	}
	idx := iv.with(ia.Index, b, CondsAt(b), depth+1)
	var r Itv
	first := true
	for i, e := range tab {
		if !idx.ContainsInt(int64(i)) {
			continue
		}
		if first {
			r = point(e)
			first = false
		} else {
			r = r.Hull(point(e))
		}
	}
	if first {
		return tr
	}
	return r
}

func arith(op token.Token, x, y Itv) Itv {
	full := x.Lo != nil && x.Hi != nil && y.Lo != nil && y.Hi != nil
	switch op {
	case token.ADD:
		var r Itv
		if x.Lo != nil && y.Lo != nil {
			r.Lo = new(big.Int).Add(x.Lo, y.Lo)
		}
		if x.Hi != nil && y.Hi != nil {
			r.Hi = new(big.Int).Add(x.Hi, y.Hi)
		}
		return r
	case token.SUB:
		var r Itv
		if x.Lo != nil && y.Hi != nil {
			r.Lo = new(big.Int).Sub(x.Lo, y.Hi)
		}
		if x.Hi != nil && y.Lo != nil {
			r.Hi = new(big.Int).Sub(x.Hi, y.Lo)
		}
		return r
	case token.MUL:
		if !full {
			return Itv{}
		}
		c := []*big.Int{new(big.Int).Mul(x.Lo, y.Lo), new(big.Int).Mul(x.Lo, y.Hi), new(big.Int).Mul(x.Hi, y.Lo), new(big.Int).Mul(x.Hi, y.Hi)}
		r := Itv{c[0], c[0]}
		for _, e := range c[1:] {
			r.Lo, r.Hi = minB(r.Lo, e), maxB(r.Hi, e)
		}
		return r
	case token.QUO:
		if full && x.Lo.Sign() >= 0 && y.Lo.Sign() > 0 {
			return Itv{new(big.Int).Quo(x.Lo, y.Hi), new(big.Int).Quo(x.Hi, y.Lo)}
		}
		if x.Lo != nil && x.Lo.Sign() >= 0 && y.Lo != nil && y.Lo.Sign() > 0 {
			return Itv{bi(0), x.Hi}
		}
	case token.REM:
		if x.Lo != nil && x.Lo.Sign() >= 0 && y.Lo != nil && y.Lo.Sign() > 0 && y.Hi != nil {
			return Itv{bi(0), minB(x.Hi, new(big.Int).Sub(y.Hi, bi(1)))}
		}
	case token.AND:
		if y.Lo != nil && y.Hi != nil && y.Lo.Sign() >= 0 {
			return Itv{bi(0), y.Hi}
		}
		if x.Lo != nil && x.Hi != nil && x.Lo.Sign() >= 0 {
			return Itv{bi(0), x.Hi}
		}
	case token.SHR:
		if x.Lo != nil && x.Lo.Sign() >= 0 && y.Lo != nil && y.Lo.Sign() >= 0 && y.Lo.IsInt64() {
			r := Itv{bi(0), nil}
			if x.Hi != nil {
				r.Hi = new(big.Int).Rsh(x.Hi, uint(y.Lo.Int64()))
			}
			return r
		}
	case token.SHL:
		if full && x.Lo.Sign() >= 0 && y.Lo.Sign() >= 0 && y.Hi.IsInt64() && y.Hi.Int64() < 128 {
			return Itv{new(big.Int).Lsh(x.Lo, uint(y.Lo.Int64())), new(big.Int).Lsh(x.Hi, uint(y.Hi.Int64()))}
		}
	case token.OR:
		if full && x.Lo.Sign() >= 0 && y.Lo.Sign() >= 0 {
			// x|y <= 2^k-1 with k bits covering both
			n := x.Hi.BitLen()
			if y.Hi.BitLen() > n {
				n = y.Hi.BitLen()
			}
			hi := new(big.Int).Lsh(bi(1), uint(n))
			return Itv{maxB(x.Lo, y.Lo), hi.Sub(hi, bi(1))}
		}
	}
	return Itv{}
}

// Induction describes a loop-carried phi of the form phi(init..., phi ± c).
type Induction struct {
	Phi   *ssa.Phi
	Inits []ssa.Value
	InitP []*ssa.BasicBlock
	Step  int64 // signed step per back edge (all back edges agree in sign)
	Mono  int   // +1 increasing, -1 decreasing, 0 unknown
}

// InductionOf recognises phi(init, phi±c) (all back-edge values are the phi plus/minus constants of one sign).
func InductionOf(p *ssa.Phi) *Induction {
	ind := &Induction{Phi: p}
	b := p.Block()
	for i, ed := range p.Edges {
		pred := b.Preds[i]
		if b.Dominates(pred) { // back edge
			bo, ok := ed.(*ssa.BinOp)
			if !ok {
				return nil
			}
			var c *big.Int
			var okc bool
			switch {
			case bo.X == ssa.Value(p):
				c, okc = constInt(bo.Y)
			case bo.Y == ssa.Value(p) && bo.Op == token.ADD:
				c, okc = constInt(bo.X)
			}
			if !okc || !c.IsInt64() || c.Sign() == 0 {
				return nil
			}
			step := c.Int64()
			switch bo.Op {
			case token.ADD:
			case token.SUB:
				step = -step
			default:
				return nil
			}
			m := 1
			if step < 0 {
				m = -1
			}
			if ind.Mono != 0 && ind.Mono != m {
				return nil
			}
			ind.Mono = m
			ind.Step = step
		} else {
			ind.Inits = append(ind.Inits, ed)
			ind.InitP = append(ind.InitP, pred)
		}
	}
	if ind.Mono == 0 || len(ind.Inits) == 0 {
		return nil
	}
	return ind
}

func (iv *IV) phiItv(p *ssa.Phi, depth int) Itv {
	tr := iv.TypeRange(p.Type())
	b := p.Block()
	cyclic := false
	for i := range p.Edges {
		if b.Dominates(b.Preds[i]) {
			cyclic = true
		}
	}
	if cyclic {
		ind := InductionOf(p)
		if ind == nil {
			return tr
		}
		var init Itv
		for i, x := range ind.Inits {
			e := iv.with(x, ind.InitP[i], EdgeConds(ind.InitP[i], b), depth+1)
			if i == 0 {
				init = e
			} else {
				init = init.Hull(e)
			}
		}
		// the stepping must not wrap: guaranteed only together with a loop guard; we rely on the
		// guard being applied at the use (At refines by dominating conditions). The monotone bound:
		if ind.Mono < 0 {
			return Itv{tr.Lo, init.Hi}
		}
		return Itv{init.Lo, tr.Hi}
	}
	var r Itv
	for i, x := range p.Edges {
		e := iv.with(x, b.Preds[i], EdgeConds(b.Preds[i], b), depth+1)
		if i == 0 {
			r = e
		} else {
			r = r.Hull(e)
		}
	}
	return r
}

// lenBounds: lower/upper bound of len(x) from its construction and from dominating len() guards.
func (iv *IV) lenBounds(x ssa.Value, b *ssa.BasicBlock, depth int) (lo, hi *big.Int) {
	switch x := x.(type) {
	case *ssa.MakeSlice:
		l := iv.with(x.Len, x.Block(), CondsAt(x.Block()), depth+1)
		return l.Lo, l.Hi
	case *ssa.Const:
		if x.Value != nil && x.Value.Kind() == constant.String {
			n := bi(int64(len(constant.StringVal(x.Value))))
			return n, n
		}
	case *ssa.Convert:
		return iv.lenBounds(x.X, b, depth+1)
	case *ssa.UnOp:
		// a package-level map / slice literal that no function outside initialisation writes has its literal size
		if g, ok := x.X.(*ssa.Global); ok && x.Op == token.MUL && g.Pkg != nil && iv.W != nil && iv.neverWritten(g) {
			if e, info := iv.W.GlobalInit(g.Pkg.Pkg.Path(), g.Name()); e != nil {
				if lit := EvalLit(e, info); lit != nil && (lit.Kind == "map" || lit.Kind == "list") {
					n := len(lit.Elems)
					if lit.Kind == "map" {
						n = len(lit.Keys)
					}
					return bi(int64(n)), bi(int64(n))
				}
			}
		}
	case *ssa.Slice:
		if at, ok := x.X.Type().Underlying().(*types.Pointer); ok {
			if arr, ok := at.Elem().Underlying().(*types.Array); ok && x.Low == nil && x.High == nil {
				n := bi(arr.Len())
				return n, n
			}
			if _, ok := at.Elem().Underlying().(*types.Array); ok && x.Low == nil && x.High != nil {
				if k, isC := constInt(x.High); isC {
					return k, k
				}
			}
		}
	}
	if p, ok := x.Type().Underlying().(*types.Pointer); ok {
		if arr, ok := p.Elem().Underlying().(*types.Array); ok {
			n := bi(arr.Len())
			return n, n
		}
	}
	if arr, ok := x.Type().Underlying().(*types.Array); ok {
		n := bi(arr.Len())
		return n, n
	}
	return nil, nil
}

// neverWritten: no module function outside package initialisation stores into, updates or deletes from the global.
func (iv *IV) neverWritten(g *ssa.Global) bool { return iv.W.GlobalNeverWritten(g) }

// SymBound: v <= Base + Off (upper) or v >= Base + Off (lower), with Base an origin term string.
type SymBound struct {
	Base string
	Off  int64
	OK   bool
}

// SymUpper computes a symbolic upper bound v <= base + off.
func (iv *IV) SymUpper(v ssa.Value, depth int) SymBound { return iv.SymUpperAt(v, nil, depth) }

// SymUpperAt: the bound holds at block at (nil: anywhere). Inside the body of a range loop over a collection X
// that is not modified meanwhile, a counter started at 0 and incremented once per iteration is at most len(X)-1.
func (iv *IV) SymUpperAt(v ssa.Value, at *ssa.BasicBlock, depth int) SymBound {
	if depth > 8 {
		return SymBound{}
	}
	if ph, ok := v.(*ssa.Phi); ok && at != nil {
		if ind := InductionOf(ph); ind != nil && ind.Step == 1 && len(ind.Inits) == 1 && isConstInt(ind.Inits[0], 0) {
			h := ph.Block()
			if iff, ok := h.Instrs[len(h.Instrs)-1].(*ssa.If); ok {
				if ex, ok := iff.Cond.(*ssa.Extract); ok && ex.Index == 0 {
					if nx, ok := ex.Tuple.(*ssa.Next); ok {
						if rg, ok := nx.Iter.(*ssa.Range); ok && (h.Succs[0] == at || h.Succs[0].Dominates(at)) && len(h.Succs[0].Preds) == 1 {
							// exactly one increment per iteration: one back edge
							back := 0
							for _, p := range h.Preds {
								if h.Dominates(p) {
									back++
								}
							}
							if back == 1 {
								return SymBound{"len(" + iv.TB.Of(rg.X).String() + ")", -1, true}
							}
						}
					}
				}
			}
		}
	}
	switch x := v.(type) {
	case *ssa.BinOp:
		if c, ok := constInt(x.Y); ok && c.IsInt64() {
			s := iv.SymUpperAt(x.X, at, depth+1)
			if s.OK {
				switch x.Op {
				case token.SUB:
					return SymBound{s.Base, s.Off - c.Int64(), true}
				case token.ADD:
					return SymBound{s.Base, s.Off + c.Int64(), true}
				}
			}
		}
	case *ssa.Phi:
		if ind := InductionOf(x); ind != nil && ind.Mono < 0 {
			var r SymBound
			for i, in := range ind.Inits {
				s := iv.SymUpperAt(in, at, depth+1)
				if !s.OK {
					return SymBound{}
				}
				if i == 0 {
					r = s
				} else if r.Base != s.Base {
					return SymBound{}
				} else if s.Off > r.Off {
					r.Off = s.Off
				}
			}
			return r
		}
	case *ssa.Convert:
		if valuePreserving(x.X.Type(), x.Type(), iv.W) {
			return iv.SymUpperAt(x.X, at, depth+1)
		}
	}
	t := iv.TB.Of(v)
	if t.ContainsStr("cycle(") {
		return SymBound{}
	}
	return SymBound{t.String(), 0, true}
}

// LenSym: len(x) == base + off symbolically (for make([]T, n): base = term(n)).
func (iv *IV) LenSym(x ssa.Value) SymBound {
	switch x := x.(type) {
	case *ssa.MakeSlice:
		return iv.SymUpper(x.Len, 0)
	case *ssa.Convert:
		return iv.LenSym(x.X)
	}
	return SymBound{}
}

// variadicElems: the values of a variadic argument list built at the call site (a fresh array, each element stored
// once, sliced whole); nil when the slice is anything else.
func variadicElems(v ssa.Value) []ssa.Value {
	sl, ok := v.(*ssa.Slice)
	if !ok || sl.Low != nil || sl.High != nil {
		return nil
	}
	a, ok := sl.X.(*ssa.Alloc)
	if !ok || a.Referrers() == nil {
		return nil
	}
	arr, ok := a.Type().Underlying().(*types.Pointer).Elem().Underlying().(*types.Array)
	if !ok {
		return nil
	}
	out := make([]ssa.Value, arr.Len())
	for _, r := range *a.Referrers() {
		switch x := r.(type) {
		case *ssa.IndexAddr:
			k, isK := constInt(x.Index)
			if !isK || x.Referrers() == nil || !k.IsInt64() || k.Int64() < 0 || k.Int64() >= arr.Len() {
				return nil
			}
			for _, u := range *x.Referrers() {
				st, isSt := u.(*ssa.Store)
				if !isSt || st.Addr != ssa.Value(x) || out[k.Int64()] != nil {
					return nil
				}
				out[k.Int64()] = st.Val
			}
		case *ssa.Slice:
			if x != sl {
				return nil
			}
		case *ssa.DebugRef:
		default:
			return nil
		}
	}
	for _, e := range out {
		if e == nil {
			return nil
		}
	}
	return out
}
