package eng

import (
	"fmt"
	"go/token"
	"go/types"
	"strings"

	"golang.org/x/tools/go/ssa"
)

func modulePkgOfGlobal(sym string) bool {
	// valID renders module globals as "<pkgname>.<name>": otp, api, main (wasm/cmd), docs
	for _, p := range []string{"otp.", "api.", "main.", "docs."} {
		if strings.HasPrefix(sym, p) {
			return true
		}
	}
	return false
}

// ruleNoPkgState (R11.1 / shared hygiene): no function other than a package initialiser writes
// package-level state of the module. sync.Pool Get/Put on pool variables are the one allowed
// mutation (checked separately by the pool-discipline rule).
func ruleNoPkgState(c *Check, w *World, tb *TB, ef *Effects, rule string, fns []*ssa.Function) {
	for _, f := range fns {
		if isInit(f) {
			continue
		}
		bad := 0
		for _, e := range ef.Of(f) {
			if e.Via != "" {
				continue // reported at the function that performs the write
			}
			if (e.Root.Op != "global" && e.Root.Op != "gval") || !modulePkgOfGlobal(e.Root.Sym) {
				continue
			}
			if strings.HasPrefix(e.Kind, "extcall:(*sync.Pool).") {
				continue
			}
			bad++
			c.Bad(rule, FuncName(f), "write:"+e.Root.Sym+":"+e.Kind,
				fmt.Sprintf("package-level variable %s is written (%s) outside package initialisation: results can depend on call history and concurrent calls race", e.Root.Sym, e.Kind), w.InstrPos(e.In))
		}
		if bad == 0 {
			c.OK(rule, FuncName(f), "no-package-state-write", "no store, map update, append/copy or writing callee reaches a package-level variable", w.Pos(f.Pos()))
		}
	}
}

// poolGets finds every (*sync.Pool).Get call in f.
func poolCalls(f *ssa.Function, method string) []ssa.CallInstruction {
	var out []ssa.CallInstruction
	EachInstr(f, func(in ssa.Instruction) {
		if ci, ok := in.(ssa.CallInstruction); ok {
			if CalleeName(ci.Common()) == "(*sync.Pool)."+method {
				out = append(out, ci)
			}
		}
	})
	return out
}

// nonRetaining: callees that neither keep nor publish a reference argument beyond the call.
func nonRetaining(name string) bool {
	switch name {
	case "(hash.Hash).Write", "(io.Writer).Write", "(encoding/binary.bigEndian).PutUint64", "(encoding/binary.bigEndian).PutUint32",
		"(encoding/binary.littleEndian).PutUint64", "(encoding/binary.bigEndian).Uint64", "(encoding/binary.bigEndian).Uint32",
		"builtin.copy", "builtin.len", "builtin.cap", "builtin.append", "(*sync.Pool).Put", "crypto/subtle.ConstantTimeCompare",
		"crypto/hmac.Equal", "bytes.Equal", "encoding/hex.EncodeToString", "encoding/hex.Decode", "crypto/rand.Read", "io.ReadFull",
		"(hash.Hash).Sum", "builtin.clear", "builtin.print", "builtin.println":
		return true
	}
	return false
}

// rulePoolDiscipline (R11.2): exclusive ownership of pooled buffers for the duration of one call.
// The values sharing storage with a Get() result are followed through local cells, phis, slices,
// appends, module callees (into the callee's parameter and back through its results) and deferred
// closures. They must never be returned from the function that took the buffer, stored in
// longer-lived memory, captured by a non-deferred closure, handed to a goroutine, re-sliced to a
// non-zero length (stale bytes), used with an un-reset length, or used after a non-deferred Put.
type poolWalk struct {
	c    *Check
	w    *World
	tb   *TB
	rule string
	top  *ssa.Function
	site string
	ok   bool
	puts int
	nD   int
	seen map[string]bool
	// Put sites of this pooled object: deferred ones (incl. inside deferred closures) and direct ones
	defPuts, dirPuts []ssa.Instruction
}

func (p *poolWalk) bad(construct, why string, in ssa.Instruction) {
	p.ok = false
	k := construct + "|" + p.w.InstrPos(in)
	if p.seen[k] {
		return
	}
	p.seen[k] = true
	p.c.Bad(p.rule, FuncName(p.top), p.site+":"+construct, why, p.w.InstrPos(in))
}

// confine analyses the values derived from seeds inside fn. It reports whether a derived value is returned.
func (p *poolWalk) confine(fn *ssa.Function, seeds []ssa.Value, isTop, inDefer bool, depth int) (returned bool) {
	if depth > 5 {
		p.ok = false
		p.c.Unk(p.rule, FuncName(p.top), p.site+":depth", "pooled buffer flows through more than 5 nested calls", p.w.Pos(fn.Pos()))
		return false
	}
	for iter := 0; iter < 8; iter++ {
		D := DerivedSet(seeds)
		p.nD += len(D)
		grown := false
		type nonDeferredPut struct{ in ssa.CallInstruction }
		var ndPuts []ssa.CallInstruction
		for d := range D {
			refs := d.Referrers()
			if refs == nil {
				continue
			}
			for _, in := range *refs {
				switch x := in.(type) {
				case *ssa.Return:
					if isTop {
						p.bad("returned", "a value sharing storage with a pooled buffer is returned by the function that took it: the buffer is back in the pool (or reused) while the caller still holds it", in)
					}
					returned = true
				case *ssa.Store:
					if x.Val == d {
						if rootAlloc(x.Addr) != nil || D[x.Addr] {
							continue // local cell (followed by DerivedSet) or storing the grown slice back into the pooled object
						}
						p.bad("stored", "a reference to a pooled buffer is stored into longer-lived memory", in)
					}
				case *ssa.MapUpdate:
					if x.Value == d || x.Key == d {
						p.bad("stored-in-map", "a reference to a pooled buffer is stored in a map", in)
					}
				case *ssa.Send:
					p.bad("sent", "a reference to a pooled buffer is sent on a channel", in)
				case *ssa.Go:
					p.bad("goroutine", "a pooled buffer is handed to a goroutine", in)
				case *ssa.MakeClosure:
					cf := x.Fn.(*ssa.Function)
					onlyDeferred := true
					if rr := x.Referrers(); rr != nil {
						for _, u := range *rr {
							if _, isDefer := u.(*ssa.Defer); !isDefer {
								if _, isDbg := u.(*ssa.DebugRef); !isDbg {
									onlyDeferred = false
								}
							}
						}
					}
					if !onlyDeferred {
						p.bad("captured", "a pooled buffer is captured by a closure that is not simply deferred and may outlive the call", in)
						continue
					}
					if p.seen["closure|"+valID(x)] {
						continue
					}
					p.seen["closure|"+valID(x)] = true
					var cs []ssa.Value
					for i, bnd := range x.Bindings {
						if D[bnd] && i < len(cf.FreeVars) {
							cs = append(cs, cf.FreeVars[i])
						}
					}
					p.confine(cf, cs, false, true, depth+1)
				case *ssa.Slice:
					if x.X == d {
						if _, isSlice := x.X.Type().Underlying().(*types.Slice); isSlice && x.High != nil {
							if hc, isC := constInt(x.High); !isC || hc.Sign() != 0 {
								p.bad("resliced-up", "a pooled slice is re-sliced to a non-zero length: bytes left in the buffer by an earlier call become part of this call's data", in)
							}
						}
					}
				case *ssa.UnOp:
					if x.X == d && x.Op == token.MUL && !isCarrier(d) {
						if _, isSlice := x.Type().Underlying().(*types.Slice); isSlice {
							p.checkLengthReset(x)
						}
					}
				case ssa.CallInstruction:
					cc := x.Common()
					name := CalleeName(cc)
					if name == "(*sync.Pool).Put" {
						p.puts++
						if _, isDefer := x.(*ssa.Defer); !isDefer && !inDefer {
							ndPuts = append(ndPuts, x)
							p.dirPuts = append(p.dirPuts, x)
						} else {
							p.defPuts = append(p.defPuts, x)
						}
						continue
					}
					if nonRetaining(name) {
						continue
					}
					if callee := cc.StaticCallee(); callee != nil && p.w.InModule(callee) && callee.Blocks != nil {
						for i, a := range cc.Args {
							if a == d && i < len(callee.Params) {
								if why := unsafeViews(p.w, callee, i, 0); why != "" {
									p.bad("unsafe-view:"+FuncName(callee), "a pooled buffer is passed to "+FuncName(callee)+" which "+why+": the result shares the pooled memory", in)
									continue
								}
								if p.confine(callee, []ssa.Value{callee.Params[i]}, false, inDefer, depth+1) {
									if v := x.Value(); v != nil && !D[v] {
										seeds = append(seeds, v)
										grown = true
									}
								}
							}
						}
						continue
					}
					if _, isDefer := in.(*ssa.Defer); isDefer && name == "" {
						continue
					}
					p.bad("passed-to:"+name, "a pooled buffer is passed to "+name+", which is not known to release it before returning", in)
				}
			}
		}
		if grown {
			continue
		}
		// release discipline: nothing uses the buffer after a non-deferred Put
		for _, put := range ndPuts {
			used := false
			var where ssa.Instruction
			ReachableAfter(put, func(in ssa.Instruction) bool {
				if _, isDbg := in.(*ssa.DebugRef); isDbg {
					return true
				}
				for _, op := range operandsOf(in) {
					if D[op] && !isCarrier(op) {
						used, where = true, in
						return false
					}
				}
				return true
			})
			if used {
				p.bad("use-after-Put", "the buffer is used after it was returned to the pool (Put is neither deferred nor the last use): another goroutine may already own it", where)
			} else if !isTop || returned {
				// a Put in a helper that also hands the buffer back to its caller
				if returned {
					p.bad("use-after-Put", "the buffer is returned to the pool and to the caller", put)
				}
			}
		}
		return returned
	}
	return returned
}

func isCarrier(v ssa.Value) bool {
	_, ok := v.(*ssa.Alloc)
	if ok {
		return true
	}
	_, ok = v.(*ssa.FreeVar)
	return ok
}

func rootAlloc(addr ssa.Value) *ssa.Alloc {
	for {
		switch x := addr.(type) {
		case *ssa.Alloc:
			return x
		case *ssa.FieldAddr:
			addr = x.X
		case *ssa.IndexAddr:
			addr = x.X
		default:
			return nil
		}
	}
}

// checkArrayOverwritten: a pooled fixed-size array (*[N]byte) still holds what its previous user left. Every use
// that reads it (a slice of it handed to anything but a writer) must be dominated by a write that covers the whole
// array: binary.*.PutUintNN over a slice starting at 0 with NN/8 >= N, or copy/clear of the whole array.
func (p *poolWalk) checkArrayOverwritten(f *ssa.Function, gv ssa.Value) {
	// the pointer to the array: the Get result asserted to *[N]T
	var ptrs []ssa.Value
	if refs := gv.Referrers(); refs != nil {
		for _, r := range *refs {
			if ta, ok := r.(*ssa.TypeAssert); ok {
				if pt, ok := ta.AssertedType.Underlying().(*types.Pointer); ok {
					if _, isArr := pt.Elem().Underlying().(*types.Array); isArr {
						ptrs = append(ptrs, ta)
					}
				}
			}
		}
	}
	for _, ptr := range ptrs {
		n := ptr.Type().Underlying().(*types.Pointer).Elem().Underlying().(*types.Array).Len()
		var fullWrites []ssa.Instruction
		type use struct {
			in   ssa.Instruction
			what string
		}
		var reads []use
		D := DerivedSet([]ssa.Value{ptr})
		for v := range D {
			sl, ok := v.(*ssa.Slice)
			if !ok || !D[sl.X] {
				continue
			}
			fromZero := sl.Low == nil || isConstInt(sl.Low, 0)
			refs := sl.Referrers()
			if refs == nil {
				continue
			}
			for _, r := range *refs {
				ci, ok := r.(ssa.CallInstruction)
				if !ok {
					continue
				}
				name := CalleeName(ci.Common())
				width := int64(0)
				switch {
				case strings.HasSuffix(name, "Endian).PutUint64"):
					width = 8
				case strings.HasSuffix(name, "Endian).PutUint32"):
					width = 4
				case strings.HasSuffix(name, "Endian).PutUint16"):
					width = 2
				}
				isDst := width > 0 || ((name == "builtin.copy" || name == "builtin.clear") && len(ci.Common().Args) > 0 && ci.Common().Args[0] == ssa.Value(sl))
				switch {
				case width > 0 && fromZero && width >= n:
					fullWrites = append(fullWrites, r)
				case name == "builtin.clear" && fromZero && sl.High == nil:
					fullWrites = append(fullWrites, r)
				case isDst:
					// a partial write: neither a read nor a full overwrite
				case name == "builtin.len" || name == "builtin.cap":
				default:
					reads = append(reads, use{r, name})
				}
			}
		}
		for _, u := range reads {
			covered := false
			for _, wr := range fullWrites {
				if dominatesInstr(wr, u.in) {
					covered = true
				}
			}
			if !covered {
				p.bad("array-not-overwritten", fmt.Sprintf("the pooled %d-byte array is read (%s) without having been overwritten as a whole first: bytes left by its previous user become part of this call's data", n, u.what), u.in)
			}
		}
	}
}

// checkLengthReset: a slice header loaded from the pooled pointer must be reset to length 0 before use.
func (p *poolWalk) checkLengthReset(load *ssa.UnOp) {
	vals := DerivedSet([]ssa.Value{load})
	for v := range vals {
		if _, isSlice := v.Type().Underlying().(*types.Slice); !isSlice && !isCarrier(v) {
			continue
		}
		rr := v.Referrers()
		if rr == nil {
			continue
		}
		for _, u := range *rr {
			switch y := u.(type) {
			case *ssa.Slice:
				if y.X != v {
					continue
				}
				// [:0] resets; the result is a fresh empty view and is not followed further here
			case *ssa.DebugRef, *ssa.Store, *ssa.Phi, *ssa.UnOp, *ssa.MakeClosure:
			case ssa.CallInstruction:
				n := CalleeName(y.Common())
				if n == "builtin.len" || n == "builtin.cap" {
					continue
				}
				if n == "builtin.append" || n == "(hash.Hash).Write" || n == "builtin.copy" {
					if !resetBefore(v) {
						p.bad("length-not-reset", "the pooled slice is used ("+n+") without resetting its length to 0: data of an earlier call stays in front of this call's data", u)
					}
				}
			}
		}
	}
}

// resetBefore: v is (derived from) a [:0] re-slice.
func resetBefore(v ssa.Value) bool {
	seen := map[ssa.Value]bool{}
	var rec func(x ssa.Value) bool
	rec = func(x ssa.Value) bool {
		if seen[x] {
			return true
		}
		seen[x] = true
		switch y := x.(type) {
		case *ssa.Slice:
			if hc, ok := constInt(y.High); ok && y.High != nil && hc.Sign() == 0 {
				return true
			}
			return false
		case *ssa.Phi:
			for _, e := range y.Edges {
				if !rec(e) {
					return false
				}
			}
			return true
		case *ssa.Call:
			if bu, ok := y.Call.Value.(*ssa.Builtin); ok && bu.Name() == "append" {
				return rec(y.Call.Args[0])
			}
			// a helper that only appends to one of its parameters (appendPadded(dst, …)): as that argument
			if g := y.Call.StaticCallee(); g != nil && g.Blocks != nil {
				if i := appendRootParam(g, 0); i >= 0 && i < len(y.Call.Args) {
					return rec(y.Call.Args[i])
				}
			}
			return false
		case *ssa.UnOp:
			// load from a local cell: every store into the cell must be reset
			if a := rootAlloc(y.X); a != nil {
				okAll, any := true, false
				if rr := a.Referrers(); rr != nil {
					for _, u := range *rr {
						if st, ok := u.(*ssa.Store); ok && st.Addr == ssa.Value(a) {
							any = true
							if !rec(st.Val) {
								okAll = false
							}
						}
					}
				}
				return any && okAll
			}
			if fv, ok := y.X.(*ssa.FreeVar); ok {
				_ = fv
				return true // checked in the parent
			}
			return false
		}
		return false
	}
	return rec(v)
}

func rulePoolDiscipline(c *Check, w *World, tb *TB, rule string, fns []*ssa.Function) {
	for _, f := range fns {
		gets := poolCalls(f, "Get")
		for gi, g := range gets {
			gv := g.Value()
			if gv == nil {
				continue
			}
			poolT := tb.Of(g.Common().Args[0]).String()
			p := &poolWalk{c: c, w: w, tb: tb, rule: rule, top: f, site: fmt.Sprintf("Get#%d[%s]", gi, poolT), ok: true, seen: map[string]bool{}}
			p.confine(f, []ssa.Value{gv}, true, false, 0)
			p.checkArrayOverwritten(f, gv)
			p.defPuts, p.dirPuts = dedupInstrs(p.defPuts), dedupInstrs(p.dirPuts)
			// released once: a deferred Put plus any other Put, or two direct Puts one of which can follow the other,
			// hand the same object to the pool twice — two later Gets then share it
			switch {
			case len(p.defPuts) > 0 && len(p.defPuts)+len(p.dirPuts) > 1:
				other := p.defPuts[0]
				if len(p.dirPuts) > 0 {
					other = p.dirPuts[0]
				}
				p.bad("double-Put", "the pooled object is returned to the pool twice (a deferred Put and another Put both run): two later calls can be handed the same buffer", other)
			case len(p.dirPuts) > 1:
				for i, a := range p.dirPuts {
					for j, b := range p.dirPuts {
						if i != j && a.Parent() == b.Parent() && instrReaches(a, b) {
							p.bad("double-Put", "the pooled object is returned to the pool twice on one path: two later calls can be handed the same buffer", b)
						}
					}
				}
			}
			if p.ok {
				c.OK(rule, FuncName(f), p.site, fmt.Sprintf("pooled buffer confined to the call: %d derived values followed, %d Put site(s); never returned/stored/captured/re-sliced upward, length reset before use, no use after a non-deferred Put", p.nD, p.puts), w.InstrPos(g))
			}
		}
	}
}

// unsafeViews: does callee (transitively) re-interpret its i-th parameter through unsafe? "" if not.
func unsafeViews(w *World, callee *ssa.Function, i int, depth int) string {
	if depth > 4 || callee.Blocks == nil {
		return ""
	}
	D := DerivedSet([]ssa.Value{callee.Params[i]})
	for d := range D {
		refs := d.Referrers()
		if refs == nil {
			continue
		}
		for _, in := range *refs {
			switch x := in.(type) {
			case *ssa.Convert:
				if b, ok := x.Type().Underlying().(*types.Basic); ok && b.Kind() == types.UnsafePointer {
					return "re-interprets it through unsafe.Pointer (a no-copy view)"
				}
			case ssa.CallInstruction:
				cc := x.Common()
				if bu, ok := cc.Value.(*ssa.Builtin); ok && (bu.Name() == "String" || bu.Name() == "StringData" || bu.Name() == "Slice" || bu.Name() == "SliceData") {
					return "views it through unsafe." + bu.Name()
				}
				if cal := cc.StaticCallee(); cal != nil && w.InModule(cal) {
					for j, a := range cc.Args {
						if a == d && j < len(cal.Params) {
							if why := unsafeViews(w, cal, j, depth+1); why != "" {
								return "passes it to " + FuncName(cal) + " which " + why
							}
						}
					}
				}
			}
		}
	}
	return ""
}

// paramRetained: does callee keep / return / unsafely view its i-th parameter? "" if not.
func paramRetained(w *World, callee *ssa.Function, i int, depth int) string {
	if depth > 4 || callee.Blocks == nil {
		return "could not be analysed"
	}
	D := DerivedSet([]ssa.Value{callee.Params[i]})
	// parameters whose address is taken are spilled to an Alloc: follow loads of the spill cell
	for _, in := range callee.Blocks[0].Instrs {
		if st, ok := in.(*ssa.Store); ok && st.Val == ssa.Value(callee.Params[i]) {
			if a, ok := st.Addr.(*ssa.Alloc); ok {
				for k := range DerivedSet([]ssa.Value{a}) {
					D[k] = true
				}
			}
		}
	}
	for d := range D {
		refs := d.Referrers()
		if refs == nil {
			continue
		}
		for _, in := range *refs {
			switch x := in.(type) {
			case *ssa.Return:
				return "returns it (or a view of it)"
			case *ssa.Convert:
				if b, ok := x.Type().Underlying().(*types.Basic); ok && b.Kind() == types.UnsafePointer {
					return "re-interprets it through unsafe.Pointer (a no-copy view)"
				}
			case *ssa.Store:
				if x.Val == d {
					if _, isAlloc := x.Addr.(*ssa.Alloc); !isAlloc {
						return "stores it"
					}
				}
			case *ssa.MakeClosure, *ssa.Go, *ssa.Send:
				return "lets it escape (closure/goroutine/channel)"
			case ssa.CallInstruction:
				cc := x.Common()
				name := CalleeName(cc)
				if nonRetaining(name) {
					continue
				}
				if cal := cc.StaticCallee(); cal != nil && w.InModule(cal) {
					for j, a := range cc.Args {
						if a == d && j < len(cal.Params) {
							if why := paramRetained(w, cal, j, depth+1); why != "" {
								return "passes it to " + FuncName(cal) + " which " + why
							}
						}
					}
					continue
				}
				if name == "builtin.unsafe.String" || strings.HasPrefix(name, "unsafe.") {
					return "views it through unsafe"
				}
				if !DefaultReadOnly(name) && !extPure(name) {
					return "passes it to " + name
				}
			}
		}
	}
	return ""
}

// unsafeViewFuncs: module functions that build a string/slice header through unsafe.Pointer or
// unsafe.String/unsafe.Slice, with the parameters that are viewed.
func unsafeViewFuncs(w *World, fns []*ssa.Function) map[*ssa.Function][]int {
	out := map[*ssa.Function][]int{}
	for _, f := range fns {
		uses := false
		EachInstr(f, func(in ssa.Instruction) {
			if cv, ok := in.(*ssa.Convert); ok {
				if b, ok := cv.Type().Underlying().(*types.Basic); ok && b.Kind() == types.UnsafePointer {
					uses = true
				}
			}
			if ci, ok := in.(ssa.CallInstruction); ok {
				if bu, ok := ci.Common().Value.(*ssa.Builtin); ok && (bu.Name() == "String" || bu.Name() == "Slice" || bu.Name() == "StringData" || bu.Name() == "SliceData") {
					uses = true
				}
			}
		})
		if !uses {
			continue
		}
		var idx []int
		for i, p := range f.Params {
			if refArg(p.Type()) {
				idx = append(idx, i)
			}
		}
		out[f] = idx
	}
	return out
}

// ruleUnsafeView (R11.3): the operand of every no-copy string view is a per-call allocation that
// is not written afterwards.
func ruleUnsafeView(c *Check, w *World, tb *TB, rule string, fns []*ssa.Function) {
	views := unsafeViewFuncs(w, fns)
	for vf, idxs := range views {
		sites := w.CallSites(vf)
		if len(sites) == 0 {
			c.OK(rule, FuncName(vf), "no-callers", "unsafe view helper has no callers", w.Pos(vf.Pos()))
		}
		for _, s := range sites {
			caller := s.Parent()
			for _, i := range idxs {
				if i >= len(s.Common().Args) {
					continue
				}
				arg := s.Common().Args[i]
				checkViewOperand(c, w, tb, rule, vf, caller, s, arg, 0)
			}
		}
	}
	if len(views) == 0 {
		c.Note("%s: no unsafe no-copy view in the analysed packages", rule)
	}
}

func checkViewOperand(c *Check, w *World, tb *TB, rule string, vf, caller *ssa.Function, site ssa.CallInstruction, arg ssa.Value, depth int) {
	construct := "view-operand@" + FuncName(caller)
	roots := tb.RootTerms(tb.Of(arg), 0)
	for _, r := range roots {
		switch r.Op {
		case "alloc":
			a := r.Val.(*ssa.Alloc)
			// no store into the allocation may be reachable after the view is created
			D := DerivedSet([]ssa.Value{a})
			written := false
			var where ssa.Instruction
			ReachableAfter(site, func(in ssa.Instruction) bool {
				switch x := in.(type) {
				case *ssa.Store:
					if D[x.Addr] {
						written, where = true, in
						return false
					}
				case ssa.CallInstruction:
					n := CalleeName(x.Common())
					for _, op := range x.Common().Args {
						if D[op] && !DefaultReadOnly(n) && !extPure(n) && x != site {
							written, where = true, in
							return false
						}
					}
				}
				return true
			})
			if written {
				c.Bad(rule, FuncName(vf), construct, "the array viewed as a string without copying is written after the view was created: the returned string changes", w.InstrPos(where))
			} else {
				c.OK(rule, FuncName(vf), construct, "viewed storage is a per-call allocation ("+a.Comment+") with no write after the view", w.InstrPos(site))
			}
		case "makeslice", "fresh":
			c.OK(rule, FuncName(vf), construct, "viewed storage is freshly made in this call", w.InstrPos(site))
		case "param":
			// the storage comes from the caller's caller: follow one level up
			idx := paramIdxOfTerm(r)
			sites := w.CallSites(caller)
			if depth >= 3 || len(sites) == 0 {
				c.Bad(rule, FuncName(vf), construct, "storage viewed as a string without copying is supplied by a caller ("+r.Sym+") and may be reused or modified after the string is returned", w.InstrPos(site))
				continue
			}
			for _, s2 := range sites {
				if idx < len(s2.Common().Args) {
					checkViewOperand(c, w, tb, rule, vf, s2.Parent(), s2, s2.Common().Args[idx], depth+1)
				}
			}
		default:
			c.Bad(rule, FuncName(vf), construct, "storage viewed as a string without copying is not a per-call allocation (root "+r.String()+"): pooled, shared or caller-owned memory can change under the returned string", w.InstrPos(site))
		}
	}
	if len(roots) == 0 {
		c.Unk(rule, FuncName(vf), construct, "cannot determine what storage is viewed", w.InstrPos(site))
	}
}

// ruleFreshResults (R11.4): exported functions do not return references into package state or pools.
func ruleFreshResults(c *Check, w *World, tb *TB, rule string, fns []*ssa.Function) {
	for _, f := range fns {
		res := f.Signature.Results()
		anyRef := false
		for i := 0; i < res.Len(); i++ {
			if refArg(res.At(i).Type()) && !isErrorType(res.At(i).Type()) {
				anyRef = true
			}
		}
		if !anyRef {
			continue
		}
		rts := tb.Results(f, nil, nil, 0)
		ok := true
		for i, rt := range rts {
			if isErrorType(res.At(i).Type()) || !refArg(res.At(i).Type()) {
				continue
			}
			for _, r := range tb.RootTerms(rt, 0) {
				switch {
				case (r.Op == "gval" || r.Op == "global") && modulePkgOfGlobal(r.Sym):
					// returning a struct *copy* read from a table is fine only if it holds no references; RootTerms
					// looked through field/index steps, so a table-rooted reference result is shared state
					if st, isStruct := res.At(i).Type().Underlying().(*types.Struct); isStruct && !structHasMutableRef(st) {
						continue
					}
					ok = false
					c.Bad(rule, FuncName(f), fmt.Sprintf("result#%d", i), "result shares memory with package-level state "+r.Sym, w.Pos(f.Pos()))
				case r.Op == "call" && strings.HasPrefix(r.Sym, "(*sync.Pool).Get"):
					ok = false
					c.Bad(rule, FuncName(f), fmt.Sprintf("result#%d", i), "result shares memory with a pooled buffer", w.Pos(f.Pos()))
				case r.Op == "calldyn" && len(r.Args) > 0 && (r.Args[0].Op == "gval" || r.Args[0].Op == "global") && modulePkgOfGlobal(r.Args[0].Sym):
					// produced by a function value kept in package state (sync.OnceValue, a memoising closure): every
					// caller may be handed the same memory
					ok = false
					c.Bad(rule, FuncName(f), fmt.Sprintf("result#%d", i), "result is produced by the function value stored in "+r.Args[0].Sym+" (a memoised value): callers share its memory", w.Pos(f.Pos()))
				}
			}
		}
		if ok {
			c.OK(rule, FuncName(f), "results", "reference results are rooted at per-call allocations, arguments or immutable data", w.Pos(f.Pos()))
		}
	}
}

func structHasMutableRef(st *types.Struct) bool {
	for i := 0; i < st.NumFields(); i++ {
		switch u := st.Field(i).Type().Underlying().(type) {
		case *types.Pointer, *types.Slice, *types.Map, *types.Chan:
			return true
		case *types.Struct:
			if structHasMutableRef(u) {
				return true
			}
		}
	}
	return false
}

// ruleNoConcurrencyPrimitives (R11.5): no goroutines, channels or locks inside the library.
func ruleNoConcurrencyPrimitives(c *Check, w *World, rule string, fns []*ssa.Function) {
	n := 0
	for _, f := range fns {
		EachInstr(f, func(in ssa.Instruction) {
			switch x := in.(type) {
			case *ssa.Go:
				n++
				c.Unk(rule, FuncName(f), "go", "the library starts a goroutine: interference between calls can no longer be excluded structurally", w.InstrPos(in))
			case *ssa.Send, *ssa.Select, *ssa.MakeChan:
				n++
				c.Unk(rule, FuncName(f), "chan", "channel operation inside the library", w.InstrPos(in))
			case *ssa.UnOp:
				if x.Op == token.ARROW {
					n++
					c.Unk(rule, FuncName(f), "chan", "channel receive inside the library", w.InstrPos(in))
				}
			case ssa.CallInstruction:
				name := CalleeName(x.Common())
				if strings.HasSuffix(name, ".init") {
					return
				}
				if (strings.HasPrefix(name, "(*sync.") || strings.HasPrefix(name, "sync.") || strings.HasPrefix(name, "(*sync/atomic.") || strings.HasPrefix(name, "sync/atomic.")) && !strings.HasPrefix(name, "(*sync.Pool).") {
					n++
					c.Unk(rule, FuncName(f), "sync:"+name, "shared-state synchronisation primitive "+name+" inside the library: some state is shared between calls", w.InstrPos(in))
				}
			}
		})
	}
	if n == 0 {
		c.OK(rule, "otp", "no-go-chan-lock", fmt.Sprintf("%d functions scanned: no go statement, channel operation or sync primitive other than sync.Pool", len(fns)), "")
	}
}

func init() {
	register(&propDef{
		id:    "C11",
		level: "other",
		explain: "Interference-freedom by construction, decided on the SSA form of package otp in every build configuration: " +
			"(R11.1) no function outside package initialisation writes a package-level variable (write effects are computed per function and " +
			"propagated through module callees, closures and parameter aliasing); (R11.2) every sync.Pool buffer is confined to the call that took it: " +
			"no value sharing its storage is returned, stored, captured, re-sliced upward or used after a non-deferred Put, and pooled slices are reset to length 0; " +
			"(R11.3) every no-copy string view (unsafe.Pointer / unsafe.String) is over a per-call allocation not written afterwards; " +
			"(R11.4) reference results of exported functions are not rooted at package state or pools; (R11.5) no goroutine, channel or lock in the library. " +
			"These are necessary conditions for 'results depend only on arguments'; the Go memory model and runtime are trusted; callers mutating exported variables are outside the property.",
		trusted:  []string{"sync.Pool hands a buffer to one goroutine at a time", "callees listed as non-retaining (hash.Write, PutUint64, copy, append, ConstantTimeCompare, rand.Read) do not keep their argument"},
		assume:   []string{"callers do not assign to exported package variables (DefaultHOTPParam, TimeCounterFunc, Err*)"},
		quick:    []Config{CfgNative, CfgWasm},
		thorough: []Config{CfgNative, CfgWasm, Cfg386},
		run: func(c *Check, w *World) {
			tb := NewTB(w)
			ef := NewEffects(tb)
			fns := w.ModuleFuncs(OtpPath)
			c.Count("functions", len(fns))
			ruleNoPkgState(c, w, tb, ef, "R11.1", fns)
			rulePoolDiscipline(c, w, tb, "R11.2", fns)
			ruleUnsafeView(c, w, tb, "R11.3", fns)
			var exp []*ssa.Function
			for _, f := range w.ExportedAPI() {
				exp = append(exp, f)
			}
			ruleFreshResults(c, w, tb, "R11.4", exp)
			ruleNoConcurrencyPrimitives(c, w, "R11.5", fns)
			// callers may hand the same buffers to concurrent calls: no operation writes memory reachable from its arguments
			ruleNoParamWrites(c, w, tb, ef, "R11.6", w.ExportedAPI())
			ruleNoCapReads(c, w, tb, "R11.7", w.ModuleFuncs(OtpPath))
			ruleRESTStateless(c, w, tb, ef, "R11.REST", true)
			if w.Cfg.Name == CfgNative.Name {
				runControl(c, "R11.1", []string{"ControlWritesGlobal|write:otp.cache"}, func(sink *Check, cw *World) {
					ctb := NewTB(cw)
					ruleNoPkgState(sink, cw, ctb, NewEffects(ctb), "R11.1", cw.ModuleFuncs(OtpPath))
				})
				runControl(c, "R11.2", []string{"ControlLeaksPool|", "ControlUseAfterPut|"}, func(sink *Check, cw *World) {
					rulePoolDiscipline(sink, cw, NewTB(cw), "R11.2", cw.ModuleFuncs(OtpPath))
				})
				runControl(c, "R11.3", []string{"controlView|"}, func(sink *Check, cw *World) {
					ruleUnsafeView(sink, cw, NewTB(cw), "R11.3", cw.ModuleFuncs(OtpPath))
				})
			}
			c.Floor("R11.1", 40)
			c.Floor("R11.2", 2)
			c.Floor("R11.3", 1)
			c.Floor("R11.4", 5)
		},
	})
}

// ruleHistoryIndependence (shared): the functions reachable from the given entry points keep no
// package-level mutable state and use no lock/atomic/goroutine — a necessary condition of every
// "for all inputs" property (the answer must not depend on earlier calls).
func ruleHistoryIndependence(c *Check, w *World, tb *TB, ef *Effects, rule string, entries ...*ssa.Function) {
	var roots []*ssa.Function
	for _, e := range entries {
		if e != nil {
			roots = append(roots, e)
		}
	}
	reach := w.Reachable(roots...)
	var fns []*ssa.Function
	for f := range reach {
		if f.Blocks != nil && w.InModule(f) {
			fns = append(fns, f)
		}
	}
	sortFuncs(fns)
	ruleNoPkgState(c, w, tb, ef, rule, fns)
	ruleNoConcurrencyPrimitives(c, w, rule, fns)
	// scratch memory on the path is exclusively owned while in use, and results do not alias it
	var lib []*ssa.Function
	for _, f := range fns {
		if fnPkgPath(f) == OtpPath {
			lib = append(lib, f)
		}
	}
	rulePoolDiscipline(c, w, tb, rule, lib)
	ruleUnsafeView(c, w, tb, rule, lib)
}

func sortFuncs(fns []*ssa.Function) {
	for i := 1; i < len(fns); i++ {
		for j := i; j > 0 && fns[j].String() < fns[j-1].String(); j-- {
			fns[j], fns[j-1] = fns[j-1], fns[j]
		}
	}
}

func (w *World) Funcs(pkg string, names ...string) []*ssa.Function {
	var out []*ssa.Function
	for _, n := range names {
		if f := w.Func(pkg, n); f != nil {
			out = append(out, f)
		}
	}
	return out
}

func dedupInstrs(in []ssa.Instruction) []ssa.Instruction {
	seen := map[ssa.Instruction]bool{}
	var out []ssa.Instruction
	for _, x := range in {
		if !seen[x] {
			seen[x] = true
			out = append(out, x)
		}
	}
	return out
}

// appendRootParam: the index of the parameter that every result of g extends by appends only (the result is that
// parameter followed by appended data), or -1. g must return one slice.
func appendRootParam(g *ssa.Function, depth int) int {
	if g == nil || g.Blocks == nil || depth > 2 || g.Signature.Results().Len() != 1 {
		return -1
	}
	if _, isSlice := g.Signature.Results().At(0).Type().Underlying().(*types.Slice); !isSlice {
		return -1
	}
	seen := map[ssa.Value]bool{}
	var root func(v ssa.Value) int
	root = func(v ssa.Value) int {
		if seen[v] {
			return -2 // a cycle adds nothing
		}
		seen[v] = true
		switch y := v.(type) {
		case *ssa.Parameter:
			for i, p := range g.Params {
				if p == y {
					return i
				}
			}
		case *ssa.Phi:
			r := -2
			for _, e := range y.Edges {
				k := root(e)
				switch {
				case k == -2:
				case k == -1 || (r >= 0 && k != r):
					return -1
				default:
					r = k
				}
			}
			return r
		case *ssa.Call:
			if bu, ok := y.Call.Value.(*ssa.Builtin); ok && bu.Name() == "append" {
				return root(y.Call.Args[0])
			}
			if h := y.Call.StaticCallee(); h != nil && h != g {
				if i := appendRootParam(h, depth+1); i >= 0 && i < len(y.Call.Args) {
					return root(y.Call.Args[i])
				}
			}
		}
		return -1
	}
	res := -2
	for _, r := range Returns(g) {
		k := root(r.Results[0])
		if k < 0 || (res >= 0 && k != res) {
			return -1
		}
		res = k
	}
	if res < 0 {
		return -1
	}
	return res
}
