package eng

import (
	"fmt"
	"go/constant"
	"go/token"
	"go/types"
	"reflect"
	"regexp"
	"sort"
	"strings"

	"golang.org/x/tools/go/ssa"
)

type route struct {
	path    string
	factory *ssa.Function
	handler *ssa.Function // the closure serving requests
	// wrappers: service functions the router applies to the constructed handler before calling it (postOnly(h()))
	wrappers []*ssa.Function
	pos      string
}

// routeTable extracts path literal -> handler from the router's string switch.
func routeTable(w *World, tb *TB) ([]route, *ssa.Function) {
	// the router is the service function that dispatches on the most path literals (found by what it does, not by
	// its name)
	var best []route
	var rf *ssa.Function
	for _, f := range w.ModuleFuncs(ApiPath) {
		if isInit(f) || f.Blocks == nil {
			continue
		}
		out := routeTableOf(w, tb, f)
		n := 0
		for _, r := range out {
			if strings.HasPrefix(r.path, "/") {
				n++
			}
		}
		if n >= 3 && n > len(best) {
			best, rf = out, f
		}
	}
	return best, rf
}

// routeTableOf: the path literal → handler pairs the function rf dispatches on.
func routeTableOf(w *World, tb *TB, rf *ssa.Function) []route {
	var out []route
	for _, b := range rf.Blocks {
		iff, ok := b.Instrs[len(b.Instrs)-1].(*ssa.If)
		if !ok {
			continue
		}
		bo, ok := iff.Cond.(*ssa.BinOp)
		if !ok || bo.Op.String() != "==" {
			continue
		}
		var k *ssa.Const
		if x, ok := bo.Y.(*ssa.Const); ok {
			k = x
		} else if x, ok := bo.X.(*ssa.Const); ok {
			k = x
		}
		if k == nil || k.Value == nil || k.Value.Kind() != constant.String {
			continue
		}
		tgt := b.Succs[0]
		for _, in := range tgt.Instrs {
			cl, ok := in.(*ssa.Call)
			if !ok {
				continue
			}
			f := cl.Call.StaticCallee()
			if f == nil || fnPkgPath(f) != ApiPath {
				continue
			}
			r := route{path: constant.StringVal(k.Value), factory: f, pos: w.InstrPos(in)}
			res := tb.Results(f, nil, nil, 0)
			if f.Signature.Results().Len() == 0 && len(f.Params) == 1 && strings.HasSuffix(f.Params[0].Type().String(), "fasthttp.RequestCtx") {
				r.handler = f // a plain handler called with the request's ctx (no constructor in between)
			}
			if len(res) == 1 {
				switch v := res[0].Val.(type) {
				case *ssa.MakeClosure:
					r.handler = v.Fn.(*ssa.Function)
				case *ssa.Function:
					r.handler = v
				}
			}
			// wrappers applied to the constructed handler in the router
			if refs := cl.Referrers(); refs != nil {
				for _, u := range *refs {
					if wc, ok := u.(*ssa.Call); ok && wc != cl {
						if g := wc.Call.StaticCallee(); g != nil && fnPkgPath(g) == ApiPath && len(wc.Call.Args) == 1 && wc.Call.Args[0] == ssa.Value(cl) {
							r.wrappers = append(r.wrappers, g)
						}
					}
				}
			}
			out = append(out, r)
			break
		}
	}
	if len(out) == 0 {
		// table form: the router looks the path up in a package-level map literal path → handler constructor and
		// calls what it finds: newHandler, ok := routes[path]; …; newHandler()(ctx)
		var table *ssa.Global
		EachInstr(rf, func(in ssa.Instruction) {
			lk, ok := in.(*ssa.Lookup)
			if !ok {
				return
			}
			if ld, ok := lk.X.(*ssa.UnOp); ok {
				if g, ok := ld.X.(*ssa.Global); ok && g.Pkg != nil && g.Pkg.Pkg.Path() == ApiPath {
					table = g
				}
			}
		})
		if table != nil {
			for _, f := range w.ModuleFuncs(ApiPath) {
				if !isInit(f) {
					continue
				}
				EachInstr(f, func(in ssa.Instruction) {
					mu, ok := in.(*ssa.MapUpdate)
					if !ok {
						return
					}
					k, ok := mu.Key.(*ssa.Const)
					if !ok || k.Value == nil || k.Value.Kind() != constant.String {
						return
					}
					// only updates of the map that initialises the table
					stored := false
					if refs := mu.Map.Referrers(); refs != nil {
						for _, r := range *refs {
							if st, ok := r.(*ssa.Store); ok && st.Addr == ssa.Value(table) && st.Val == mu.Map {
								stored = true
							}
						}
					}
					if !stored {
						return
					}
					v := mu.Value
					if ct, ok := v.(*ssa.ChangeType); ok {
						v = ct.X
					}
					fct, ok := v.(*ssa.Function)
					if !ok || fnPkgPath(fct) != ApiPath {
						return
					}
					r := route{path: constant.StringVal(k.Value), factory: fct, pos: w.InstrPos(in)}
					if res := tb.Results(fct, nil, nil, 0); len(res) == 1 {
						switch hv := res[0].Val.(type) {
						case *ssa.MakeClosure:
							r.handler = hv.Fn.(*ssa.Function)
						case *ssa.Function:
							r.handler = hv
						}
					}
					out = append(out, r)
				})
			}
		}
	}
	sort.Slice(out, func(i, j int) bool { return out[i].path < out[j].path })
	return out
}

// jsonTags: Go field name -> json tag name for a struct type (nested pointer-to-struct fields included with a prefix).
func jsonTags(t types.Type, prefix string, out map[string]string, goPrefix string) {
	if p, ok := t.Underlying().(*types.Pointer); ok {
		t = p.Elem()
	}
	st, ok := t.Underlying().(*types.Struct)
	if !ok {
		return
	}
	for i := 0; i < st.NumFields(); i++ {
		f := st.Field(i)
		tag := reflect.StructTag(st.Tag(i)).Get("json")
		name := strings.Split(tag, ",")[0]
		if name == "" {
			name = f.Name()
		}
		out[goPrefix+f.Name()] = prefix + name
		ft := f.Type()
		if p, ok := ft.Underlying().(*types.Pointer); ok {
			ft = p.Elem()
		}
		if _, isStruct := ft.Underlying().(*types.Struct); isStruct && strings.Contains(ft.String(), ApiPath) {
			jsonTags(ft, prefix+name+".", out, goPrefix+f.Name()+".")
		}
	}
}

// wireField: the JSON wire name and tag options of field i of the struct type t.
func wireField(t types.Type, i int) (string, []string) {
	if p, ok := t.Underlying().(*types.Pointer); ok {
		t = p.Elem()
	}
	st, ok := t.Underlying().(*types.Struct)
	if !ok || i >= st.NumFields() {
		return "", nil
	}
	tag, has := reflect.StructTag(st.Tag(i)).Lookup("json")
	parts := strings.Split(tag, ",")
	name := parts[0]
	if !has || name == "" {
		name = st.Field(i).Name()
	}
	if !st.Field(i).Exported() || (has && tag == "-") {
		return "-", nil
	}
	return name, parts[1:]
}

// checkRespField: the response object of handler h carries the value `want` (a library result) in a field whose
// JSON wire name is the documented `wire`, always present (no omitempty / string option). The field is found by the
// value stored in it, not by its Go name.
func checkRespField(c *Check, w *World, tb *TB, rule string, h *ssa.Function, wire, want, wantDesc, pos string) {
	fn := FuncName(h)
	found, wrongName, badOpt, altered := false, "", "", ""
	EachInstr(h, func(in ssa.Instruction) {
		st, ok := in.(*ssa.Store)
		if !ok {
			return
		}
		fa, ok := st.Addr.(*ssa.FieldAddr)
		if !ok {
			return
		}
		name, opts := wireField(fa.X.Type(), fa.Field)
		vt := tb.Of(st.Val)
		ok2 := false
		for _, alt := range vt.Alts() {
			if alt.Op == "extract" && alt.Sym == "0" && alt.Args[0].String() == want || alt.String() == want {
				ok2 = true
			}
			// a URL result is rendered by its own String method, nothing else
			if wire == "url" && alt.String() == "call((*net/url.URL).String; extract(0; "+want+"))" {
				ok2 = true
			}
			if name == wire && !ok2 && alt.ContainsStr(want) {
				altered = alt.String()
			}
		}
		if !ok2 {
			return
		}
		if name != wire {
			wrongName = name
			return
		}
		found = true
		for _, o := range opts {
			if o == "omitempty" || o == "omitzero" || o == "string" {
				badOpt = o
			}
		}
	})
	switch {
	case altered != "":
		c.Bad(rule, fn, "response."+wire, "the response field "+wire+" is "+clip(altered, 200)+": the library's result is post-processed before it is returned", pos)
	case found && badOpt != "":
		c.Bad(rule, fn, "response."+wire, "the response field "+wire+" carries the json option "+badOpt+": the result is omitted or re-encoded for some values", pos)
	case !found && wrongName != "":
		c.Bad(rule, fn, "response."+wire, "the library's result is sent under the wire name "+wrongName+", documented "+wire, pos)
	default:
		c.Decide(found, rule, fn, "response."+wire, "the response field "+wire+" is the library's result", "the response field "+wire+" is not "+wantDesc, pos)
	}
}

var reReqField = regexp.MustCompile(`field\((\w+); written\(encoding/json\.Unmarshal#1\)\)`)
var reReqField2 = regexp.MustCompile(`field\((\w+); \$(\w+)\)`)

// normReq rewrites request-field terms to $<json tag>.
func normReq(s string, tags map[string]string, goOf map[string]string) string {
	s = reReqField.ReplaceAllStringFunc(s, func(m string) string {
		f := reReqField.FindStringSubmatch(m)[1]
		if t, ok := tags[f]; ok {
			goOf["$"+t] = f
			return "$" + t
		}
		return m
	})
	for i := 0; i < 3; i++ {
		s = reReqField2.ReplaceAllStringFunc(s, func(m string) string {
			sub := reReqField2.FindStringSubmatch(m)
			parent := goOf["$"+sub[2]]
			if t, ok := tags[parent+"."+sub[1]]; ok && parent != "" {
				goOf["$"+t] = parent + "." + sub[1]
				return "$" + t
			}
			return m
		})
	}
	return s
}

type handlerInfo struct {
	tb      *TB
	fn      *ssa.Function
	tags    map[string]string
	goOf    map[string]string
	reqRoot string // "alloc" when the decode target is a per-request local
	unm     ssa.CallInstruction
	custom  []string // request types with their own JSON decoding
}

func analyseHandler(w *World, tb *TB, h *ssa.Function) *handlerInfo {
	hi := &handlerInfo{tb: tb, fn: h, tags: map[string]string{}, goOf: map[string]string{}}
	// the handler itself and the service-layer helpers it calls (a shared decode helper, generic or not) run once per
	// request: a local of any of them is a per-request object
	perReq := map[*ssa.Function]bool{h: true}
	var unit []*ssa.Function
	var collect func(f *ssa.Function, depth int)
	collect = func(f *ssa.Function, depth int) {
		unit = append(unit, f)
		if depth >= 2 {
			return
		}
		EachInstr(f, func(in ssa.Instruction) {
			if ci, ok := in.(ssa.CallInstruction); ok {
				if g := ci.Common().StaticCallee(); g != nil && g.Blocks != nil && fnPkgPath(g) == ApiPath && !perReq[g] {
					perReq[g] = true
					collect(g, depth+1)
				}
			}
		})
	}
	collect(h, 0)
	for _, uf := range unit {
		analyseDecode(w, tb, hi, h, uf, perReq)
	}
	return hi
}

func analyseDecode(w *World, tb *TB, hi *handlerInfo, h, uf *ssa.Function, perReq map[*ssa.Function]bool) {
	EachInstr(uf, func(in ssa.Instruction) {
		ci, ok := in.(ssa.CallInstruction)
		if !ok || CalleeName(ci.Common()) != "encoding/json.Unmarshal" || len(ci.Common().Args) != 2 || (hi.unm != nil && uf != h) {
			return
		}
		hi.unm = ci
		tgt := ci.Common().Args[1]
		if mi, ok := tgt.(*ssa.MakeInterface); ok {
			tgt = mi.X
		}
		jsonTags(tgt.Type(), "", hi.tags, "")
		hi.custom = customDecoders(tgt.Type(), map[types.Type]bool{}, 0)
		roots := tb.RootTerms(tb.Of(tgt), 0)
		hi.reqRoot = ""
		for _, r := range roots {
			if r.Op == "alloc" && perReq[r.Val.(*ssa.Alloc).Parent()] {
				if hi.reqRoot == "" {
					hi.reqRoot = "alloc"
				}
			} else {
				hi.reqRoot = r.Op + ":" + r.Sym
			}
		}
	})
}

// customDecoders: the types inside a decode target that bring their own JSON decoding (UnmarshalJSON /
// UnmarshalText): what such a field holds after decoding is whatever that method computes, not the JSON value the
// field mapping rules reason about (a counter decoded through a float64 loses its low bits above 2^53).
func customDecoders(t types.Type, seen map[types.Type]bool, depth int) []string {
	if depth > 6 || seen[t] {
		return nil
	}
	seen[t] = true
	var out []string
	if p, ok := t.Underlying().(*types.Pointer); ok && depth == 0 {
		t = p.Elem()
	}
	if _, isNamed := types.Unalias(t).(*types.Named); isNamed {
		ms := types.NewMethodSet(types.NewPointer(t))
		for i := 0; i < ms.Len(); i++ {
			if n := ms.At(i).Obj().Name(); n == "UnmarshalJSON" || n == "UnmarshalText" {
				if o := ms.At(i).Obj(); o.Pkg() != nil && strings.HasPrefix(o.Pkg().Path(), OtpPath) {
					out = append(out, types.TypeString(t, relQual)+"."+n)
				}
			}
		}
	}
	switch u := t.Underlying().(type) {
	case *types.Struct:
		for i := 0; i < u.NumFields(); i++ {
			out = append(out, customDecoders(u.Field(i).Type(), seen, depth+1)...)
		}
	case *types.Pointer:
		out = append(out, customDecoders(u.Elem(), seen, depth+1)...)
	case *types.Slice:
		out = append(out, customDecoders(u.Elem(), seen, depth+1)...)
	case *types.Map:
		out = append(out, customDecoders(u.Elem(), seen, depth+1)...)
	}
	return out
}

func (hi *handlerInfo) norm(t *Term) string {
	return normReq(hi.tb.Norm(t).String(), hi.tags, hi.goOf)
}

// structFields returns field -> normalised value for a struct-valued (or pointer-to-local-struct) argument.
func (hi *handlerInfo) structFields(tb *TB, t *Term) map[string]string {
	if t.Op == "call" {
		t = tb.Norm(t) // a service-layer mapping helper (req.Suite.toSuiteConfig(), req.toParam()) is read through
	}
	if t.Op == "alloc" {
		saved := tb.curLoad
		tb.curLoad = nil
		t = tb.derefOf(t, nil)
		tb.curLoad = saved
	}
	out := map[string]string{}
	if t.Op != "struct" && t.Op != "structover" {
		out["?"] = hi.norm(t)
		return out
	}
	names := strings.Split(t.Sym, ",")
	for i, n := range names {
		out[n] = hi.norm(t.Args[i])
	}
	return out
}

const (
	tAlgo   = "call(github.com/ja7ad/otp.AlgorithmFromStr; $algorithm)"
	tDigits = "call(github.com/ja7ad/otp.DigitsFromStr; $digits)"
	tTime   = "ite(bin(>; $timestamp; const(0)); call(time.Unix; $timestamp; const(0)); call(time.Now))"
)

func oneOf(s string, alts ...string) bool {
	for _, a := range alts {
		if s == a {
			return true
		}
	}
	return false
}

var secretForms = []string{"$secret", "call(strings.TrimSpace; $secret)"}
var periodForms = []string{"$period", "phi(const(30); $period)", "ite(bin(==; const(0); $period); const(30); $period)"}

type fieldSpec struct {
	name  string
	forms []string
}

func checkStructArg(c *Check, w *World, rule, fn, what string, got map[string]string, specs []fieldSpec, pos string) {
	seen := map[string]bool{}
	for _, sp := range specs {
		seen[sp.name] = true
		g, ok := got[sp.name]
		if !ok {
			c.Bad(rule, fn, what+"."+sp.name, fmt.Sprintf("%s.%s is not set from the request (expected %s): the request's value is dropped and the library's zero/default is used", what, sp.name, sp.forms[0]), pos)
			continue
		}
		c.Decide(oneOf(g, sp.forms...), rule, fn, what+"."+sp.name, what+"."+sp.name+" ← "+sp.forms[0], fmt.Sprintf("%s.%s is set from %s, expected %s: a field is crossed or transformed", what, sp.name, clip(g, 160), sp.forms[0]), pos)
	}
	for k, g := range got {
		if !seen[k] && libIgnoresParamField(w, what, k) {
			c.OK(rule, fn, what+"."+k, what+"."+k+" is set, but the library operation never reads that field of its parameter set", pos)
			continue
		}
		if !seen[k] {
			c.Bad(rule, fn, what+"."+k, fmt.Sprintf("%s.%s is set (%s) although the endpoint documents no such parameter", what, k, clip(g, 120)), pos)
		}
	}
}

func suiteSpecs() []fieldSpec {
	return []fieldSpec{
		{"Hash", []string{"call(github.com/ja7ad/otp.AlgorithmFromStr; $suite.hash_function)"}},
		{"Digits", []string{"$suite.code_digits"}},
		{"Challenge", []string{"$suite.challenge_format", "conv(otp.ChallengeFormat; $suite.challenge_format)"}},
		{"IncludeCounter", []string{"$suite.include_counter"}},
		{"IncludeChallenge", []string{"$suite.include_challenge"}},
		{"IncludePassword", []string{"$suite.include_password"}},
		{"IncludeSession", []string{"$suite.include_session"}},
		{"IncludeTimestamp", []string{"$suite.include_timestamp"}},
		{"PasswordHash", []string{"$suite.password_hash", "conv(otp.PasswordHashAlgorithm; $suite.password_hash)"}},
		{"TimeStep", []string{"$suite.timestep"}},
	}
}

// checkRESTEndpoints verifies routing, method gate, field mapping and per-request decoding of the given
// endpoints (all ten when none is named). Used by C18 and, for the endpoint that exposes their
// operation, by the library properties.
// rulePrechecks (REST.6): before the library sees them, the secret and the submitted code are only tested
// for presence. Every branch condition in the handler and in the service-layer functions it calls
// (conditions of callees are read with the caller's arguments substituted) that depends on the Secret or
// Code request field other than through a library result must be an emptiness test of the (trimmed) field:
// a service-layer pre-check that judges the spelling would make the endpoint disagree with the library on
// which spellings are accepted.
func rulePrechecks(c *Check, w *World, tb *TB, rule string, h *ssa.Function, needSecret bool) {
	fn := FuncName(h)
	isLib := func(t *Term) bool {
		if t.Op == "calldyn" && len(t.Args) > 0 {
			// a call through a variable holding library operations only
			all := false
			for _, a := range t.Args[0].Alts() {
				fv, ok := a.Val.(*ssa.Function)
				if a.Op != "fn" || !ok || fnPkgPath(fv) != OtpPath {
					return false
				}
				all = true
			}
			return all
		}
		if t.Op != "call" {
			return false
		}
		cl, ok := t.Val.(*ssa.Call)
		if !ok || cl.Call.StaticCallee() == nil {
			return false
		}
		g := cl.Call.StaticCallee()
		if fnPkgPath(g) == OtpPath {
			return true
		}
		// a service-layer helper returning only an error: which error it returns is decided by its own
		// branch conditions, which are walked with the arguments substituted
		return w.InModule(g) && g.Blocks != nil && g.Signature.Results().Len() == 1 && isErrorType(g.Signature.Results().At(0).Type())
	}
	var mentions func(t *Term, field string) bool
	mentions = func(t *Term, field string) bool {
		if isLib(t) {
			return false
		}
		if t.Op == "field" && t.Sym == field {
			return true
		}
		for _, a := range t.Args {
			if mentions(a, field) {
				return true
			}
		}
		return false
	}
	presence := func(t *Term, field string) bool {
		if t.Op != "bin" || (t.Sym != "==" && t.Sym != "!=") || len(t.Args) != 2 {
			return false
		}
		x := t.Args[1]
		if !(t.Args[0].IsConst() && t.Args[0].Sym == `""`) {
			if !(t.Args[1].IsConst() && t.Args[1].Sym == `""`) {
				return false
			}
			x = t.Args[0]
		}
		if x.Op == "call" && x.Sym == "strings.TrimSpace" && len(x.Args) == 1 {
			x = x.Args[0]
		}
		return x.Op == "field" && x.Sym == field
	}
	n := 0
	seen := map[string]bool{}
	var walk func(f *ssa.Function, e *Env, depth int)
	walk = func(f *ssa.Function, e *Env, depth int) {
		if depth > 4 || f.Blocks == nil {
			return
		}
		EachInstr(f, func(in ssa.Instruction) {
			switch x := in.(type) {
			case *ssa.If:
				t0 := tb.Val(x.Cond, e)
				for _, field := range []string{"Secret", "Code"} {
					if !mentions(t0, field) {
						continue
					}
					t := tb.Norm(t0) // boolean helpers such as isBlank(s) are read through
					key := FuncName(f) + ":" + field + ":" + clip(t.String(), 80)
					if seen[key] {
						continue
					}
					seen[key] = true
					n++
					c.Decide(presence(t, field), rule, fn, "precheck:"+key, "the "+field+" field is only tested for presence before the library sees it", "the service layer judges the "+field+" field itself ("+clip(t.String(), 160)+"): spellings the library accepts can be refused (or the reverse), so the endpoint no longer agrees with the library", w.InstrPos(in))
				}
			case ssa.CallInstruction:
				g := x.Common().StaticCallee()
				if g == nil || !w.InModule(g) || fnPkgPath(g) == OtpPath {
					return
				}
				var args []*Term
				for _, a := range x.Common().Args {
					args = append(args, tb.Val(a, e))
				}
				walk(g, &Env{Fn: g, Params: args}, depth+1)
			}
		})
	}
	walk(h, nil, 0)
	if n == 0 && needSecret {
		c.Unk(rule, fn, "precheck", "no presence test of the secret found in the handler or its validators", w.Pos(h.Pos()))
	}
}

// ruleRawSuiteConsistency: in the service layer every library call that takes the raw suite text (the
// known-suite test, the lookup, the instantiation) takes the request's raw_suite field itself. A test on a
// normalised copy (trimmed, folded) followed by a use of the original lets names through that the library then
// does not know: MustRawSuite panics, SuiteConfigFromRaws answers with the zero configuration.
func ruleRawSuiteConsistency(c *Check, w *World, tb *TB, rule string) {
	if w.SPkgs[ApiPath] == nil {
		return
	}
	takesRaw := map[string]bool{"IsKnownSuite": true, "MustRawSuite": true, "SuiteConfigFromRaws": true, "NewRawSuite": true}
	n := 0
	routes, _ := routeTable(w, tb)
	for _, r := range routes {
		h := r.handler
		if h == nil {
			continue
		}
		seen := map[string]bool{}
		var walk func(f *ssa.Function, e *Env, depth int)
		walk = func(f *ssa.Function, e *Env, depth int) {
			if depth > 4 || f.Blocks == nil {
				return
			}
			EachInstr(f, func(in ssa.Instruction) {
				ci, ok := in.(ssa.CallInstruction)
				if !ok {
					return
				}
				g := ci.Common().StaticCallee()
				if g == nil || !w.InModule(g) {
					return
				}
				if fnPkgPath(g) == OtpPath {
					if takesRaw[g.Name()] && len(ci.Common().Args) == 1 {
						t := tb.Val(ci.Common().Args[0], e)
						key := g.Name() + "@" + FuncName(f)
						if seen[key] {
							return
						}
						seen[key] = true
						n++
						ok := t.Op == "field" && t.Sym == "RawSuite"
						c.Decide(ok, rule, FuncName(h), "raw-suite-text:"+key, "the library is handed the request's raw_suite field itself", "otp."+g.Name()+" is handed "+clip(t.String(), 160)+", not the raw_suite field itself: the known-suite test and the later use can see different text", w.InstrPos(in))
					}
					return
				}
				var args []*Term
				for _, a := range ci.Common().Args {
					args = append(args, tb.Val(a, e))
				}
				walk(g, &Env{Fn: g, Params: args}, depth+1)
			})
		}
		walk(h, nil, 0)
		// SuiteConfigFromRaws answers with the zero configuration for a name that is not in the table: a handler that
		// reports its result must have asked the table itself (IsKnownSuite) whether the name is there — a gate that
		// merely parses the name lets well-formed unregistered names through to an all-zero answer
		lookup, member := false, false
		for k := range seen {
			if strings.HasPrefix(k, "SuiteConfigFromRaws@") {
				lookup = true
			}
			if strings.HasPrefix(k, "IsKnownSuite@") {
				member = true
			}
		}
		if lookup {
			c.Decide(member, rule, FuncName(h), "lookup-gated-by-membership", "the table lookup is preceded by the table's own membership test on the same text", "SuiteConfigFromRaws is used without IsKnownSuite on the request path: a name that parses but is not registered is answered with an all-zero configuration", w.Pos(h.Pos()))
		}
	}
	if n == 0 {
		c.Unk(rule, "api", "raw-suite-text", "no service-layer call taking the raw suite text found", "")
	}
}

func checkRESTEndpoints(c *Check, w *World, tb *TB, ef *Effects, pfx string, only ...string) {
	if w.SPkgs[ApiPath] == nil {
		return
	}
	restRules(c, w, tb, ef, pfx, only)
}

func runC18(c *Check, w *World) {
	if w.SPkgs[ApiPath] == nil {
		c.Fatal("package %s not loaded", ApiPath)
		return
	}
	tb := NewTB(w)
	ef := NewEffects(tb)
	restRules(c, w, tb, ef, "R18", nil)
	// what the endpoints reflect must itself be right: the registry entry of each advertised name (the
	// /ocra/suite and raw_suite answers) and the library's URL builder (the /otp/url answer)
	ruleRegistryFidelity(c, w, "R18.8")
	ruleChainTransparent(c, w, tb, "R18.1")
	ruleWireEnums(c, w, "R18.9")
	c.Floor("R18.9", 11)
	runC16(c, w)
	c.Floor("R18.1", 20)
	c.Floor("R18.2", 60)
	c.Floor("R18.4", 2)
	c.Floor("R18.5", 20)
}

func restRules(c *Check, w *World, tb *TB, ef *Effects, pfx string, only []string) {
	sel := func(path string) bool {
		if len(only) == 0 {
			return true
		}
		for _, o := range only {
			if o == path {
				return true
			}
		}
		return false
	}
	full := len(only) == 0
	routes, rf := routeTable(w, tb)
	if rf == nil {
		c.Fatal("anchor not found: api.routers")
		return
	}
	wantLib := map[string][]string{
		"/totp/generate": {"GenerateTOTP"}, "/totp/validate": {"ValidateTOTP"}, "/hotp/generate": {"GenerateHOTP"}, "/hotp/validate": {"ValidateHOTP"},
		"/ocra/generate": {"GenerateOCRA"}, "/ocra/validate": {"ValidateOCRA"}, "/ocra/suites": {"ListSuites"}, "/ocra/suite": {"SuiteConfigFromRaws"},
		"/otp/url": {"GenerateHOTPURL", "GenerateTOTPURL"}, "/otp/secret": {"RandomSecret"},
	}
	wantMethod := map[string]string{"/ocra/suites": "IsGet", "/otp/secret": "IsGet", "/": "IsGet"}
	byPath := map[string]route{}
	for _, r := range routes {
		byPath[r.path] = r
	}
	libCallsOf := func(h *ssa.Function) map[string][]Hit {
		out := map[string][]Hit{}
		for _, hit := range tb.Reach(h, func(ci ssa.CallInstruction) bool {
			f := ci.Common().StaticCallee()
			if f != nil {
				return fnPkgPath(f) == OtpPath
			}
			// a call through a variable that holds one of several library operations (gen := otp.GenerateTOTPURL …)
			return !ci.Common().IsInvoke()
		}, 1) {
			if f := hit.Call.Common().StaticCallee(); f != nil {
				out[f.Name()] = append(out[f.Name()], hit)
				continue
			}
			ft := tb.Val(hit.Call.Common().Value, hit.Env)
			var names []string
			for _, a := range ft.Alts() {
				fv, ok := a.Val.(*ssa.Function)
				if a.Op != "fn" || !ok || fnPkgPath(fv) != OtpPath {
					names = nil
					break
				}
				names = append(names, fv.Name())
			}
			for _, n := range names {
				out[n] = append(out[n], hit)
			}
		}
		return out
	}
	var handlers []*ssa.Function
	for path, libs := range wantLib {
		if !sel(path) {
			continue
		}
		r, ok := byPath[path]
		if !ok || r.handler == nil {
			c.Bad(pfx+".1", FuncName(rf), "route:"+path, "the documented route "+path+" is not served by a handler", w.Pos(rf.Pos()))
			continue
		}
		handlers = append(handlers, r.handler)
		calls := libCallsOf(r.handler)
		okLib := true
		for _, l := range libs {
			if len(calls[l]) == 0 {
				okLib = false
			}
		}
		// no other primary operation of the library may be called
		primary := map[string]bool{"GenerateTOTP": true, "ValidateTOTP": true, "GenerateHOTP": true, "ValidateHOTP": true, "GenerateOCRA": true, "ValidateOCRA": true, "ListSuites": true, "SuiteConfigFromRaws": true, "GenerateHOTPURL": true, "GenerateTOTPURL": true, "RandomSecret": true}
		for n := range calls {
			if primary[n] && !oneOf(n, libs...) {
				okLib = false
			}
		}
		var got []string
		for n := range calls {
			if primary[n] {
				got = append(got, n)
			}
		}
		sort.Strings(got)
		c.Decide(okLib, pfx+".1", FuncName(rf), "route:"+path, "route → handler calling "+strings.Join(libs, "/"), fmt.Sprintf("route %s is served by %s, which calls %v instead of %v", path, FuncName(r.factory), got, libs), r.pos)
		// method gate
		m := wantMethod[path]
		if m == "" {
			m = "IsPost"
		}
		gate := false
		if iff, ok := r.handler.Blocks[0].Instrs[len(r.handler.Blocks[0].Instrs)-1].(*ssa.If); ok {
			t := tb.Of(iff.Cond)
			if strings.Contains(t.String(), "github.com/valyala/fasthttp.RequestCtx)."+m+";") {
				gate = true
			}
		}
		for _, wf := range r.wrappers {
			if !gate && methodGateWrapper(tb, wf, m) {
				gate = true
			}
		}
		c.Decide(gate, pfx+".1", FuncName(r.handler), "method-gate:"+m, "the handler starts with the "+m+" gate (or the router applies a wrapper that lets only such requests through)", "the handler does not start by testing "+m, w.Pos(r.handler.Pos()))
	}
	// distinct handlers
	seenH := map[*ssa.Function]string{}
	for _, r := range routes {
		if !full {
			break
		}
		if r.handler == nil {
			continue
		}
		if p, dup := seenH[r.handler]; dup {
			c.Bad(pfx+".1", FuncName(rf), "route:"+r.path, "routes "+p+" and "+r.path+" share one handler", r.pos)
		}
		seenH[r.handler] = r.path
	}

	// ---- R18.2 field mapping ---------------------------------------------------------------------
	paramSpecs := func(fields ...string) []fieldSpec {
		var out []fieldSpec
		for _, f := range fields {
			switch f {
			case "Algorithm":
				out = append(out, fieldSpec{f, []string{tAlgo}})
			case "Digits":
				out = append(out, fieldSpec{f, []string{tDigits}})
			case "Period":
				out = append(out, fieldSpec{f, periodForms})
			case "Skew":
				out = append(out, fieldSpec{f, []string{"$skew"}})
			}
		}
		return out
	}
	if sel("/ocra/generate") || sel("/ocra/validate") || sel("/ocra/suite") {
		ruleRawSuiteConsistency(c, w, tb, pfx+".7")
	}
	prechecked := map[*ssa.Function]bool{}
	checkArgs := func(path, lib string, argSpecs []interface{}, respField string) {
		r, ok := byPath[path]
		if !ok || r.handler == nil || !sel(path) {
			return
		}
		hi := analyseHandler(w, tb, r.handler)
		fn := FuncName(r.handler)
		if !prechecked[r.handler] {
			prechecked[r.handler] = true
			rulePrechecks(c, w, tb, pfx+".6", r.handler, lib != "SuiteConfigFromRaws" && lib != "ListSuites" && lib != "RandomSecret")
		}
		if hi.unm != nil {
			c.Decide(len(hi.custom) == 0, pfx+".2", fn, "request-decoding", "the request fields are decoded by the standard JSON rules", "request fields are decoded by the service's own "+strings.Join(hi.custom, ", ")+": what the library receives is what that method computes from the JSON text, not the field's value", w.InstrPos(hi.unm))
		}
		calls := libCallsOf(r.handler)[lib]
		if len(calls) != 1 {
			c.Bad(pfx+".2", fn, "call:"+lib, fmt.Sprintf("%d calls of otp.%s in the handler of %s, expected one", len(calls), lib, path), w.Pos(r.handler.Pos()))
			return
		}
		h := calls[0]
		pos := w.InstrPos(h.Call)
		for i, sp := range argSpecs {
			if i >= len(h.Args) {
				break
			}
			what := fmt.Sprintf("%s.arg%d", lib, i)
			switch s := sp.(type) {
			case []string:
				g := hi.norm(h.Args[i])
				c.Decide(oneOf(g, s...), pfx+".2", fn, what, what+" ← "+s[0], fmt.Sprintf("%s is %s, expected %s", what, clip(g, 200), s[0]), pos)
			case []fieldSpec:
				checkStructArg(c, w, pfx+".2", fn, what, hi.structFields(tb, h.Args[i]), s, pos)
			case func(string) string:
				g := hi.norm(h.Args[i])
				if why := s(g); why != "" {
					c.Bad(pfx+".2", fn, what, why, pos)
				} else {
					c.OK(pfx+".2", fn, what, "argument as documented", pos)
				}
			}
		}
		// response carries the library's result, under its documented wire name
		if respField != "" {
			checkRespField(c, w, tb, pfx+".2", r.handler, respField, tb.Of(h.Call.Value()).String(), "the first result of otp."+lib, pos)
		}
		// the decode target is a per-request local
		c.Decide(hi.reqRoot == "alloc", pfx+".5", fn, "request-object", "the request is decoded into a fresh per-request local", "the request is decoded into "+hi.reqRoot+": fields omitted by a request keep the values of an earlier request", w.Pos(r.handler.Pos()))
	}
	checkArgs("/totp/generate", "GenerateTOTP", []interface{}{secretForms, []string{tTime}, paramSpecs("Algorithm", "Digits", "Period")}, "code")
	checkArgs("/totp/validate", "ValidateTOTP", []interface{}{secretForms, []string{"$code"}, []string{tTime}, paramSpecs("Algorithm", "Digits", "Period", "Skew")}, "valid")
	checkArgs("/hotp/generate", "GenerateHOTP", []interface{}{secretForms, []string{"$counter"}, paramSpecs("Algorithm", "Digits")}, "code")
	checkArgs("/hotp/validate", "ValidateHOTP", []interface{}{secretForms, []string{"$code"}, []string{"$counter"}, paramSpecs("Algorithm", "Digits", "Skew")}, "valid")
	urlSpecs := []fieldSpec{{"Issuer", []string{"$issuer"}}, {"Secret", secretForms}, {"Period", []string{"$period"}}, {"Digits", []string{tDigits}}, {"Algorithm", []string{tAlgo}}, {"AccountName", []string{"$account_name"}}}
	checkArgs("/otp/url", "GenerateTOTPURL", []interface{}{urlSpecs}, "url")
	checkArgs("/otp/url", "GenerateHOTPURL", []interface{}{urlSpecs}, "url")
	var suiteArgsSeen []string
	suiteArg := func(g string) string {
		// the suite handed to the library: raw_suite, when given, selects the registered suite; otherwise the
		// structured description builds one; otherwise nil (rejected by the library)
		suiteArgsSeen = append(suiteArgsSeen, g)
		if !strings.Contains(g, "call(github.com/ja7ad/otp.MustRawSuite; $raw_suite)") {
			return "raw_suite does not select the registered suite of that name: " + clip(g, 200)
		}
		if !strings.Contains(g, "call(github.com/ja7ad/otp.NewSuite;") {
			return "the structured suite description is not used: " + clip(g, 200)
		}
		// precedence, read off the gated term: ite(raw_suite == ""; <structured>; MustRawSuite(raw_suite))
		rawEmpty := []string{`bin(==; const(""); $raw_suite)`, `bin(==; $raw_suite; const(""))`}
		rawSet := []string{`bin(!=; const(""); $raw_suite)`, `bin(!=; $raw_suite; const(""))`}
		must := "call(github.com/ja7ad/otp.MustRawSuite; $raw_suite)"
		okTop := false
		for _, cnd := range rawEmpty {
			if strings.HasPrefix(g, "ite("+cnd+"; ") && strings.HasSuffix(g, "; "+must+")") {
				okTop = true
			}
		}
		for _, cnd := range rawSet {
			if strings.HasPrefix(g, "ite("+cnd+"; "+must+"; ") {
				okTop = true
			}
		}
		if !okTop {
			return "a given raw_suite does not take precedence over the structured description (the two endpoints must resolve the suite alike): " + clip(g, 200)
		}
		return ""
	}
	inputArg := func(g string) string {
		want := "extract(0; call(github.com/ja7ad/otp.HexInputToOCRA; $input.counter_hex; $input.challenge_hex; $input.password_hex; $input.session_info_hex; $input.timestamp_hex))"
		if g != want {
			return "the OCRA input is " + clip(g, 300) + ", expected the five hex fields in the order counter, challenge, password, session, timestamp"
		}
		return ""
	}
	checkArgs("/ocra/generate", "GenerateOCRA", []interface{}{secretForms, suiteArg, inputArg}, "code")
	checkArgs("/ocra/validate", "ValidateOCRA", []interface{}{secretForms, []string{"$code"}, suiteArg, inputArg}, "valid")
	if len(suiteArgsSeen) == 2 {
		c.Decide(suiteArgsSeen[0] == suiteArgsSeen[1], pfx+".2", "api", "ocra-suite-resolution-agrees", "/ocra/generate and /ocra/validate resolve the suite from the request identically", "/ocra/generate and /ocra/validate resolve the suite differently: a code generated for a request need not validate for the same request", "")
	}
	for _, path := range []string{"/ocra/generate", "/ocra/validate"} {
		checkArgs(path, "NewSuite", []interface{}{suiteSpecs()}, "")
		checkArgs(path, "MustRawSuite", []interface{}{[]string{"$raw_suite"}}, "")
	}
	checkArgs("/ocra/suite", "SuiteConfigFromRaws", []interface{}{[]string{"$raw_suite"}}, "")
	// /ocra/suite response mapping
	if r, ok := byPath["/ocra/suite"]; ok && r.handler != nil && sel("/ocra/suite") {
		fn := FuncName(r.handler)
		calls := libCallsOf(r.handler)["SuiteConfigFromRaws"]
		if len(calls) == 1 {
			cfg := tb.Of(calls[0].Call.Value()).String()
			want := map[string][]string{
				"hash_function": {"call((github.com/ja7ad/otp.Algorithm).String; field(Hash; " + cfg + "))"}, "code_digits": {"field(Digits; " + cfg + ")"},
				"challenge_format": {"field(Challenge; " + cfg + ")", "conv(int; field(Challenge; " + cfg + "))"}, "include_counter": {"field(IncludeCounter; " + cfg + ")"},
				"include_challenge": {"field(IncludeChallenge; " + cfg + ")"}, "include_password": {"field(IncludePassword; " + cfg + ")"}, "include_session": {"field(IncludeSession; " + cfg + ")"},
				"include_timestamp": {"field(IncludeTimestamp; " + cfg + ")"}, "password_hash": {"field(PasswordHash; " + cfg + ")", "conv(int; field(PasswordHash; " + cfg + "))"}, "timestep": {"field(TimeStep; " + cfg + ")"},
			}
			got := map[string]string{}
			EachInstr(r.handler, func(in ssa.Instruction) {
				if st, ok := in.(*ssa.Store); ok {
					if fa, ok := st.Addr.(*ssa.FieldAddr); ok {
						name, opts := wireField(fa.X.Type(), fa.Field)
						got[name] = tb.Of(st.Val).String()
						for _, o := range opts {
							// a zero password hash or time step means "none" and is documented as omitted; any other
							// description field is always present
							if (o == "omitempty" || o == "omitzero") && name != "password_hash" && name != "timestep" || o == "string" {
								got[name] = "json option " + o + " on " + got[name]
							}
						}
					}
				}
			})
			var names []string
			for n := range want {
				names = append(names, n)
			}
			sort.Strings(names)
			for _, n := range names {
				c.Decide(oneOf(got[n], want[n]...), pfx+".2", fn, "response."+n, "suite description field "+n+" reflects the registry entry's field", "response field "+n+" is "+clip(got[n], 160)+", expected "+want[n][0], w.Pos(r.handler.Pos()))
			}
		}
	}
	// /otp/secret
	if r, ok := byPath["/otp/secret"]; ok && r.handler != nil && sel("/otp/secret") {
		fn := FuncName(r.handler)
		calls := libCallsOf(r.handler)["RandomSecret"]
		if len(calls) == 1 {
			g := calls[0].Args[0].String()
			ok := strings.HasPrefix(g, "call(github.com/ja7ad/otp.AlgorithmFromStr; conv(string; call((*github.com/valyala/fasthttp.Args).Peek;") && strings.Contains(g, `const("algorithm")`)
			c.Decide(ok, pfx+".2", fn, "RandomSecret.arg0", "hash ← AlgorithmFromStr(query algorithm)", "RandomSecret is called with "+clip(g, 200), w.InstrPos(calls[0].Call))
			pos := w.InstrPos(calls[0].Call)
			checkRespField(c, w, tb, pfx+".2", r.handler, "secret", tb.Of(calls[0].Call.Value()).String(), "the first result of otp.RandomSecret", pos)
			// the label returned with the secret names the hash the secret was sized for
			checkRespField(c, w, tb, pfx+".2", r.handler, "algorithm", "call((github.com/ja7ad/otp.Algorithm).String; "+g+")", "the name of the hash handed to otp.RandomSecret", pos)
		}
	}
	// /ocra/suites
	if r, ok := byPath["/ocra/suites"]; ok && r.handler != nil && sel("/ocra/suites") {
		checkRespField(c, w, tb, pfx+".2", r.handler, "suites", "call(github.com/ja7ad/otp.ListSuites)", "the library's ListSuites()", w.Pos(r.handler.Pos()))
	}

	if !full {
		// statelessness of the selected handlers only
		var hs []*ssa.Function
		for _, r := range routes {
			if r.handler != nil && sel(r.path) {
				for f := range w.Reachable(r.handler) {
					if fnPkgPath(f) == ApiPath {
						hs = append(hs, f)
					}
				}
			}
		}
		sortFuncs(hs)
		ruleNoPkgState(c, w, tb, ef, pfx+".5", hs)
		for _, f := range hs {
			for _, g := range poolCalls(f, "Get") {
				c.Bad(pfx+".5", FuncName(f), "pooled-request-state", "the service layer takes objects from a sync.Pool: fields or buffers left by an earlier request can reach a later one", w.InstrPos(g))
			}
		}
		return
	}
	// ---- R18.4 string -> enum fall-backs -----------------------------------------------------------
	checkFallback := func(name string, want map[string]string, def string) {
		f := w.Func(OtpPath, name)
		if f == nil {
			c.Fatal("anchor not found: %s", name)
			return
		}
		got := map[string]string{}
		for _, e := range stringSwitchTables(w, tb, f) {
			if e.Target == "return" || e.Target == "phi" {
				got[e.Lit] = e.Val
			}
		}
		// the table may be a never-written package-level map literal looked up with the argument:
		// if v, ok := table[s]; ok { return v }; return default
		mapDef := ""
		if len(got) == 0 {
			P0 := fmt.Sprintf("param(%s#0)", FuncName(f))
			tabSym, okShape := "", true
			nLook, nDef := 0, 0
			for _, rt := range Returns(f) {
				if len(rt.Results) != 1 {
					okShape = false
					continue
				}
				t := tb.Of(rt.Results[0])
				under, against := false, false
				for _, cd := range CondsAt(rt.Block()) {
					ct := tb.Of(cd.V)
					if ct.Op == "lookupok" && len(ct.Args) == 2 && ct.Args[0].Op == "gval" && ct.Args[1].String() == P0 {
						if tabSym == "" || tabSym == ct.Args[0].Sym {
							tabSym = ct.Args[0].Sym
							if cd.Pos {
								under = true
							} else {
								against = true
							}
						}
					}
				}
				switch {
				case t.Op == "lookup" && len(t.Args) == 2 && t.Args[0].Op == "gval" && t.Args[1].String() == P0 && under && t.Args[0].Sym == tabSym:
					nLook++
				case t.IsConst() && against:
					nDef++
					mapDef = t.Sym
				default:
					okShape = false
				}
			}
			if okShape && nLook == 1 && nDef == 1 && strings.HasPrefix(tabSym, "otp.") {
				name := strings.TrimPrefix(tabSym, "otp.")
				var g *ssa.Global
				if sp := w.SPkgs[OtpPath]; sp != nil {
					g, _ = sp.Members[name].(*ssa.Global)
				}
				if e, info := w.GlobalInit(OtpPath, name); e != nil && g != nil && w.GlobalNeverWritten(g) {
					if lit := EvalLit(e, info); lit != nil && lit.Kind == "map" {
						for i, k := range lit.Keys {
							ks, isStr := k.Str()
							if !isStr || i >= len(lit.Elems) || lit.Elems[i] == nil || lit.Elems[i].Kind != "const" || lit.Elems[i].Const == nil {
								got["?"] = "?"
								continue
							}
							got[ks] = lit.Elems[i].Const.ExactString()
						}
					}
				}
			}
			if len(got) == 0 {
				mapDef = ""
			}
		}
		// a documented spelling without a case of its own is served by the default (case "SHA1" next to default SHA1
		// is redundant); an undocumented spelling with a case is a deviation
		ok := true
		for k := range got {
			if _, doc := want[k]; !doc {
				ok = false
			}
		}
		for k, v := range want {
			g, has := got[k]
			if !has {
				g = def
			}
			if g != v {
				ok = false
			}
		}
		// default: the path on which no case matches
		defOK := false
		if paths, err := EnumPaths(f, 64); err == nil {
			for _, p := range paths {
				all := true
				for _, pc := range p.Conds {
					if pc.Taken {
						all = false
					}
				}
				if all && p.Ret != nil {
					defOK = tb.Of(p.Result(0)).String() == "const("+def+")"
				}
			}
		}
		if mapDef != "" {
			defOK = mapDef == def
		}
		c.Decide(ok && defOK, pfx+".4", FuncName(f), "fallback-table", "spellings map to their values and anything else falls back to the documented default", fmt.Sprintf("table is %v (default ok: %v), documented %v default %s", got, defOK, want, def), w.Pos(f.Pos()))
	}
	checkFallback("AlgorithmFromStr", map[string]string{"SHA1": "0", "SHA256": "1", "SHA512": "2"}, "0")
	checkFallback("DigitsFromStr", map[string]string{"6": "6", "8": "8", "9": "9", "10": "10"}, "6")

	ruleRESTStateless(c, w, tb, ef, pfx+".5", false)
}

// ruleRESTStateless: the service layer keeps no request state — no package-level variable written, no pooled
// request objects, no locks; with perHandler, every handler decodes its request into a fresh per-request local
// (shared with C11/C12, where a request object shared between requests is the REST form of "a result influenced
// by another call's data").
func ruleRESTStateless(c *Check, w *World, tb *TB, ef *Effects, rule string, perHandler bool) {
	if w.SPkgs[ApiPath] == nil {
		return
	}
	apiFns := w.ModuleFuncs(ApiPath)
	var nonLife []*ssa.Function
	for _, f := range apiFns {
		// server lifecycle (Start/Stop/NewServer) manages its own object, not request state
		if strings.Contains(FuncName(f), "Server)") || f.Name() == "NewServer" {
			continue
		}
		nonLife = append(nonLife, f)
	}
	ruleNoPkgState(c, w, tb, ef, rule, nonLife)
	for _, f := range nonLife {
		for _, g := range poolCalls(f, "Get") {
			c.Bad(rule, FuncName(f), "pooled-request-state", "the service layer takes objects from a sync.Pool: fields or buffers left by an earlier request can reach a later one", w.InstrPos(g))
		}
	}
	ruleNoConcurrencyPrimitives(c, w, rule, nonLife)
	if perHandler {
		n := 0
		for _, f := range nonLife {
			hi := analyseHandler(w, tb, f)
			if hi.unm == nil {
				continue
			}
			n++
			c.Decide(hi.reqRoot == "alloc", rule, FuncName(f), "request-object", "the request is decoded into a fresh per-request local", "the request is decoded into "+hi.reqRoot+": fields omitted by a request keep the values of an earlier request, and concurrent requests write the same object", w.InstrPos(hi.unm))
		}
		if n == 0 {
			c.Unk(rule, "api", "request-object", "no request decoding (json.Unmarshal) found in the service layer", "")
		}
	}
}

func init() {
	register(&propDef{
		id:    "C18",
		level: "other",
		explain: "R18.1 the router's path switch maps the ten documented literals to ten distinct handlers, each of which calls exactly the library operation of that endpoint and starts with its method gate; R18.2 per endpoint, with request fields identified by their JSON tags (struct tags of the decode target of json.Unmarshal), every argument of the library call and every field of the parameter struct is the documented request field through the documented transform " +
			"(TrimSpace on secrets optional, AlgorithmFromStr/DigitsFromStr, timestamp>0 ? Unix(timestamp,0) : Now, period default 30 optional, ten suite fields, five hex input fields in order, raw_suite override), no undocumented field is set, and the response field is the library's result; the /ocra/suite response mirrors the registry entry field by field; " +
			"R18.4 the string→enum fall-back tables are as documented (unknown → SHA1 / 6); R18.5 the service layer keeps no request state: requests are decoded into per-request locals, no package-level variable is written, no sync.Pool objects, no locks. " +
			"Not decided: HTTP framing, JSON decoding semantics, fasthttp's concurrency; swagger text is not compared. " +
			"Response fields are identified by the value stored in them and must carry the documented wire name without omitempty/string options (code, valid, url, secret, algorithm, suites, the suite description); R18.9 the exported enumerators have the documented numeric wire values. The router and the other fixed roles of the service layer are found by what they do, not by name.",
		trusted:  []string{"encoding/json decodes fields by their struct tags", "fasthttp delivers the request body and query arguments unchanged"},
		quick:    []Config{CfgNative},
		thorough: []Config{CfgNative, Cfg386},
		run:      runC18,
	})
}

// methodGateWrapper: wf(next) returns a handler that starts by testing ctx.<m>() and calls next(ctx) only where
// that test holds.
func methodGateWrapper(tb *TB, wf *ssa.Function, m string) bool {
	if wf == nil || len(wf.Params) != 1 || len(wf.AnonFuncs) != 1 {
		return false
	}
	inner := wf.AnonFuncs[0]
	if len(inner.Params) != 1 || len(inner.Blocks) == 0 {
		return false
	}
	iff, ok := inner.Blocks[0].Instrs[len(inner.Blocks[0].Instrs)-1].(*ssa.If)
	if !ok || !strings.Contains(tb.Of(iff.Cond).String(), "github.com/valyala/fasthttp.RequestCtx)."+m+";") {
		return false
	}
	okAll, n := true, 0
	EachInstr(inner, func(in ssa.Instruction) {
		cl, ok := in.(*ssa.Call)
		if !ok || cl.Call.StaticCallee() != nil || cl.Call.IsInvoke() {
			return
		}
		if _, isBuiltin := cl.Call.Value.(*ssa.Builtin); isBuiltin {
			return
		}
		// a dynamic call: the next handler
		n++
		under := false
		for _, cd := range CondsAt(cl.Block()) {
			v, pos := cd.V, cd.Pos
			for {
				if u, isNot := v.(*ssa.UnOp); isNot && u.Op == token.NOT {
					v, pos = u.X, !pos
					continue
				}
				break
			}
			if mc, isCall := v.(*ssa.Call); isCall && pos && strings.HasSuffix(CalleeName(mc.Common()), "fasthttp.RequestCtx)."+m) {
				under = true
			}
		}
		if !under {
			okAll = false
		}
	})
	return okAll && n > 0
}

// libIgnoresParamField: what = "<LibFn>.arg<i>"; the library operation LibFn (and everything it calls in the
// library) never reads field of otp.Param — a handler that fills it in (one request→Param mapping shared by the
// TOTP and HOTP endpoints sets Period for both) changes nothing.
func libIgnoresParamField(w *World, what, field string) bool {
	name := what
	if i := strings.Index(name, ".arg"); i >= 0 {
		name = name[:i]
	}
	f := w.Func(OtpPath, name)
	if f == nil || field == "?" {
		return false
	}
	reads := false
	sawParam := false
	for g := range w.Reachable(f) {
		if fnPkgPath(g) != OtpPath || g.Blocks == nil {
			continue
		}
		EachInstr(g, func(in ssa.Instruction) {
			var t types.Type
			var idx int
			switch x := in.(type) {
			case *ssa.FieldAddr:
				t, idx = x.X.Type(), x.Field
			case *ssa.Field:
				t, idx = x.X.Type(), x.Field
			default:
				return
			}
			if p, ok := t.Underlying().(*types.Pointer); ok {
				t = p.Elem()
			}
			if t.String() != OtpPath+".Param" {
				return
			}
			sawParam = true
			if fieldName(t, idx) == field {
				// a store into the local copy of the defaults does not read the caller's value; anything else counts
				if fa, isFA := in.(*ssa.FieldAddr); isFA && fa.Referrers() != nil {
					onlyStores := true
					for _, r := range *fa.Referrers() {
						if st, isSt := r.(*ssa.Store); !isSt || st.Addr != ssa.Value(fa) {
							if _, isDbg := r.(*ssa.DebugRef); !isDbg {
								onlyStores = false
							}
						}
					}
					if onlyStores {
						return
					}
				}
				reads = true
			}
		})
	}
	return sawParam && !reads
}
