package eng

import (
	"fmt"
	"go/token"
	"go/types"
	"strings"

	"golang.org/x/tools/go/ssa"
)

// ruleNoParamWrites (R12.1): no exported operation writes memory reachable from its arguments.
func ruleNoParamWrites(c *Check, w *World, tb *TB, ef *Effects, rule string, api []*ssa.Function) {
	for _, f := range api {
		bad := 0
		for _, e := range ef.Of(f) {
			if e.Root.Op != "param" {
				continue
			}
			// a by-value struct/array parameter spilled to a local cell is not caller memory; RootTerms
			// reports such writes against the alloc, so a param root here is caller-visible storage
			idx := paramIdxOfTerm(e.Root)
			pname := "?"
			if idx >= 0 && idx < len(f.Params) {
				pname = f.Params[idx].Name()
			}
			bad++
			via := ""
			if e.Via != "" {
				via = " via " + e.Via
			}
			c.Bad(rule, FuncName(f), fmt.Sprintf("param:%s:%s", pname, strings.SplitN(e.Kind, ":", 2)[0]),
				fmt.Sprintf("memory reachable from argument %q is written (%s%s): the caller's data, including spare capacity behind a slice's length, is modified", pname, e.Kind, via), w.InstrPos(e.In))
		}
		if bad == 0 {
			c.OK(rule, FuncName(f), "no-argument-write", "no store, copy, append-into or writing callee (directly or through module callees) is rooted at a parameter", w.Pos(f.Pos()))
		}
	}
}

// ruleNoCapReads: a slice parameter (or a slice field of a struct parameter) is never re-sliced beyond its length.
// Go allows s[:n] up to cap(s); the bytes between len and cap are not part of the argument — they belong to
// whatever else shares the caller's buffer, e.g. another call's data. Every re-slice of parameter-rooted slice
// memory with a high bound must be under a guard len(s) >= high (or high = len(s) - k).
func ruleNoCapReads(c *Check, w *World, tb *TB, rule string, fns []*ssa.Function) {
	n := 0
	for _, f := range fns {
		if f.Blocks == nil {
			continue
		}
		EachInstr(f, func(in ssa.Instruction) {
			sl, ok := in.(*ssa.Slice)
			if !ok || sl.High == nil {
				return
			}
			if _, isSlice := sl.X.Type().Underlying().(*types.Slice); !isSlice {
				return
			}
			xt := tb.Of(sl.X)
			rooted := false
			for _, r := range tb.RootTerms(xt, 0) {
				if r.Op == "param" {
					rooted = true
				}
			}
			if !rooted {
				return
			}
			n++
			lenT := "len(" + xt.String() + ")"
			ht := tb.Of(sl.High)
			ok2 := false
			if ht.Op == "bin" && ht.Sym == "-" && ht.Args[0].String() == lenT {
				ok2 = true
			}
			if ht.String() == lenT {
				ok2 = true
			}
			for _, at := range atomsOf(CondsAt(sl.Block())) {
				l, r := tb.Of(at.X).String(), tb.Of(at.Y).String()
				if l == lenT && r == ht.String() && (at.Op == token.GEQ || at.Op == token.GTR || at.Op == token.EQL) {
					ok2 = true
				}
				if r == lenT && l == ht.String() && (at.Op == token.LEQ || at.Op == token.LSS || at.Op == token.EQL) {
					ok2 = true
				}
			}
			c.Decide(ok2, rule, FuncName(f), "reslice:"+clip(normT(xt), 60)+"[:"+clip(normT(ht), 40)+"]", "an argument slice is re-sliced only within its length (guard len >= high)", "an argument slice is re-sliced up to "+clip(normT(ht), 80)+" without a guard on its length: bytes between len and cap — not part of the argument, possibly another call's data — become part of the result", w.InstrPos(in))
		})
	}
	if n == 0 {
		c.OK(rule, "otp", "reslice", "no argument slice is re-sliced with a high bound", "")
	}
}

// ruleNoAliasingResult (R12.3): reference results are not rooted at an argument's mutable storage.
func ruleNoAliasingResult(c *Check, w *World, tb *TB, rule string, api []*ssa.Function) {
	for _, f := range api {
		res := f.Signature.Results()
		rts := tb.Results(f, nil, nil, 0)
		checked := false
		ok := true
		for i, rt := range rts {
			if isErrorType(res.At(i).Type()) || !holdsRef(res.At(i).Type()) {
				continue
			}
			checked = true
			for _, r := range tb.RootTerms(rt, 0) {
				if r.Op == "param" {
					ok = false
					c.Bad(rule, FuncName(f), fmt.Sprintf("result#%d", i), "result shares mutable memory with argument "+r.Sym+": later calls or the caller can alter one through the other", w.Pos(f.Pos()))
				}
			}
		}
		if checked && ok {
			c.OK(rule, FuncName(f), "results", "no reference result is rooted at a parameter's pointee", w.Pos(f.Pos()))
		}
	}
}

func init() {
	register(&propDef{
		id:    "C12",
		level: "other",
		explain: "Decided on SSA with write effects rooted by origin terms: (R12.1) for every exported function and method of package otp, no store, map update, copy destination, append first operand " +
			"(spare capacity) or writing external callee — directly or through any module callee, closure or returned alias — is rooted at memory reachable from a parameter; " +
			"(R12.2) no function outside package initialisation writes the exported defaults, the suite registry or any other package variable (incl. through a pointer copied from them: the nil-parameter path must copy before writing); " +
			"(R12.3) no reference-typed result of an exported function is rooted at an argument's mutable storage. By-value struct parameters spilled to local cells are distinguished from caller memory by the root (alloc vs param). " +
			"Not decided: mutation through reflection/unsafe (absent from the library apart from the checked string view), and external callees are trusted per the read-only table. " +
			"R12.5 no reference result of an exported function is rooted at package state, a pool or a memoised value (a list built once and handed to every caller).",
		trusted:  []string{"read-only table of external callees (hmac.New key, hash.Write, url.(*URL).Query, strings/strconv/fmt functions, hex/base32 string codecs)"},
		quick:    []Config{CfgNative, CfgWasm},
		thorough: []Config{CfgNative, CfgWasm, Cfg386},
		run: func(c *Check, w *World) {
			tb := NewTB(w)
			ef := NewEffects(tb)
			api := w.ExportedAPI()
			c.Count("exported_functions", len(api))
			ruleNoParamWrites(c, w, tb, ef, "R12.1", api)
			ruleNoPkgState(c, w, tb, ef, "R12.2", w.ModuleFuncs(OtpPath))
			ruleNoAliasingResult(c, w, tb, "R12.3", api)
			ruleNoCapReads(c, w, tb, "R12.4", w.ModuleFuncs(OtpPath))
			// … and no result is a view of the library's own state (a list built once and handed to every caller:
			// one caller's edit changes what the registry reports to all others)
			ruleFreshResults(c, w, tb, "R12.5", api)
			c.Floor("R12.5", 5)
			// the service layer must not write the exported defaults or the registry either (a pointer copied from them)
			ruleRESTStateless(c, w, tb, ef, "R12.REST", false)
			runControl(c, "R12.1", []string{"ControlWritesParam|param:p:store", "ControlAppendsParam|param:p:append"}, func(sink *Check, cw *World) {
				ctb := NewTB(cw)
				ruleNoParamWrites(sink, cw, ctb, NewEffects(ctb), "R12.1", cw.ExportedAPI())
			})
			c.Floor("R12.1", 30)
			c.Floor("R12.2", 40)
			c.Floor("R12.3", 5)
		},
	})
}
