package eng

import (
	"fmt"
	"go/constant"
	"go/token"
	"go/types"
	"math/big"
	"sort"
	"strings"

	"golang.org/x/tools/go/ssa"
)

// pkgConstInt reads an exported integer constant of package otp by name.
func (w *World) pkgConstInt(name string) (int64, bool) {
	o := w.Pkgs[OtpPath].Types.Scope().Lookup(name)
	c, ok := o.(*types.Const)
	if !ok || c.Val().Kind() != constant.Int {
		return 0, false
	}
	v, ok := constant.Int64Val(c.Val())
	return v, ok
}

type lenVar struct {
	name string // field name
	term string // leaf term string: len(field(F; param))
	cuts map[int64]bool
}

func cellsFromCuts(cuts map[int64]bool, lo, hi int64) []Itv {
	var cs []int64
	for c := range cuts {
		if c >= lo && c <= hi {
			cs = append(cs, c)
		}
	}
	sort.Slice(cs, func(i, j int) bool { return cs[i] < cs[j] })
	var out []Itv
	prev := lo - 1
	for _, c := range cs {
		if c-1 > prev {
			out = append(out, Itv{bi(prev + 1), bi(c - 1)})
		}
		out = append(out, Itv{bi(c), bi(c)})
		prev = c
	}
	if prev < hi {
		out = append(out, Itv{bi(prev + 1), bi(hi)})
	}
	return out
}

// collectIntConsts gathers every integer constant in the branch conditions of f and of module
// functions called in those conditions (candidates for cell boundaries).
func collectIntConsts(w *World, tb *TB, f *ssa.Function, depth int, out map[int64]bool) {
	if f == nil || f.Blocks == nil || depth > 3 {
		return
	}
	EachInstr(f, func(in ssa.Instruction) {
		for _, op := range operandsOf(in) {
			if x, ok := constInt(op); ok && x.IsInt64() {
				out[x.Int64()] = true
			}
		}
		if ci, ok := in.(ssa.CallInstruction); ok {
			if cal := ci.Common().StaticCallee(); cal != nil && w.InModule(cal) {
				collectIntConsts(w, tb, cal, depth+1, out)
			}
		}
	})
}

// fieldConsts: the integer constants compared (directly, or through a module callee's returns)
// with the given leaf term in f's branch conditions; falls back to all constants if none is found.
func fieldConsts(w *World, tb *TB, f *ssa.Function, leaf string, all map[int64]bool) map[int64]bool {
	out := map[int64]bool{}
	EachInstr(f, func(in ssa.Instruction) {
		iff, ok := in.(*ssa.If)
		if !ok {
			return
		}
		t := tb.Of(iff.Cond)
		if !t.ContainsStr(leaf) {
			return
		}
		t.Walk(func(x *Term) bool {
			if x.Op == "const" {
				if v, ok := new(big.Int).SetString(x.Sym, 10); ok && v.IsInt64() {
					out[v.Int64()] = true
				}
			}
			if x.Op == "call" {
				if c, ok := x.Val.(*ssa.Call); ok {
					if cal := c.Call.StaticCallee(); cal != nil && w.InModule(cal) {
						collectIntConsts(w, tb, cal, 0, out)
					}
				}
			}
			return true
		})
	})
	if len(out) == 0 {
		return all
	}
	return out
}

func paramOfType(f *ssa.Function, typeName string) int {
	for i, p := range f.Params {
		t := p.Type()
		if pt, ok := t.(*types.Pointer); ok {
			t = pt.Elem()
		}
		if n, ok := t.(*types.Named); ok && n.Obj().Name() == typeName {
			return i
		}
	}
	return -1
}

// ruleInputAdmission (R14.1): the nil-return set of OCRAInput.Validate equals the specification.
func ruleInputAdmission(c *Check, w *World, tb *TB, thorough bool) {
	rule := "R14.1"
	f := w.Func(OtpPath, "OCRAInput.Validate")
	if f == nil {
		c.Fatal("anchor not found: method OCRAInput.Validate")
		return
	}
	fn := FuncName(f)
	pin, pcfg := paramOfType(f, "OCRAInput"), paramOfType(f, "SuiteConfig")
	if pin < 0 || pcfg < 0 {
		c.Fatal("OCRAInput.Validate: parameters of type OCRAInput/SuiteConfig not found")
		return
	}
	paths, err := EnumPaths(f, 20000)
	if err != nil {
		c.Unk(rule, fn, "fragment", "input validation is not a loop-free comparison-only function: "+err.Error(), w.Pos(f.Pos()))
		return
	}
	c.Count("paths", len(paths))
	in := fmt.Sprintf("param(%s#%d)", fn, pin)
	cfg := fmt.Sprintf("param(%s#%d)", fn, pcfg)
	fld := func(base, name string) string { return "field(" + name + "; " + base + ")" }
	ln := func(name string) string { return "len(" + fld(in, name) + ")" }

	consts := map[int64]bool{}
	collectIntConsts(w, tb, f, 0, consts)
	specCuts := map[string][]int64{"Counter": {0, 8}, "Challenge": {0, 8, 10, 128}, "Password": {0, 20, 32, 64}, "SessionInfo": {0, 128}, "Timestamp": {0, 8}}
	fields := []string{"Counter", "Challenge", "Password", "SessionInfo", "Timestamp"}
	cells := map[string][]Itv{}
	for _, fl := range fields {
		cuts := map[int64]bool{}
		for _, x := range specCuts[fl] {
			cuts[x] = true
		}
		for x := range fieldConsts(w, tb, f, ln(fl), consts) {
			if x >= 0 && x <= 4096 {
				cuts[x] = true
			}
		}
		cells[fl] = cellsFromCuts(cuts, 0, 1<<20)
	}
	// valid representative per field (used for fields not being varied)
	fmtVals := []int64{}
	minOf := map[int64]int64{}
	for _, p := range []struct {
		n   string
		min int64
	}{{"ChallengeNumeric08", 8}, {"ChallengeNumeric10", 10}, {"ChallengeAlpha08", 8}, {"ChallengeAlpha10", 10}, {"ChallengeHex08", 8}, {"ChallengeHex10", 10}} {
		v, ok := w.pkgConstInt(p.n)
		if !ok {
			c.Fatal("constant %s not found", p.n)
			return
		}
		fmtVals = append(fmtVals, v)
		minOf[v] = p.min
	}
	pwVals := []int64{}
	sizeOf := map[int64]int64{}
	for _, p := range []struct {
		n  string
		sz int64
	}{{"PasswordSHA1", 20}, {"PasswordSHA256", 32}, {"PasswordSHA512", 64}} {
		v, ok := w.pkgConstInt(p.n)
		if !ok {
			c.Fatal("constant %s not found", p.n)
			return
		}
		pwVals = append(pwVals, v)
		sizeOf[v] = p.sz
	}
	flagNames := []string{"IncludeCounter", "IncludeChallenge", "IncludePassword", "IncludeSession", "IncludeTimestamp"}

	spec := func(flags [5]bool, fmtv, pw int64, l map[string]int64) bool {
		if flags[0] && l["Counter"] != 8 {
			return false
		}
		if flags[1] && (l["Challenge"] < minOf[fmtv] || l["Challenge"] > 128) {
			return false
		}
		if flags[2] && (l["Password"] == 0 || l["Password"] != sizeOf[pw]) {
			return false
		}
		if flags[3] && l["SessionInfo"] > 128 {
			return false
		}
		if flags[4] && l["Timestamp"] != 8 {
			return false
		}
		return true
	}

	ae := &AEval{W: w, TB: tb}
	total, agree := 0, 0
	type mismatch struct {
		desc string
		why  string
	}
	var mism []mismatch
	undec := 0
	evalCell := func(flags [5]bool, fmtv, pw int64, lens map[string]Itv) {
		total++
		cell := Cell{}
		for i, fn := range flagNames {
			cell[fld(cfg, fn)] = aBool(flags[i])
		}
		cell[fld(cfg, "Challenge")] = aInt(fmtv, fmtv)
		cell[fld(cfg, "PasswordHash")] = aInt(pw, pw)
		lo, hi := map[string]int64{}, map[string]int64{}
		for _, fl := range fields {
			cell[ln(fl)] = AVal{Kind: "int", I: lens[fl]}
			lo[fl], hi[fl] = lens[fl].Lo.Int64(), lens[fl].Hi.Int64()
		}
		sLo, sHi := spec(flags, fmtv, pw, lo), spec(flags, fmtv, pw, hi)
		wp, decided := ae.WalkCell(f, cell)
		feas := []*Path{wp}
		desc := fmt.Sprintf("flags(C,Q,P,S,T)=%v format=%d pwhash=%d lens=%v", flags, fmtv, pw, lens)
		if sLo != sHi {
			undec++
			if undec <= 3 {
				c.Unk(rule, fn, "cell-not-homogeneous", "specification not constant on cell "+desc, w.Pos(f.Pos()))
			}
			return
		}
		if !decided || len(feas) != 1 {
			undec++
			if undec <= 3 {
				c.Unk(rule, fn, "cell-undecided", fmt.Sprintf("%d feasible paths (decided=%v) on cell %s; %v", len(feas), decided, desc, ae.Notes), w.Pos(f.Pos()))
			}
			return
		}
		r := feas[0].Result(0)
		acc := false
		if k, ok := r.(*ssa.Const); ok && k.Value == nil {
			acc = true
		}
		if acc == sLo {
			agree++
			return
		}
		why := "admitted by the code but inadmissible per the property"
		if !acc {
			why = "refused by the code but admissible per the property"
		}
		if len(mism) < 400 {
			mism = append(mism, mismatch{desc, why})
		}
	}

	valid := func(flags [5]bool, fmtv, pw int64) map[string]Itv {
		return map[string]Itv{"Counter": {bi(8), bi(8)}, "Challenge": {bi(64), bi(64)}, "Password": {bi(sizeOf[pw]), bi(sizeOf[pw])}, "SessionInfo": {bi(16), bi(16)}, "Timestamp": {bi(8), bi(8)}}
	}
	for m := 0; m < 32; m++ {
		var flags [5]bool
		for i := 0; i < 5; i++ {
			flags[i] = m&(1<<i) != 0
		}
		fv := fmtVals
		if !flags[1] {
			fv = append([]int64{0}, fmtVals[:1]...) // unselected challenge: None and one defined format
		}
		pv := pwVals
		if !flags[2] {
			pv = append([]int64{0}, pwVals[:1]...)
		}
		for _, fmtv := range fv {
			for _, pw := range pv {
				base := valid(flags, fmtv, pw)
				// singles
				for _, fl := range fields {
					for _, cl := range cells[fl] {
						l := map[string]Itv{}
						for k, v := range base {
							l[k] = v
						}
						l[fl] = cl
						evalCell(flags, fmtv, pw, l)
					}
				}
				// pairs
				for i := 0; i < len(fields); i++ {
					for j := i + 1; j < len(fields); j++ {
						if !thorough && !(flags[i] || flags[j]) && m%4 != 0 {
							continue
						}
						for _, ci := range cells[fields[i]] {
							for _, cj := range cells[fields[j]] {
								l := map[string]Itv{}
								for k, v := range base {
									l[k] = v
								}
								l[fields[i]], l[fields[j]] = ci, cj
								evalCell(flags, fmtv, pw, l)
							}
						}
					}
				}
			}
		}
	}
	c.Count("admission_cells", total)
	c.Extra["R14.1_cells"] = total
	// group mismatches by (flags,field) coarse key to keep the report readable
	groups := map[string]int{}
	for _, mm := range mism {
		key := mm.why
		groups[key]++
	}
	if len(mism) > 0 {
		c.Bad(rule, fn, "admission-set", fmt.Sprintf("%d of %d cells disagree with the property's admission rule; first: %s — %s", len(mism), total, mism[0].desc, mism[0].why), w.Pos(f.Pos()))
	} else if undec == 0 {
		c.OK(rule, fn, "admission-set", fmt.Sprintf("nil-return set equals the specification on all %d cells (5 length axes cut at %d constants, 32 flag sets, %d formats, %d password hashes; singles and pairs)", total, len(consts), len(fmtVals)+1, len(pwVals)+1), w.Pos(f.Pos()))
	}
	_ = agree
	_ = strings.Join
}

// ruleSuiteAdmission (R14.2): the nil-return set of SuiteConfig.Validate equals the specification.
func ruleSuiteAdmission(c *Check, w *World, tb *TB) {
	rule := "R14.2"
	f := w.Func(OtpPath, "SuiteConfig.Validate")
	if f == nil {
		c.Fatal("anchor not found: method SuiteConfig.Validate")
		return
	}
	fn := FuncName(f)
	if HasLoop(f) {
		c.Unk(rule, fn, "fragment", "suite validation is not loop-free", w.Pos(f.Pos()))
		return
	}
	cfg := fmt.Sprintf("param(%s#%d)", fn, 0)
	fld := func(name string) string { return "field(" + name + "; " + cfg + ")" }
	consts := map[int64]bool{}
	collectIntConsts(w, tb, f, 0, consts)
	dcuts := map[int64]bool{4: true, 10: true, 0: true}
	tcuts := map[int64]bool{0: true, 1: true}
	for x := range consts {
		if x >= -64 && x <= 64 {
			dcuts[x] = true
			tcuts[x] = true
		}
	}
	dcells := cellsFromCuts(dcuts, -(1 << 20), 1<<20)
	tcells := cellsFromCuts(tcuts, -(1 << 20), 1<<20)
	hashCells := cellsFromCuts(map[int64]bool{0: true, 1: true, 2: true, 3: true}, 0, 255)
	ae := &AEval{W: w, TB: tb}
	total, bad, undec := 0, 0, 0
	first := ""
	for _, d := range dcells {
		for _, h := range hashCells {
			for m := 0; m < 8; m++ {
				P, T, Q := m&1 != 0, m&2 != 0, m&4 != 0
				for pw := int64(0); pw <= 3; pw++ {
					for _, ts := range tcells {
						for fm := int64(0); fm <= 6; fm++ {
							total++
							cell := Cell{fld("Digits"): {Kind: "int", I: d}, fld("Hash"): {Kind: "int", I: h}, fld("IncludePassword"): aBool(P), fld("IncludeTimestamp"): aBool(T), fld("IncludeChallenge"): aBool(Q),
								fld("PasswordHash"): aInt(pw, pw), fld("TimeStep"): {Kind: "int", I: ts}, fld("Challenge"): aInt(fm, fm),
								fld("IncludeCounter"): aBool(false), fld("IncludeSession"): aBool(false)}
							spec := func(dv, hv, tv int64) bool {
								return dv >= 4 && dv <= 10 && hv >= 0 && hv <= 2 && (!P || pw != 0) && (!T || tv > 0) && (!Q || fm != 0)
							}
							sLo, sHi := spec(d.Lo.Int64(), h.Lo.Int64(), ts.Lo.Int64()), spec(d.Hi.Int64(), h.Hi.Int64(), ts.Hi.Int64())
							wp, decided := ae.WalkCell(f, cell)
							feas := []*Path{wp}
							if sLo != sHi || !decided || len(feas) != 1 {
								undec++
								if undec <= 3 {
									c.Unk(rule, fn, "cell-undecided", fmt.Sprintf("digits=%v hash=%v P=%v T=%v Q=%v pw=%d step=%v format=%d: %d feasible paths, decided=%v %v", d, h, P, T, Q, pw, ts, fm, len(feas), decided, ae.Notes), w.Pos(f.Pos()))
								}
								continue
							}
							acc := false
							if k, ok := feas[0].Result(0).(*ssa.Const); ok && k.Value == nil {
								acc = true
							}
							if acc != sLo {
								bad++
								if first == "" {
									first = fmt.Sprintf("digits=%v hash=%v P=%v T=%v Q=%v pwhash=%d timestep=%v format=%d: code accepts=%v, property says usable=%v", d, h, P, T, Q, pw, ts, fm, acc, sLo)
								}
							}
						}
					}
				}
			}
		}
	}
	c.Count("suite_cells", total)
	if bad > 0 {
		c.Bad(rule, fn, "usable-set", fmt.Sprintf("%d of %d cells disagree with 'digits 4..10, supported hash, each selected field specified'; first: %s", bad, total, first), w.Pos(f.Pos()))
	} else if undec == 0 {
		c.OK(rule, fn, "usable-set", fmt.Sprintf("nil-return set equals the specification on all %d cells", total), w.Pos(f.Pos()))
	}
	// RawSuite.Validate delegates unchanged
	if rf := w.Func(OtpPath, "RawSuite.Validate"); rf != nil {
		r := tb.Results(rf, nil, nil, 0)
		for i := range r {
			for k := 0; k < 3 && r[i].Op == "call" && r[i].Sym != QualName(f); k++ {
				r[i] = tb.Expand(r[i], 1)
			}
		}
		want := fmt.Sprintf("call(%s; field(SuiteConfig; param(%s#0)))", QualName(f), FuncName(rf))
		c.Decide(len(r) == 1 && r[0].String() == want, rule, FuncName(rf), "delegates", "returns SuiteConfig.Validate of its embedded configuration unchanged", "does not simply return the embedded configuration's Validate(): "+fmt.Sprint(r), w.Pos(rf.Pos()))
	} else {
		c.Fatal("anchor not found: RawSuite.Validate")
	}
	// Config() returns the validated fields unchanged for every implementer
	for _, name := range []string{"SuiteConfig.Config", "RawSuite.Config"} {
		cf := w.Func(OtpPath, name)
		if cf == nil {
			c.Fatal("anchor not found: %s", name)
			continue
		}
		r := tb.Results(cf, nil, nil, 0)
		for i := range r {
			r[i] = tb.Expand(r[i], 3)
		}
		p0 := fmt.Sprintf("param(%s#0)", FuncName(cf))
		ok := len(r) == 1 && (r[0].String() == p0 || r[0].String() == "field(SuiteConfig; "+p0+")")
		c.Decide(ok, rule, FuncName(cf), "config-identity", "Config() returns the receiver's configuration unchanged (what Validate() checked is what derivation uses)", "Config() does not return the validated configuration unchanged: "+fmt.Sprint(r), w.Pos(cf.Pos()))
	}
}

// ruleAdmissionThroughEntries (R14.3): on the OCRA entry paths the validators run first, on the
// caller's own suite and input, and nothing else conditions on the input.
func ruleAdmissionThroughEntries(c *Check, w *World, tb *TB) {
	rule := "R14.3"
	inVal := w.Func(OtpPath, "OCRAInput.Validate")
	if inVal == nil {
		return
	}
	for _, en := range []struct {
		name         string
		suiteP, inpP int
	}{{"GenerateOCRA", 1, 2}, {"ValidateOCRA", 2, 3}} {
		ef := w.Func(OtpPath, en.name)
		if ef == nil {
			c.Fatal("anchor not found: %s", en.name)
			continue
		}
		suiteP, inpP := paramOfIface(ef, "Suite"), paramOfType(ef, "OCRAInput")
		if suiteP < 0 || inpP < 0 {
			c.Fatal("%s: Suite/OCRAInput parameters not found", en.name)
			continue
		}
		pS := fmt.Sprintf("param(%s#%d)", FuncName(ef), suiteP)
		pI := fmt.Sprintf("param(%s#%d)", FuncName(ef), inpP)
		hits := tb.Reach(ef, MatchCallee(QualName(inVal)), 8)
		if len(hits) == 0 {
			c.Bad(rule, FuncName(ef), "input-validated", "no call of OCRAInput.Validate is reached from "+en.name+": inadmissible inputs are not refused", w.Pos(ef.Pos()))
		}
		for _, h := range hits {
			okIn := h.Args[0].String() == pI
			wantCfg := "invoke((github.com/ja7ad/otp.Suite).Config; " + pS + ")"
			okCfg := h.Args[1].String() == wantCfg
			c.Decide(okIn, rule, FuncName(ef), "validated-input-is-callers", "the value checked by OCRAInput.Validate is the caller's input parameter itself ("+strings.Join(h.Chain, " > ")+")",
				"the input checked by OCRAInput.Validate is not the caller's input: "+h.Args[0].String(), w.InstrPos(h.Call))
			c.Decide(okCfg, rule, FuncName(ef), "validated-against-callers-suite", "validated against Config() of the caller's suite", "input validated against "+h.Args[1].String()+", not the caller's suite configuration", w.InstrPos(h.Call))
			// the validator result must gate the rest: the call's block dominates every pool/HMAC use
			df := h.Fn
			gateDominates(c, w, rule, df, h.Call, "input.Validate")
		}
		sv := tb.Reach(ef, func(ci ssa.CallInstruction) bool {
			cc := ci.Common()
			return cc.IsInvoke() && cc.Method.Name() == "Validate"
		}, 8)
		okS := false
		for _, h := range sv {
			if h.Args[0].String() == pS {
				okS = true
				gateDominates(c, w, rule, h.Fn, h.Call, "suite.Validate")
			}
		}
		c.Decide(okS, rule, FuncName(ef), "suite-validated", "Validate() of the caller's suite is invoked on the path", "Validate() of the caller's suite is never invoked from "+en.name, w.Pos(ef.Pos()))
		// no other condition mentions the input
		reach := w.Reachable(ef)
		n := 0
		for f := range reach {
			if f == inVal || !strings.HasPrefix(fnPkgPath(f), OtpPath) || fnPkgPath(f) != OtpPath {
				continue
			}
			ip := paramOfType(f, "OCRAInput")
			if ip < 0 {
				continue
			}
			n++
			bad := false
			EachInstr(f, func(in ssa.Instruction) {
				iff, ok := in.(*ssa.If)
				if !ok {
					return
				}
				t := tb.Of(iff.Cond)
				pstr := fmt.Sprintf("param(%s#%d)", FuncName(f), ip)
				mentions := false
				var scan func(x *Term)
				scan = func(x *Term) {
					if x.Op == "call" && x.Sym == QualName(inVal) {
						return // the validator's own verdict
					}
					if cl, ok := x.Val.(*ssa.Call); ok && x.Op == "call" {
						if g := cl.Call.StaticCallee(); g != nil && g != f && reach[g] && paramOfType(g, "OCRAInput") >= 0 {
							return // the verdict of a function examined in its own right (derivation, validation core)
						}
					}
					if x.String() == pstr {
						mentions = true
					}
					for _, a := range x.Args {
						scan(a)
					}
				}
				scan(t)
				if mentions {
					bad = true
					c.Bad(rule, FuncName(f), "extra-input-condition", "a branch outside OCRAInput.Validate depends on the input ("+t.String()+"): admission is no longer exactly the documented field rules", w.InstrPos(in))
				}
			})
			if !bad {
				c.OK(rule, FuncName(f), "no-extra-input-condition", "no branch outside the input validator conditions on the OCRA input", w.Pos(f.Pos()))
			}
		}
	}
}

func paramOfIface(f *ssa.Function, name string) int {
	for i, p := range f.Params {
		if n, ok := p.Type().(*types.Named); ok && n.Obj().Name() == name {
			if _, isI := n.Underlying().(*types.Interface); isI {
				return i
			}
		}
	}
	return -1
}

// gateDominates: the error result of call is tested against nil, the non-nil edge returns, and the
// call's block dominates every later table index / pool / HMAC use in the function.
func gateDominates(c *Check, w *World, rule string, f *ssa.Function, call ssa.CallInstruction, what string) {
	cv := call.Value()
	if cv == nil {
		c.Bad(rule, FuncName(f), what+"-gate", "result of "+what+" is discarded", w.InstrPos(call))
		return
	}
	var v ssa.Value = cv
	if _, isTuple := v.Type().(*types.Tuple); isTuple {
		var ev ssa.Value
		if refs := v.Referrers(); refs != nil {
			for _, r := range *refs {
				if ex, ok := r.(*ssa.Extract); ok && isErrorType(ex.Type()) {
					ev = ex
				}
			}
		}
		if ev == nil {
			c.Bad(rule, FuncName(f), what+"-gate", "the error returned by "+what+" is discarded", w.InstrPos(call))
			return
		}
		v = ev
	}
	// find If on (v != nil) / (v == nil)
	var gate *ssa.If
	var errEdge int
	if refs := v.Referrers(); refs != nil {
		for _, r := range *refs {
			if b, ok := r.(*ssa.BinOp); ok {
				if _, isNil := b.Y.(*ssa.Const); isNil || isNilConst(b.X) {
					if rr := b.Referrers(); rr != nil {
						for _, u := range *rr {
							if iff, ok := u.(*ssa.If); ok {
								gate = iff
								if b.Op.String() == "!=" {
									errEdge = 0
								} else {
									errEdge = 1
								}
							}
						}
					}
				}
			}
		}
	}
	if gate == nil {
		c.Bad(rule, FuncName(f), what+"-gate", "the error returned by "+what+" is not tested", w.InstrPos(call))
		return
	}
	eb := gate.Block().Succs[errEdge]
	_, isRet := eb.Instrs[len(eb.Instrs)-1].(*ssa.Return)
	okb := gate.Block().Succs[1-errEdge]
	// every HMAC / pool / table use must be dominated by the ok edge
	allDom := true
	var where ssa.Instruction
	EachInstr(f, func(in ssa.Instruction) {
		ci, ok := in.(ssa.CallInstruction)
		if !ok {
			return
		}
		n := CalleeName(ci.Common())
		if n == "(*sync.Pool).Get" || n == "(hash.Hash).Write" || n == "(hash.Hash).Sum" || strings.HasSuffix(n, ".truncate") {
			if !(okb.Dominates(in.Block()) && len(okb.Preds) == 1) {
				allDom = false
				where = in
			}
		}
	})
	if !isRet {
		c.Bad(rule, FuncName(f), what+"-gate", "a failing "+what+" does not lead straight to a return", w.InstrPos(gate))
		return
	}
	// the failure must be reported: when the function has an error result, the failing branch returns a non-nil one
	if res := f.Signature.Results(); res.Len() > 0 && isErrorType(res.At(res.Len()-1).Type()) {
		r := eb.Instrs[len(eb.Instrs)-1].(*ssa.Return)
		var nonNil func(x ssa.Value, depth int) bool
		nonNil = func(x ssa.Value, depth int) bool {
			if depth > 4 {
				return false
			}
			if x == v {
				return true // the tested error itself, on its != nil edge
			}
			switch y := x.(type) {
			case *ssa.MakeInterface:
				return true
			case *ssa.Call:
				n := CalleeName(y.Common())
				return n == "fmt.Errorf" || n == "errors.New"
			case *ssa.UnOp:
				if _, isG := y.X.(*ssa.Global); isG && y.Op == token.MUL {
					return true // a package-level error value (never written: checked by the state rules)
				}
				// a result cell (functions with defer spill their results): the value stored on the failing branch
				if a, isA := y.X.(*ssa.Alloc); isA && y.Op == token.MUL {
					var last ssa.Value
					for _, in := range eb.Instrs {
						if st, ok := in.(*ssa.Store); ok && st.Addr == ssa.Value(a) {
							last = st.Val
						}
					}
					if last != nil {
						return nonNil(last, depth+1)
					}
				}
			case *ssa.Phi:
				if y.Block() == eb {
					// the failing edge joins the common exit (single-exit style): only what it brings counts
					for k, p := range eb.Preds {
						if p == gate.Block() {
							return nonNil(y.Edges[k], depth+1)
						}
					}
				}
				for _, e := range y.Edges {
					if !nonNil(e, depth+1) {
						return false
					}
				}
				return true
			}
			return false
		}
		if len(r.Results) == res.Len() && !nonNil(r.Results[res.Len()-1], 0) {
			c.Bad(rule, FuncName(f), what+"-gate", "a failing "+what+" returns without an error: the failure is swallowed and the partial result is used", w.InstrPos(r))
			return
		}
	}
	if !allDom {
		c.Bad(rule, FuncName(f), what+"-gate", "derivation work is reachable without passing the "+what+" check", w.InstrPos(where))
		return
	}
	c.OK(rule, FuncName(f), what+"-gate", what+" is tested, failure returns, and the success edge dominates pool/HMAC use", w.InstrPos(call))
}

func isNilConst(v ssa.Value) bool {
	c, ok := v.(*ssa.Const)
	return ok && c.Value == nil
}

func init() {
	register(&propDef{
		id:    "C14",
		level: "other",
		explain: "'Exactly when' over every length is decided because admission touches lengths only through comparisons with constants: every entry-to-return path of OCRAInput.Validate " +
			"(with challengeLength expanded) and SuiteConfig.Validate is enumerated; path conditions are evaluated three-valued over interval cells obtained by cutting each length axis at every constant occurring in the code and in the property (and its neighbours); " +
			"on each cell exactly one path must be feasible and its return class (nil / non-nil) must equal the property's predicate (R14.1: 32 flag sets x formats x password hashes x single fields and all field pairs; R14.2: full product). " +
			"R14.3: from GenerateOCRA and ValidateOCRA, with parameters bound through every call and closure, the value handed to OCRAInput.Validate is the caller's own input, validated against Config() of the caller's own suite, both validators gate pool/HMAC use, and no other branch on the path conditions on the input. " +
			"R14.5: the exported enumerators ChallengeNone…ChallengeHex10 and PasswordNone…PasswordSHA512 have the documented numeric values (the REST fields challenge_format / password_hash and the JSON form of SuiteConfig carry the bare numbers, so a regrouped const block silently selects other admitted lengths); R14.6: NewSuite returns exactly the configuration it was given (it neither completes nor replaces it around validating it). " +
			"Abstract interpretation only; nothing is executed. Domain: defined challenge formats / password hashes (others are documented as lenient); user-defined Suite implementations excluded by the property. " +
			"R14.7 HexInputToOCRA sets each field from the hex bytes of its own argument (an omitted field stays nil).",
		assume:   []string{"enumerators outside the defined ChallengeFormat / PasswordHashAlgorithm constants are outside the property's domain"},
		quick:    []Config{CfgNative, CfgWasm},
		thorough: []Config{CfgNative, CfgWasm, Cfg386},
		run: func(c *Check, w *World) {
			tb := NewTB(w)
			ruleInputAdmission(c, w, tb, c.Tier == "thorough")
			ruleSuiteAdmission(c, w, tb)
			ruleAdmissionThroughEntries(c, w, tb)
			ruleHistoryIndependence(c, w, tb, NewEffects(tb), "R14.4", w.Funcs(OtpPath, "GenerateOCRA", "ValidateOCRA", "NewSuite", "NewRawSuite", "OCRAInput.Validate", "SuiteConfig.Validate")...)
			// the REST entry: both OCRA endpoints hand the five hex fields to the library unchanged, so admission is the library's
			checkRESTEndpoints(c, w, tb, NewEffects(tb), "R14.REST", "/ocra/generate", "/ocra/validate")
			// … where the format and password hash that select the admitted lengths arrive as bare numbers
			ruleWireEnums(c, w, "R14.5")
			c.Floor("R14.5", 11)
			// a hand-built configuration is admitted or refused as given: the constructor neither completes nor
			// replaces it before (or after) validating it
			ruleConstructorIdentity(c, w, tb, "R14.6")
			c.Floor("R14.6", 1)
			// inputs given in hex (the REST path): each field is the bytes of its own text, an omitted one stays nil
			ruleHexInput(c, w, tb, "R14.7")
			c.Floor("R14.7", 7)
			c.Floor("R14.1", 1)
			c.Floor("R14.2", 4)
			c.Floor("R14.3", 8)
		},
	})
}

var _ = big.NewInt

// ruleWireEnums (shared by C14, C15, C18): the numeric values of the exported enumerations are part of the wire
// contract — the REST fields challenge_format / password_hash and the JSON form of SuiteConfig carry the bare
// numbers, documented as 1=QN08 2=QN10 3=QA08 4=QA10 5=QH08 6=QH10 and 1=PSHA1 2=PSHA256 3=PSHA512 (0 = none).
// Inside the library everything is symbolic, so a regrouped const block stays self-consistent while every
// numerically encoded suite silently means another format.
func ruleWireEnums(c *Check, w *World, rule string) {
	doc := []struct {
		name string
		val  int64
	}{
		{"ChallengeNone", 0}, {"ChallengeNumeric08", 1}, {"ChallengeNumeric10", 2}, {"ChallengeAlpha08", 3}, {"ChallengeAlpha10", 4}, {"ChallengeHex08", 5}, {"ChallengeHex10", 6},
		{"PasswordNone", 0}, {"PasswordSHA1", 1}, {"PasswordSHA256", 2}, {"PasswordSHA512", 3},
	}
	for _, d := range doc {
		pos := ""
		if o := w.Pkgs[OtpPath].Types.Scope().Lookup(d.name); o != nil {
			pos = w.Pos(o.Pos())
		}
		v, ok := w.pkgConstInt(d.name)
		switch {
		case !ok:
			c.Unk(rule, "otp."+d.name, "wire-value", "the exported constant "+d.name+" was not found", pos)
		default:
			c.Decide(v == d.val, rule, "otp."+d.name, "wire-value", fmt.Sprintf("%s = %d as documented for the numeric wire form", d.name, d.val), fmt.Sprintf("%s = %d, documented %d: a suite sent or reported as a number means a different format", d.name, v, d.val), pos)
		}
	}
}
