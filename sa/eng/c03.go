package eng

import (
	"fmt"
	"go/types"
	"strings"

	"golang.org/x/tools/go/ssa"
)

// stringParams of an entry point: (secretParam, otherStringParam) by data flow into DecodeSecret.
func secretAndCodeParams(tb *TB, f *ssa.Function) (secret, code int) {
	secret, code = -1, -1
	hits := tb.Reach(f, MatchCallee("github.com/ja7ad/otp.DecodeSecret"), 4)
	for i, p := range f.Params {
		if b, ok := p.Type().Underlying().(*types.Basic); !ok || b.Kind() != types.String {
			continue
		}
		ps := fmt.Sprintf("param(%s#%d)", FuncName(f), i)
		isSecret := false
		for _, h := range hits {
			if len(h.Args) > 0 && h.Args[0].String() == ps {
				isSecret = true
			}
		}
		if isSecret {
			secret = i
		} else {
			code = i
		}
	}
	return
}

func paramPtrIndex(f *ssa.Function, typeName string) int {
	for i, p := range f.Params {
		if pt, ok := p.Type().(*types.Pointer); ok {
			if n, ok := pt.Elem().(*types.Named); ok && n.Obj().Name() == typeName {
				return i
			}
		}
	}
	return -1
}

// resolved: the term of field F of the parameter struct with nil -> default.
func resolvedField(fn string, pp int, def, field string) string {
	P := fmt.Sprintf("param(%s#%d)", fn, pp)
	return fmt.Sprintf("ite(bin(==; const(nil); %s); field(%s; gval(otp.%s)); field(%s; %s))", P, field, def, field, P)
}

func isStepValidator(w *World) func(*ssa.Call) bool {
	return func(cl *ssa.Call) bool {
		f := cl.Call.StaticCallee()
		return f != nil && w.InModule(f) && isBoolErrSig(f.Signature)
	}
}

func defaultsLit(w *World, name string) *Lit {
	e, info := w.GlobalInit(OtpPath, name)
	lit := EvalLit(e, info)
	if lit != nil && lit.Kind == "addr" {
		lit = lit.Elems[0]
	}
	return lit
}

// deriveExpectation returns the checker for the "expected" operand of the comparison: the derived
// string must be result 0 of the shared derivation called with (decoded secret, step counter, digits, algorithm).
func deriveExpectation(w *World, tb *TB, entry *ssa.Function, secretP, pp int, def string, wantCtr func() []string, lenOut *string) func(h Hit, exp *Term) string {
	fn := FuncName(entry)
	gen := w.Func(OtpPath, "GenerateHOTP")
	var der *ssa.Function
	if gen != nil {
		if ds := derivationsFrom(w, gen); len(ds) == 1 {
			der = ds[0]
		}
	}
	return func(h Hit, exp *Term) string {
		e := exp
		for k := 0; k < 4; k++ {
			if e.Op == "extract" && e.Args[0].Op == "call" {
				if cl, ok := e.Args[0].Val.(*ssa.Call); ok && cl.Call.StaticCallee() == der {
					break
				}
			}
			n := tb.Expand(e, 1)
			if n == e {
				break
			}
			e = n
		}
		if e.Op == "phi" { // error paths return "" as well
			var calls []*Term
			for _, a := range e.Alts() {
				if !(a.IsConst()) {
					calls = append(calls, a)
				}
			}
			if len(calls) == 1 {
				e = calls[0]
			}
		}
		if e.Op != "extract" || e.Sym != "0" || e.Args[0].Op != "call" {
			return "the expected code is not the first result of the derivation: " + clip(normT(e), 200)
		}
		ct := e.Args[0]
		cl, ok := ct.Val.(*ssa.Call)
		if !ok || der == nil || cl.Call.StaticCallee() != der {
			return "validation derives the expected code with " + ct.Sym + ", not with the derivation generation uses (" + FuncName(der) + ")"
		}
		hit := Hit{Args: ct.Args}
		roles, why := rolesFromCall(tb, Hit{Args: rolesArgsForValidation(ct.Args, fn, secretP)}, der)
		_ = hit
		if why != "" {
			return why
		}
		wantKey := fmt.Sprintf("extract(0; call(github.com/ja7ad/otp.DecodeSecret; param(%s#%d)))", fn, secretP)
		if !tb.EqNorm(ct.Args[roles.Key], wantKey) {
			return "the derivation key is " + clip(normT(ct.Args[roles.Key]), 140) + ", not DecodeSecret(secret)"
		}
		if wc := wantCtr(); len(wc) > 0 && !oneOf(ct.Args[roles.Counter].String(), wc...) {
			return "the derivation counter is " + clip(normT(ct.Args[roles.Counter]), 160) + ", not the step counter of the window loop"
		}
		wd := resolvedField(fn, pp, def, "Digits")
		if tb.Norm(ct.Args[roles.Digits]).String() != wd {
			return "the derivation digits are " + clip(normT(ct.Args[roles.Digits]), 160) + ", not param.Digits (default " + def + ")"
		}
		if !tb.EqNorm(ct.Args[roles.Algo], resolvedField(fn, pp, def, "Algorithm")) {
			return "the derivation algorithm is " + clip(normT(ct.Args[roles.Algo]), 160) + ", not param.Algorithm (default " + def + ")"
		}
		if lenOut != nil {
			*lenOut = wd
		}
		return ""
	}
}

// rolesArgsForValidation: rolesFromCall recognises digits/algorithm by their field names, the key by DecodeSecret.
func rolesArgsForValidation(args []*Term, fn string, secretP int) []*Term { return args }

func runC03(c *Check, w *World) {
	if w.Cfg.Name == CfgNative.Name {
		ruleJSExportsDirect(c, "R03.JS", "validateHOTP")
	}
	tb := NewTB(w)
	ef := NewEffects(tb)
	iv := newIVWithTables(w, tb, ef)
	val := w.Func(OtpPath, "ValidateHOTP")
	if val == nil {
		c.Fatal("anchor not found: ValidateHOTP")
		return
	}
	fn := FuncName(val)
	secretP, codeP := secretAndCodeParams(tb, val)
	pp := paramPtrIndex(val, "Param")
	ctrP := -1
	for i, p := range val.Params {
		if b, ok := p.Type().Underlying().(*types.Basic); ok && b.Kind() == types.Uint64 {
			ctrP = i
		}
	}
	if secretP < 0 || codeP < 0 || pp < 0 || ctrP < 0 {
		c.Fatal("ValidateHOTP: cannot identify secret/code/counter/param parameters")
		return
	}
	ruleWasmWindow(c, w, tb, iv, "R03.W", "validateHOTP", true)
	wr := analyseWindow(c, w, tb, iv, "R03", val, isStepValidator(w), fmt.Sprintf("param(%s#%d)", fn, ctrP), true)
	if wr != nil {
		// the gated size is param.Skew (default's when nil)
		if wr.sizeT != nil {
			got := tb.Norm(wr.sizeT).String()
			c.Decide(got == resolvedField(fn, pp, "DefaultHOTPParam", "Skew"), "R03.7", fn, "skew-resolution", "the window size is param.Skew, or the default's when param is nil", "the window size is "+clip(got, 200), wr.firstPos)
		}
		checkCompareCore(c, w, tb, "R03", val, codeP, deriveExpectation(w, tb, val, secretP, pp, "DefaultHOTPParam", func() []string { return wr.ctrArgs }, nil))
	}
	if lit := defaultsLit(w, "DefaultHOTPParam"); lit != nil && lit.Kind == "struct" {
		d, _ := lit.FieldInt("Digits")
		a, _ := lit.FieldInt("Algorithm")
		s, _ := lit.FieldInt("Skew")
		c.Decide(d == 6 && a == 0 && s == 2, "R03.7", "otp.DefaultHOTPParam", "default-values", "absent parameters mean 6 digits, SHA-1, window 2", fmt.Sprintf("defaults are digits=%d algorithm=%d skew=%d; documented 6 / SHA-1 / 2", d, a, s), "")
	} else {
		c.Unk("R03.7", "otp.DefaultHOTPParam", "default-values", "default parameter set is not a struct literal", "")
	}
	// verdict pairing of the functions on the path (C13's rule, restricted to this path)
	sent := sentinelErrors(w, tb, ef)
	for f := range w.Reachable(val) {
		if !isBoolErrSig(f.Signature) || f.Blocks == nil {
			continue
		}
		for i, r := range Returns(f) {
			if why := classifyVerdict(w, tb, r.Results[0], r.Results[1], CondsAt(r.Block()), sent, 0); why != "" {
				c.Bad("R03.5", FuncName(f), fmt.Sprintf("verdict#%d", i), why, w.InstrPos(r))
			} else {
				c.OK("R03.5", FuncName(f), fmt.Sprintf("verdict#%d", i), "(true,nil) / (false, non-nil) / forwarded", w.InstrPos(r))
			}
		}
	}
	checkDigitsInt(c, w, tb, "R03.7")
	ruleHistoryIndependence(c, w, tb, ef, "R03.H", val)
	checkRESTEndpoints(c, w, tb, ef, "R03.REST", "/hotp/validate")
	c.Floor("R03.1", 1)
	c.Floor("R03.2", 1)
	c.Floor("R03.3", 1)
	c.Floor("R03.4", 1)
	c.Floor("R03.5", 4)
	c.Floor("R03.6", 4)
	c.Floor("R03.7", 2)
	_ = strings.Contains
}

func init() {
	register(&propDef{
		id:    "C03",
		level: "other",
		explain: "The 'iff over all strings and windows' is decided structurally on ValidateHOTP's SSA: R03.1 the window size is exactly within [0,10] at the loop (interval from the dominating gate; not narrower), converted losslessly; R03.2 exactly one loop encloses the single per-step validation, counter i from -s to +s inclusive, step one; " +
			"R03.3 step i validates counter c+i (c-(-i) for i<0) centred on the caller's counter; R03.4 a step below zero is skipped exactly when c < uint64(-i), compared unsigned; R03.5 acceptance only under that iteration's verdict, every return on the path is a well-formed verdict; " +
			"R03.6 with parameters bound through the closure, the constant-time comparison is between the whole submitted string and the whole string returned by the same derivation generation uses, called with (DecodeSecret(secret), the loop's counter, param.Digits, param.Algorithm), after len(code) is compared with those same digits, accepted on == 1; R03.7 nil parameters resolve to DefaultHOTPParam = {6, SHA-1, window 2}. " +
			"Together with C01 (the derivation is the RFC value) this is the membership oracle. Not decided: that codes of different counters differ (not claimed by the property). " +
			"Acceptance additionally requires that the derivation's error was found nil (a failed derivation yields an empty string that an empty code would match).",
		quick:    []Config{CfgNative, CfgWasm},
		thorough: []Config{CfgNative, CfgWasm, Cfg386},
		run:      runC03,
	})
}
