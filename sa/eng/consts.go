package eng

// Engine G: constant tables. Package-level composite literals are evaluated from the syntax
// tree with the type checker's constant values (no code is run).

import (
	"fmt"
	"go/ast"
	"go/constant"
	"go/token"
	"go/types"
	"math/big"

	"golang.org/x/tools/go/ssa"
)

type Lit struct {
	Kind   string // const, struct, list, map, func, addr, ident, call, unknown
	Const  constant.Value
	Type   types.Type
	Fields map[string]*Lit // struct
	Elems  []*Lit          // list (array/slice) values, map values
	Keys   []*Lit          // map keys
	Func   *ast.FuncLit
	Expr   ast.Expr
	Obj    types.Object // ident: referenced object
}

func (l *Lit) Int() (*big.Int, bool) {
	if l == nil || l.Kind != "const" || l.Const == nil || l.Const.Kind() != constant.Int {
		return nil, false
	}
	return new(big.Int).SetString(l.Const.ExactString(), 10)
}

func (l *Lit) Str() (string, bool) {
	if l == nil || l.Kind != "const" || l.Const == nil || l.Const.Kind() != constant.String {
		return "", false
	}
	return constant.StringVal(l.Const), true
}

func (l *Lit) Bool() bool {
	return l != nil && l.Kind == "const" && l.Const != nil && l.Const.Kind() == constant.Bool && constant.BoolVal(l.Const)
}

// Field returns a struct field literal; absent fields are the zero value (nil Lit → zero).
func (l *Lit) Field(name string) *Lit {
	if l == nil || l.Fields == nil {
		return nil
	}
	return l.Fields[name]
}

// FieldInt: integer value of a struct field, zero if absent.
func (l *Lit) FieldInt(name string) (int64, bool) {
	f := l.Field(name)
	if f == nil {
		return 0, true
	}
	x, ok := f.Int()
	if !ok || !x.IsInt64() {
		return 0, false
	}
	return x.Int64(), true
}

// GlobalInit finds the initialiser expression of a package-level variable.
func (w *World) GlobalInit(pkgPath, name string) (ast.Expr, *types.Info) {
	p := w.Pkgs[pkgPath]
	if p == nil {
		return nil, nil
	}
	for _, f := range p.Syntax {
		for _, d := range f.Decls {
			gd, ok := d.(*ast.GenDecl)
			if !ok || gd.Tok != token.VAR {
				continue
			}
			for _, s := range gd.Specs {
				vs := s.(*ast.ValueSpec)
				for i, n := range vs.Names {
					if n.Name == name && i < len(vs.Values) {
						return vs.Values[i], p.TypesInfo
					}
				}
			}
		}
	}
	return nil, nil
}

func EvalLit(e ast.Expr, info *types.Info) *Lit {
	if e == nil {
		return nil
	}
	e = ast.Unparen(e)
	if tv, ok := info.Types[e]; ok && tv.Value != nil {
		return &Lit{Kind: "const", Const: tv.Value, Type: tv.Type, Expr: e}
	}
	switch x := e.(type) {
	case *ast.UnaryExpr:
		if x.Op == token.AND {
			in := EvalLit(x.X, info)
			return &Lit{Kind: "addr", Elems: []*Lit{in}, Type: info.TypeOf(e), Expr: e}
		}
	case *ast.FuncLit:
		return &Lit{Kind: "func", Func: x, Type: info.TypeOf(e), Expr: e}
	case *ast.Ident:
		return &Lit{Kind: "ident", Obj: info.ObjectOf(x), Type: info.TypeOf(e), Expr: e}
	case *ast.SelectorExpr:
		return &Lit{Kind: "ident", Obj: info.ObjectOf(x.Sel), Type: info.TypeOf(e), Expr: e}
	case *ast.CallExpr:
		return &Lit{Kind: "call", Type: info.TypeOf(e), Expr: e}
	case *ast.CompositeLit:
		t := info.TypeOf(x)
		if t == nil {
			return &Lit{Kind: "unknown", Expr: e}
		}
		switch u := t.Underlying().(type) {
		case *types.Struct:
			l := &Lit{Kind: "struct", Type: t, Fields: map[string]*Lit{}, Expr: e}
			for i, el := range x.Elts {
				if kv, ok := el.(*ast.KeyValueExpr); ok {
					if id, ok := kv.Key.(*ast.Ident); ok {
						l.Fields[id.Name] = evalElem(kv.Value, info)
					}
				} else if i < u.NumFields() {
					l.Fields[u.Field(i).Name()] = evalElem(el, info)
				}
			}
			return l
		case *types.Array, *types.Slice:
			l := &Lit{Kind: "list", Type: t, Expr: e}
			idx := 0
			for _, el := range x.Elts {
				if kv, ok := el.(*ast.KeyValueExpr); ok {
					if k := EvalLit(kv.Key, info); k != nil {
						if ki, ok := k.Int(); ok {
							idx = int(ki.Int64())
						}
					}
					el = kv.Value
				}
				for len(l.Elems) <= idx {
					l.Elems = append(l.Elems, nil)
				}
				l.Elems[idx] = evalElem(el, info)
				idx++
			}
			return l
		case *types.Map:
			l := &Lit{Kind: "map", Type: t, Expr: e}
			for _, el := range x.Elts {
				kv, ok := el.(*ast.KeyValueExpr)
				if !ok {
					continue
				}
				l.Keys = append(l.Keys, evalElem(kv.Key, info))
				l.Elems = append(l.Elems, evalElem(kv.Value, info))
			}
			return l
		}
	}
	return &Lit{Kind: "unknown", Type: info.TypeOf(e), Expr: e}
}

// evalElem handles elided composite-literal types inside arrays/maps ({...} without a type).
func evalElem(e ast.Expr, info *types.Info) *Lit { return EvalLit(e, info) }

// IntTable evaluates a package-level integer array/slice literal.
func (w *World) IntTable(pkgPath, name string) ([]*big.Int, error) {
	e, info := w.GlobalInit(pkgPath, name)
	if e == nil {
		return nil, fmt.Errorf("no initialiser for %s", name)
	}
	l := EvalLit(e, info)
	if l.Kind == "call" {
		// initialised by a generator: accepted when the callee is verified to build the table of powers of ten
		if ce, ok := l.Expr.(*ast.CallExpr); ok && len(ce.Args) == 0 {
			if id, ok := ce.Fun.(*ast.Ident); ok {
				if fo, ok := info.ObjectOf(id).(*types.Func); ok {
					if f := w.Prog.FuncValue(fo); f != nil {
						if tab, why := pow10TableGen(f); why == "" {
							return tab, nil
						} else {
							return nil, fmt.Errorf("%s is built by %s, which is not recognised as the powers-of-ten generator: %s", name, f.Name(), why)
						}
					}
				}
			}
		}
	}
	if l.Kind != "list" {
		return nil, fmt.Errorf("%s is not an array/slice literal", name)
	}
	var out []*big.Int
	for i, el := range l.Elems {
		if el == nil {
			out = append(out, bi(0))
			continue
		}
		x, ok := el.Int()
		if !ok {
			return nil, fmt.Errorf("%s[%d] is not an integer constant", name, i)
		}
		out = append(out, x)
	}
	return out, nil
}

// ---- who writes package-level state --------------------------------------------------------

type Write struct {
	Fn   *ssa.Function
	In   ssa.Instruction
	Kind string // store, mapupdate, extcall, append, copy
	Root *Term  // the global-rooted term
	Addr *Term
}

func isInit(f *ssa.Function) bool {
	for f.Parent() != nil {
		f = f.Parent()
	}
	return f.Name() == "init" || (f.Synthetic != "" && f.Name() == "init")
}

// RootTerms: the objects an address/reference term may point into. Field/index/deref/slice steps,
// phi/ite alternatives and in-module call results are looked through.
func (tb *TB) RootTerms(t *Term, depth int) []*Term {
	var out []*Term
	seen := map[string]bool{}
	var rec func(x *Term, d int)
	add := func(x *Term) {
		if !seen[x.String()] {
			seen[x.String()] = true
			out = append(out, x)
		}
	}
	rec = func(x *Term, d int) {
		if x == nil {
			return
		}
		if d > 40 {
			add(x)
			return
		}
		if x.Typ != nil && !holdsRef(x.Typ) {
			return // a pure value (numbers, strings, structs of those) shares no storage
		}
		switch x.Op {
		case "faddr", "iaddr", "field", "index", "deref", "slice", "conv", "typeassert", "lookup", "lookupok":
			rec(x.Args[0], d+1)
		case "phi", "struct":
			for _, a := range x.Args {
				rec(a, d+1)
			}
		case "structover":
			for _, a := range x.Args {
				rec(a, d+1)
			}
		case "ite":
			rec(x.Args[1], d+1)
			rec(x.Args[2], d+1)
		case "extract":
			inner := x.Args[0]
			if c, ok := inner.Val.(*ssa.Call); ok && inner.Op == "call" {
				if f := c.Call.StaticCallee(); f != nil && tb.W.InModule(f) && f.Blocks != nil && depth < 4 {
					idx := 0
					fmt.Sscanf(x.Sym, "%d", &idx)
					res := tb.Results(f, inner.Args, nil, depth+1)
					if idx < len(res) {
						for _, rr := range tb.RootTerms(res[idx], depth+1) {
							add(rr)
						}
					}
					return
				}
			}
			rec(inner, d+1)
		case "call":
			if (x.Sym == "builtin.StringData" || x.Sym == "builtin.SliceData" || x.Sym == "builtin.Slice" || x.Sym == "builtin.String") && len(x.Args) > 0 {
				// unsafe views: the memory of the viewed string/slice itself (a string is no pure value once its
				// bytes are reachable for writing)
				a := x.Args[0]
				if a.Op == "param" || a.Op == "gval" || a.Op == "global" {
					add(a)
				} else {
					rec(a, d+1)
				}
				return
			}
			if x.Sym == "builtin.append" && len(x.Args) > 0 {
				rec(x.Args[0], d+1) // result may alias the first operand's spare capacity
				add(mk("fresh", "append"))
				return
			}
			if c, ok := x.Val.(*ssa.Call); ok {
				if f := c.Call.StaticCallee(); f != nil && tb.W.InModule(f) && f.Blocks != nil && depth < 4 {
					res := tb.Results(f, x.Args, nil, depth+1)
					for _, r := range res {
						if isRefType(r.Typ) || r.Typ == nil {
							for _, rr := range tb.RootTerms(r, depth+1) {
								add(rr)
							}
						}
					}
					return
				}
			}
			add(x)
		default:
			add(x)
		}
	}
	rec(t, 0)
	return out
}

// holdsRef: values of this type can share mutable storage with other values.
func holdsRef(t types.Type) bool {
	switch u := t.Underlying().(type) {
	case *types.Pointer, *types.Slice, *types.Map, *types.Chan, *types.Interface, *types.Signature, *types.Tuple:
		return true
	case *types.Basic:
		return u.Kind() == types.UnsafePointer
	case *types.Struct:
		for i := 0; i < u.NumFields(); i++ {
			if holdsRef(u.Field(i).Type()) {
				return true
			}
		}
		return false
	case *types.Array:
		return holdsRef(u.Elem())
	}
	return true
}

func isRefType(t types.Type) bool {
	if t == nil {
		return true
	}
	switch u := t.Underlying().(type) {
	case *types.Pointer, *types.Slice, *types.Map, *types.Chan, *types.Interface, *types.Signature:
		return true
	case *types.Struct:
		for i := 0; i < u.NumFields(); i++ {
			if isRefType(u.Field(i).Type()) {
				return true
			}
		}
	case *types.Tuple:
		return true
	}
	return false
}

// GlobalRooted reports the global/gval roots among the roots of t.
func (tb *TB) GlobalRooted(t *Term) []*Term {
	var out []*Term
	for _, r := range tb.RootTerms(t, 0) {
		if r.Op == "global" || r.Op == "gval" {
			out = append(out, r)
		}
	}
	return out
}

// pow10TableGen recognises the generator "pow := 1; for d := 1; d <= N; d++ { pow *= 10; table[d] = pow }; return table"
// (N a constant, table a [N+1]uint64 result, pow a uint64) and returns the table it builds: [0, 10, 100, …, 10^N].
// A structural recognition (one loop, one store, one accumulator multiplied by the constant 10 before each store);
// the generator is not executed.
func pow10TableGen(f *ssa.Function) ([]*big.Int, string) {
	if f == nil || f.Blocks == nil || len(f.Params) != 0 || f.Signature.Results().Len() != 1 {
		return nil, "not a parameterless function with one result"
	}
	arr, ok := f.Signature.Results().At(0).Type().Underlying().(*types.Array)
	if !ok {
		return nil, "the result is not an array"
	}
	if b, ok := arr.Elem().Underlying().(*types.Basic); !ok || b.Kind() != types.Uint64 {
		return nil, "the table elements are not uint64"
	}
	var stores []*ssa.Store
	for _, b := range f.Blocks {
		for _, in := range b.Instrs {
			if st, ok := in.(*ssa.Store); ok {
				if _, isIA := st.Addr.(*ssa.IndexAddr); isIA {
					stores = append(stores, st)
				} else if _, isAlloc := st.Addr.(*ssa.Alloc); !isAlloc {
					return nil, "a store other than into the table"
				}
			}
			if ci, ok := in.(ssa.CallInstruction); ok {
				if _, isB := ci.Common().Value.(*ssa.Builtin); !isB {
					return nil, "the generator calls other functions"
				}
			}
		}
	}
	if len(stores) != 1 {
		return nil, fmt.Sprintf("%d indexed stores, expected one", len(stores))
	}
	st := stores[0]
	ia := st.Addr.(*ssa.IndexAddr)
	d, ok := ia.Index.(*ssa.Phi)
	if !ok {
		return nil, "the index is not a loop counter"
	}
	ind := InductionOf(d)
	if ind == nil || ind.Step != 1 || len(ind.Inits) != 1 || !isConstInt(ind.Inits[0], 1) {
		return nil, "the index does not run upwards from 1 in steps of one"
	}
	h := d.Block()
	iff, ok := h.Instrs[len(h.Instrs)-1].(*ssa.If)
	if !ok {
		return nil, "the loop head has no test"
	}
	bo, ok := iff.Cond.(*ssa.BinOp)
	if !ok || bo.X != ssa.Value(d) {
		return nil, "the loop test is not on the index"
	}
	k, isK := constInt(bo.Y)
	if !isK {
		return nil, "the loop bound is not a constant"
	}
	n := k.Int64()
	switch bo.Op {
	case token.LEQ:
	case token.LSS:
		n--
	default:
		return nil, "the loop does not run while index <= N"
	}
	if n+1 != arr.Len() || n < 1 || n > 19 {
		return nil, "the loop does not fill exactly the entries 1..len-1"
	}
	if !(h.Succs[0] == st.Block() || h.Succs[0].Dominates(st.Block())) {
		return nil, "the store is not in the loop body"
	}
	// the stored value: pow*10 with pow = phi(1, that product), in uint64
	mul, ok := st.Val.(*ssa.BinOp)
	if !ok || mul.Op != token.MUL {
		return nil, "the stored value is not a product"
	}
	var acc ssa.Value
	switch {
	case isConstInt(mul.Y, 10):
		acc = mul.X
	case isConstInt(mul.X, 10):
		acc = mul.Y
	default:
		return nil, "the accumulator is not multiplied by the constant 10"
	}
	ph, ok := acc.(*ssa.Phi)
	if !ok || ph.Block() != h {
		return nil, "the accumulator is not carried around the loop"
	}
	if b, ok := ph.Type().Underlying().(*types.Basic); !ok || b.Kind() != types.Uint64 {
		return nil, "the accumulator is not uint64 (10^10 would wrap)"
	}
	for i, e := range ph.Edges {
		if h.Dominates(h.Preds[i]) {
			if e != ssa.Value(mul) {
				return nil, "the accumulator is not updated to the stored product on every iteration"
			}
		} else if !isConstInt(e, 1) {
			return nil, "the accumulator does not start at 1"
		}
	}
	// the result is the filled array
	for _, r := range Returns(f) {
		ld, ok := r.Results[0].(*ssa.UnOp)
		if !ok || ld.X != ia.X {
			return nil, "the result is not the filled table"
		}
	}
	out := []*big.Int{bi(0)}
	p := bi(1)
	for i := int64(1); i <= n; i++ {
		p = new(big.Int).Mul(p, bi(10))
		out = append(out, p)
	}
	return out, ""
}

// litFunc: the function a literal's function-valued element denotes: a function literal, or the name of a
// declared function.
func litFunc(w *World, pkgPath string, l *Lit) *ssa.Function {
	if l == nil {
		return nil
	}
	for _, f := range w.ModuleFuncs(pkgPath) {
		switch {
		case l.Kind == "func" && l.Func != nil && f.Syntax() == ast.Node(l.Func):
			return f
		case l.Kind == "ident" && l.Obj != nil && f.Object() != nil && types.Object(f.Object()) == l.Obj:
			return f
		}
	}
	return nil
}
