package eng

// Engine B: origin terms. A Term is the normalised def-use tree of an SSA value: constants,
// parameters, globals, loads resolved through access paths (flow-insensitively: a cell's content
// is the join of everything stored to it), phis gated to ite(cond,a,b) when they close a simple
// diamond/triangle, value-preserving conversions elided. Two values with the same Term string
// hold the same value (modulo the stated memory assumption: no concurrent writer).

import (
	"fmt"
	"go/constant"
	"go/token"
	"go/types"
	"sort"
	"strings"

	"golang.org/x/tools/go/ssa"
)

type Term struct {
	Op   string
	Sym  string
	Args []*Term
	Val  ssa.Value
	Typ  types.Type
	Env  *Env // alloc / closure terms: the environment they were created in
	str  string
}

func (t *Term) String() string {
	if t == nil {
		return "<nil>"
	}
	if t.str != "" {
		return t.str
	}
	var sb strings.Builder
	sb.WriteString(t.Op)
	if t.Sym != "" || len(t.Args) > 0 {
		sb.WriteByte('(')
		sb.WriteString(t.Sym)
		for i, a := range t.Args {
			if i > 0 || t.Sym != "" {
				sb.WriteString("; ")
			}
			sb.WriteString(a.String())
		}
		sb.WriteByte(')')
	}
	t.str = sb.String()
	return t.str
}

func (t *Term) Is(op string) bool { return t != nil && t.Op == op }
func (t *Term) IsConst() bool     { return t != nil && t.Op == "const" }
func (t *Term) Arg(i int) *Term {
	if t == nil || i >= len(t.Args) {
		return nil
	}
	return t.Args[i]
}

// Walk visits t and all sub-terms.
func (t *Term) Walk(f func(*Term) bool) {
	if t == nil || !f(t) {
		return
	}
	for _, a := range t.Args {
		a.Walk(f)
	}
}

// Contains reports whether some sub-term satisfies pred.
func (t *Term) Contains(pred func(*Term) bool) bool {
	found := false
	t.Walk(func(x *Term) bool {
		if found {
			return false
		}
		if pred(x) {
			found = true
			return false
		}
		return true
	})
	return found
}

func (t *Term) ContainsStr(s string) bool { return strings.Contains(t.String(), s) }

// Alts flattens phi/ite alternatives: the set of leaf alternatives a value may take.
func (t *Term) Alts() []*Term {
	var out []*Term
	seen := map[string]bool{}
	var rec func(x *Term)
	rec = func(x *Term) {
		switch x.Op {
		case "phi":
			for _, a := range x.Args {
				rec(a)
			}
		case "ite":
			rec(x.Args[1])
			rec(x.Args[2])
		default:
			if !seen[x.String()] {
				seen[x.String()] = true
				out = append(out, x)
			}
		}
	}
	rec(t)
	return out
}

func mk(op, sym string, args ...*Term) *Term { return &Term{Op: op, Sym: sym, Args: args} }

func constTerm(c *ssa.Const) *Term {
	t := &Term{Op: "const", Val: c, Typ: c.Type()}
	if c.Value == nil {
		if b, ok := c.Type().Underlying().(*types.Basic); ok && b.Info()&types.IsString != 0 {
			t.Sym = `""`
		} else if _, ok := c.Type().Underlying().(*types.Basic); ok {
			t.Sym = "0"
		} else if _, ok := c.Type().Underlying().(*types.Struct); ok {
			t.Sym = "zero"
		} else if _, ok := c.Type().Underlying().(*types.Array); ok {
			t.Sym = "zero"
		} else {
			t.Sym = "nil"
		}
		return t
	}
	t.Sym = c.Value.ExactString()
	return t
}

// Env binds the parameters / free variables of a function to caller-side terms.
type Env struct {
	Fn     *ssa.Function
	Params []*Term
	Free   []*Term
	key    string
	depth  int
}

func (e *Env) Key() string {
	if e == nil {
		return ""
	}
	if e.key == "" {
		var sb strings.Builder
		sb.WriteString(FuncName(e.Fn))
		for _, p := range e.Params {
			sb.WriteString("|" + p.String())
		}
		sb.WriteString("||")
		for _, p := range e.Free {
			sb.WriteString("|" + p.String())
		}
		e.key = shortHash(sb.String())
	}
	return e.key
}

type TB struct {
	notes        map[string]bool // scratch marks set by rule helpers during one traversal
	W            *World
	memo         map[string]*Term
	inprog       map[string]bool
	cells        map[*ssa.Alloc]*cellInfo
	ReadOnly     func(callee string) bool // external callees that do not write through pointer/slice args
	padAppenders map[*ssa.Function]string // memo of appendPadHelper
	curLoad      ssa.Instruction          // the load being resolved (for strong updates by dominating stores)
	// WritesParam, when set (by NewEffects), tells whether a module callee may write through its i-th parameter.
	WritesParam func(callee *ssa.Function, i int) bool
}

func NewTB(w *World) *TB {
	return &TB{W: w, memo: map[string]*Term{}, inprog: map[string]bool{}, cells: map[*ssa.Alloc]*cellInfo{}, ReadOnly: DefaultReadOnly}
}

func valID(v ssa.Value) string {
	switch v := v.(type) {
	case *ssa.Global:
		return v.Pkg.Pkg.Name() + "." + v.Name()
	case *ssa.Function:
		return FuncName(v)
	}
	if f := v.Parent(); f != nil {
		return FuncName(f) + ":" + v.Name()
	}
	return v.Name()
}

// Of is the term of a value in its own function with symbolic parameters.
func (tb *TB) Of(v ssa.Value) *Term { return tb.Val(v, nil) }

func (tb *TB) Val(v ssa.Value, e *Env) *Term {
	if v == nil {
		return mk("const", "nil")
	}
	if c, ok := v.(*ssa.Const); ok {
		return constTerm(c)
	}
	key := valID(v) + "@" + e.Key()
	if t, ok := tb.memo[key]; ok {
		return t
	}
	if tb.inprog[key] {
		return &Term{Op: "cycle", Sym: valID(v), Val: v, Typ: v.Type()}
	}
	tb.inprog[key] = true
	t := tb.val(v, e)
	delete(tb.inprog, key)
	if t.Val == nil {
		t.Val = v
	}
	if t.Typ == nil {
		t.Typ = v.Type()
	}
	tb.memo[key] = t
	return t
}

func paramIndex(p *ssa.Parameter) int {
	for i, q := range p.Parent().Params {
		if q == p {
			return i
		}
	}
	return -1
}

func freeIndex(p *ssa.FreeVar) int {
	for i, q := range p.Parent().FreeVars {
		if q == p {
			return i
		}
	}
	return -1
}

func (tb *TB) val(v ssa.Value, e *Env) *Term {
	switch v := v.(type) {
	case *ssa.Parameter:
		i := paramIndex(v)
		if e != nil && e.Fn == v.Parent() && i < len(e.Params) && e.Params[i] != nil {
			return e.Params[i]
		}
		return &Term{Op: "param", Sym: fmt.Sprintf("%s#%d", FuncName(v.Parent()), i), Val: v, Typ: v.Type()}
	case *ssa.FreeVar:
		i := freeIndex(v)
		if e != nil && e.Fn == v.Parent() && i < len(e.Free) && e.Free[i] != nil {
			return e.Free[i]
		}
		return &Term{Op: "freevar", Sym: fmt.Sprintf("%s#%d", FuncName(v.Parent()), i), Val: v, Typ: v.Type()}
	case *ssa.Global:
		return &Term{Op: "global", Sym: valID(v), Val: v, Typ: v.Type()}
	case *ssa.Function:
		return &Term{Op: "fn", Sym: FuncName(v), Val: v, Typ: v.Type()}
	case *ssa.Builtin:
		return mk("builtin", v.Name())
	case *ssa.Alloc:
		return &Term{Op: "alloc", Sym: valID(v) + "@" + e.Key(), Val: v, Typ: v.Type(), Env: e}
	case *ssa.Phi:
		return tb.phi(v, e)
	case *ssa.BinOp:
		x, y := tb.Val(v.X, e), tb.Val(v.Y, e)
		return simplifyBin(v.Op, x, y, v)
	case *ssa.UnOp:
		if v.Op == token.MUL {
			if v.CommaOk {
				return mk("load2", "", tb.Val(v.X, e))
			}
			saved := tb.curLoad
			tb.curLoad = v
			r := tb.Load(v.X, e)
			tb.curLoad = saved
			return r
		}
		return mk("un", v.Op.String(), tb.Val(v.X, e))
	case *ssa.Convert:
		x := tb.Val(v.X, e)
		if valuePreserving(v.X.Type(), v.Type(), tb.W) {
			return x
		}
		return mk("conv", types.TypeString(v.Type(), relQual), x)
	case *ssa.ChangeType:
		return tb.Val(v.X, e)
	case *ssa.ChangeInterface:
		return tb.Val(v.X, e)
	case *ssa.MakeInterface:
		return tb.Val(v.X, e)
	case *ssa.MultiConvert:
		return mk("conv", types.TypeString(v.Type(), relQual), tb.Val(v.X, e))
	case *ssa.SliceToArrayPointer:
		return mk("conv", types.TypeString(v.Type(), relQual), tb.Val(v.X, e))
	case *ssa.Call:
		return tb.callTerm(v.Common(), v, e)
	case *ssa.Extract:
		tup := tb.Val(v.Tuple, e)
		switch tup.Op {
		case "lookup2":
			if v.Index == 0 {
				return mk("lookup", "", tup.Args...)
			}
			return mk("lookupok", "", tup.Args...)
		case "load2":
			if v.Index == 0 {
				return mk("deref", "", tup.Args[0])
			}
		}
		return mk("extract", fmt.Sprint(v.Index), tup)
	case *ssa.Field:
		return tb.fieldOf(tb.Val(v.X, e), fieldName(v.X.Type(), v.Field), e)
	case *ssa.FieldAddr:
		return mk("faddr", fieldName(v.X.Type(), v.Field), tb.Val(v.X, e))
	case *ssa.IndexAddr:
		return mk("iaddr", "", tb.Val(v.X, e), tb.Val(v.Index, e))
	case *ssa.Index:
		return tb.indexOf(tb.Val(v.X, e), tb.Val(v.Index, e), e)
	case *ssa.Lookup:
		if v.CommaOk {
			return mk("lookup2", "", tb.Val(v.X, e), tb.Val(v.Index, e))
		}
		if mm, ok := v.X.(*ssa.MakeMap); ok {
			if r := tb.mapLiteralLookup(mm, tb.Val(v.Index, e), e); r != nil {
				return r
			}
		}
		// a package-level map literal of constants that nothing writes, looked up under a constant key
		if ld, ok := v.X.(*ssa.UnOp); ok && ld.Op == token.MUL {
			if g, ok := ld.X.(*ssa.Global); ok && g.Pkg != nil && tb.W.Pkgs[g.Pkg.Pkg.Path()] != nil {
				if key := tb.Val(v.Index, e); key.IsConst() && tb.W.GlobalNeverWritten(g) {
					if ex, info := tb.W.GlobalInit(g.Pkg.Pkg.Path(), g.Name()); ex != nil {
						if lit := EvalLit(ex, info); lit != nil && lit.Kind == "map" {
							for i, k := range lit.Keys {
								if k == nil || k.Kind != "const" || k.Const == nil || i >= len(lit.Elems) {
									continue
								}
								if mk("const", k.Const.ExactString()).String() != key.String() {
									continue
								}
								if el := lit.Elems[i]; el != nil && el.Kind == "const" && el.Const != nil {
									return mk("const", el.Const.ExactString())
								}
							}
						}
					}
				}
			}
		}
		return mk("lookup", "", tb.Val(v.X, e), tb.Val(v.Index, e))
	case *ssa.Slice:
		return mk("slice", "", tb.Val(v.X, e), tb.optVal(v.Low, e), tb.optVal(v.High, e), tb.optVal(v.Max, e))
	case *ssa.MakeSlice:
		return &Term{Op: "makeslice", Sym: valID(v) + "@" + e.Key(), Args: []*Term{tb.Val(v.Len, e), tb.Val(v.Cap, e)}}
	case *ssa.MakeMap:
		return mk("makemap", valID(v)+"@"+e.Key())
	case *ssa.MakeChan:
		return mk("makechan", valID(v)+"@"+e.Key())
	case *ssa.MakeClosure:
		var b []*Term
		for _, x := range v.Bindings {
			b = append(b, tb.Val(x, e))
		}
		ct := mk("closure", FuncName(v.Fn.(*ssa.Function)), b...)
		ct.Env = e
		return ct
	case *ssa.TypeAssert:
		return mk("typeassert", types.TypeString(v.AssertedType, relQual), tb.Val(v.X, e))
	case *ssa.Range:
		return mk("range", "", tb.Val(v.X, e))
	case *ssa.Next:
		return mk("next", "", tb.Val(v.Iter, e))
	case *ssa.Select:
		return mk("select", valID(v))
	}
	return mk("unknown", fmt.Sprintf("%T:%s", v, valID(v)))
}

func (tb *TB) optVal(v ssa.Value, e *Env) *Term {
	if v == nil {
		return mk("none", "")
	}
	return tb.Val(v, e)
}

func relQual(p *types.Package) string {
	if p.Path() == OtpPath {
		return "otp"
	}
	return p.Name()
}

func fieldName(t types.Type, i int) string {
	if p, ok := t.Underlying().(*types.Pointer); ok {
		t = p.Elem()
	}
	if s, ok := t.Underlying().(*types.Struct); ok && i < s.NumFields() {
		return s.Field(i).Name()
	}
	return fmt.Sprintf("f%d", i)
}

func intInfo(t types.Type, w *World) (bits int, signed bool, ok bool) {
	b, isB := t.Underlying().(*types.Basic)
	if !isB || b.Info()&types.IsInteger == 0 {
		return 0, false, false
	}
	sz := 64
	if w != nil {
		if s := w.Pkgs[OtpPath].TypesSizes; s != nil {
			sz = int(s.Sizeof(t)) * 8
		}
	} else {
		switch b.Kind() {
		case types.Int8, types.Uint8:
			sz = 8
		case types.Int16, types.Uint16:
			sz = 16
		case types.Int32, types.Uint32:
			sz = 32
		}
	}
	return sz, b.Info()&types.IsUnsigned == 0, true
}

// valuePreserving: every value of the source type is represented unchanged in the target type.
func valuePreserving(from, to types.Type, w *World) bool {
	fb, fs, ok1 := intInfo(from, w)
	tbits, ts, ok2 := intInfo(to, w)
	if !ok1 || !ok2 {
		// string<->[]byte, named<->underlying etc. are not integers: keep conversions that change representation
		if types.Identical(from.Underlying(), to.Underlying()) {
			return true
		}
		return false
	}
	switch {
	case fs == ts:
		return tbits >= fb
	case !fs && ts: // unsigned -> signed
		return tbits > fb
	default: // signed -> unsigned: negative values change
		return false
	}
}

func simplifyBin(op token.Token, x, y *Term, v ssa.Value) *Term {
	// canonical order for commutative operators
	switch op {
	case token.ADD, token.MUL, token.AND, token.OR, token.XOR, token.EQL, token.NEQ:
		if b, ok := v.Type().Underlying().(*types.Basic); ok && b.Info()&types.IsString != 0 && op == token.ADD {
			break // string concatenation is not commutative
		}
		if x.String() > y.String() {
			x, y = y, x
		}
	}
	return &Term{Op: "bin", Sym: op.String(), Args: []*Term{x, y}, Val: v, Typ: v.Type()}
}

// ---- phis ----------------------------------------------------------------------------------

func (tb *TB) phi(p *ssa.Phi, e *Env) *Term {
	b := p.Block()
	if len(p.Edges) == 2 {
		if d := b.Idom(); d != nil {
			if iff, ok := d.Instrs[len(d.Instrs)-1].(*ssa.If); ok && d.Succs[0] != d.Succs[1] {
				T, F := d.Succs[0], d.Succs[1]
				side := func(pred *ssa.BasicBlock) int { // 1: true side, 2: false side, 0: unknown
					if pred == d {
						if T == b && F != b {
							return 1
						}
						if F == b && T != b {
							return 2
						}
						return 0
					}
					if T != b && len(T.Preds) == 1 && T.Dominates(pred) {
						return 1
					}
					if F != b && len(F.Preds) == 1 && F.Dominates(pred) {
						return 2
					}
					return 0
				}
				s0, s1 := side(b.Preds[0]), side(b.Preds[1])
				if s0 != 0 && s1 != 0 && s0 != s1 {
					c := tb.Val(iff.Cond, e)
					v0, v1 := tb.Val(p.Edges[0], e), tb.Val(p.Edges[1], e)
					if s0 == 2 {
						v0, v1 = v1, v0
					}
					return normIte(c, v0, v1)
				}
			}
		}
	}
	var alts []*Term
	seen := map[string]bool{}
	for _, ed := range p.Edges {
		t := tb.Val(ed, e)
		if t.Op == "cycle" && t.Sym == valID(p) {
			continue
		}
		if !seen[t.String()] {
			seen[t.String()] = true
			alts = append(alts, t)
		}
	}
	r := mkPhi(alts)
	if r.Op == "phi" && len(alts) > 1 && r.Val == nil {
		r.Val = p // loop-carried and join phis keep their SSA value for loop idiom recognition
	}
	return r
}

func mkPhi(alts []*Term) *Term {
	if len(alts) == 1 {
		return alts[0]
	}
	var flat []*Term
	seen := map[string]bool{}
	for _, a := range alts {
		if a.Op == "phi" {
			for _, b := range a.Args {
				if !seen[b.String()] {
					seen[b.String()] = true
					flat = append(flat, b)
				}
			}
			continue
		}
		if !seen[a.String()] {
			seen[a.String()] = true
			flat = append(flat, a)
		}
	}
	if len(flat) == 1 {
		return flat[0]
	}
	sort.Slice(flat, func(i, j int) bool { return flat[i].String() < flat[j].String() })
	r := mk("phi", "", flat...)
	r.Typ = flat[0].Typ
	return r
}

// normIte puts conditions in positive form: ite(!c,a,b) = ite(c,b,a); ite(x!=y,a,b) = ite(x==y,b,a).
func normIte(c, a, b *Term) *Term {
	for {
		if c.Op == "un" && c.Sym == "!" {
			c = c.Args[0]
			a, b = b, a
			continue
		}
		if c.Op == "bin" && c.Sym == "!=" {
			c = &Term{Op: "bin", Sym: "==", Args: c.Args, Val: c.Val, Typ: c.Typ}
			a, b = b, a
			continue
		}
		// one spelling per ordering test: x <= y ? a : b  is  x > y ? b : a
		if c.Op == "bin" && (c.Sym == "<=" || c.Sym == ">=") {
			ns := ">"
			if c.Sym == ">=" {
				ns = "<"
			}
			c = &Term{Op: "bin", Sym: ns, Args: c.Args, Val: c.Val, Typ: c.Typ}
			a, b = b, a
			continue
		}
		break
	}
	if a.String() == b.String() {
		return a
	}
	return mk("ite", "", c, a, b)
}

// ---- calls ---------------------------------------------------------------------------------

// CalleeName is the resolved, package-qualified name of a static callee or invoked method.
func CalleeName(c *ssa.CallCommon) string {
	if c.IsInvoke() {
		recv := c.Value.Type()
		return "(" + types.TypeString(recv, func(p *types.Package) string { return p.Path() }) + ")." + c.Method.Name()
	}
	if b, ok := c.Value.(*ssa.Builtin); ok {
		return "builtin." + b.Name()
	}
	if f := c.StaticCallee(); f != nil {
		return QualName(f)
	}
	return ""
}

// QualName: "pkgpath.Func" or "(pkgpath.T).Method" / "(*pkgpath.T).Method"; closures parent$n.
func QualName(f *ssa.Function) string {
	if f == nil {
		return ""
	}
	if o := f.Object(); o != nil {
		if fn, ok := o.(*types.Func); ok {
			return fn.FullName()
		}
	}
	if f.Origin() != nil {
		return QualName(f.Origin())
	}
	return f.String()
}

func (tb *TB) callTerm(c *ssa.CallCommon, v ssa.Value, e *Env) *Term {
	var args []*Term
	if c.IsInvoke() {
		args = append(args, tb.Val(c.Value, e))
	}
	for _, a := range c.Args {
		args = append(args, tb.Val(a, e))
	}
	name := CalleeName(c)
	if name != "" {
		if c.IsInvoke() {
			return &Term{Op: "invoke", Sym: name, Args: args, Val: v}
		}
		if name == "builtin.len" && len(args) == 1 {
			return lenOf(args[0])
		}
		if name == "cmp.Or" && len(args) == 1 {
			// the standard library's "first non-zero argument", over integers: Or(x, d) is x == 0 ? d : x
			if sig, ok := c.Value.Type().Underlying().(*types.Signature); ok && sig.Results().Len() == 1 {
				if _, _, isInt := intInfo(sig.Results().At(0).Type(), tb.W); isInt {
					if els := varargsElems(tb, args[0]); len(els) >= 1 {
						r := els[len(els)-1]
						for i := len(els) - 2; i >= 0; i-- {
							a, b := mk("const", "0"), els[i]
							if a.String() > b.String() {
								a, b = b, a
							}
							r = normIte(&Term{Op: "bin", Sym: "==", Args: []*Term{a, b}}, r, els[i])
						}
						return r
					}
				}
			}
		}
		return &Term{Op: "call", Sym: name, Args: args, Val: v}
	}
	fnT := tb.Val(c.Value, e)
	return &Term{Op: "calldyn", Sym: "", Args: append([]*Term{fnT}, args...), Val: v}
}

func lenOf(x *Term) *Term {
	switch x.Op {
	case "makeslice":
		return x.Args[0]
	case "conv":
		if x.Sym == "[]byte" || x.Sym == "string" {
			return lenOf(x.Args[0])
		}
	case "const":
		if strings.HasPrefix(x.Sym, `"`) {
			if s, err := unquote(x.Sym); err == nil {
				return mk("const", fmt.Sprint(len(s)))
			}
		}
	}
	return mk("len", "", x)
}

func unquote(s string) (string, error) {
	v := constant.MakeFromLiteral(s, token.STRING, 0)
	if v.Kind() != constant.String {
		return "", fmt.Errorf("not a string")
	}
	return constant.StringVal(v), nil
}

// Results evaluates the result terms of fn with parameters/free variables bound.
// Each result is the join (phi) over all return statements.
func (tb *TB) Results(fn *ssa.Function, params, free []*Term, depth int) []*Term {
	if fn == nil || fn.Blocks == nil {
		return nil
	}
	var e *Env
	if params != nil || free != nil {
		e = &Env{Fn: fn, Params: params, Free: free, depth: depth}
	}
	n := fn.Signature.Results().Len()
	alts := make([][]*Term, n)
	for _, b := range fn.Blocks {
		if len(b.Instrs) == 0 {
			continue
		}
		if r, ok := b.Instrs[len(b.Instrs)-1].(*ssa.Return); ok {
			for i, x := range r.Results {
				alts[i] = append(alts[i], tb.Val(x, e))
			}
		}
	}
	out := make([]*Term, n)
	for i := range out {
		out[i] = mkPhi(alts[i])
	}
	return out
}

// ---- memory --------------------------------------------------------------------------------

type storeRec struct {
	path []string // field names / "[k]" / "[*]"
	val  ssa.Value
	ext  string // non-empty: written by this external/unknown callee (arg index appended)
	in   ssa.Instruction
}

type cellInfo struct {
	stores  []storeRec
	escaped bool // address stored somewhere / returned / captured by a writing closure
}

// DefaultReadOnly lists external callees that never write through their pointer/slice arguments.
func DefaultReadOnly(name string) bool {
	switch name {
	case "crypto/hmac.New", "(hash.Hash).Write", "(io.Writer).Write", "crypto/subtle.ConstantTimeCompare", "crypto/hmac.Equal",
		"(*sync.Pool).Put", "encoding/hex.EncodeToString", "(*encoding/base32.Encoding).EncodeToString",
		"fmt.Sprintf", "fmt.Errorf", "fmt.Sprint", "fmt.Println", "fmt.Sprintln", "encoding/json.Marshal",
		"(*net/url.URL).Query", "(*net/url.URL).String", "(net/url.Values).Get", "(net/url.Values).Encode",
		"bytes.Equal", "bytes.Compare", "string", "builtin.len", "builtin.cap", "builtin.println", "builtin.print", "cmp.Or", "cmp.Compare", "cmp.Less", "slices.Contains", "slices.Index", "slices.Equal", "slices.Max", "slices.Min", "slices.BinarySearch", "slices.Backward", "slices.All", "slices.Values", "maps.Keys", "maps.Values", "maps.All",
		"(*github.com/valyala/fasthttp.RequestCtx).SetBody", "(*github.com/valyala/fasthttp.RequestCtx).Write":
		return true
	}
	return false
}

func (tb *TB) cell(a *ssa.Alloc) *cellInfo {
	if ci, ok := tb.cells[a]; ok {
		return ci
	}
	ci := &cellInfo{}
	tb.cells[a] = ci
	var visit func(addr ssa.Value, path []string)
	visit = func(addr ssa.Value, path []string) {
		refs := addr.Referrers()
		if refs == nil {
			return
		}
		for _, in := range *refs {
			switch in := in.(type) {
			case *ssa.Store:
				if in.Addr == addr {
					ci.stores = append(ci.stores, storeRec{path: append([]string(nil), path...), val: in.Val, in: in})
				}
				if in.Val == addr {
					ci.escaped = true
				}
			case *ssa.UnOp:
				// load: fine
			case *ssa.FieldAddr:
				visit(in, append(append([]string(nil), path...), fieldName(in.X.Type(), in.Field)))
			case *ssa.IndexAddr:
				k := "[*]"
				if c, ok := in.Index.(*ssa.Const); ok && c.Value != nil {
					k = "[" + c.Value.ExactString() + "]"
				}
				if in.X == addr {
					visit(in, append(append([]string(nil), path...), k))
				}
			case *ssa.Slice:
				// array sliced: writes through the slice by callees
				tb.sliceEscapes(ci, in, path)
			case *ssa.MakeClosure:
				fn := in.Fn.(*ssa.Function)
				for i, bnd := range in.Bindings {
					if bnd == addr && i < len(fn.FreeVars) {
						tb.closureStores(ci, fn.FreeVars[i], path)
					}
				}
			case *ssa.MakeInterface:
				// the address boxed into an interface (json.Unmarshal(data, &v)): follow it into calls
				visit(in, path)
				if rr := in.Referrers(); rr != nil {
					for _, u := range *rr {
						if _, isCall := u.(ssa.CallInstruction); !isCall {
							if _, isDbg := u.(*ssa.DebugRef); !isDbg {
								ci.escaped = true
							}
						}
					}
				}
			case ssa.CallInstruction:
				cc := in.Common()
				name := CalleeName(cc)
				for i, arg := range cc.Args {
					if arg == addr {
						if name != "" && tb.ReadOnly(name) {
							continue
						}
						if cal := cc.StaticCallee(); cal != nil && tb.W.InModule(cal) && tb.WritesParam != nil && !tb.WritesParam(cal, i) {
							continue
						}
						if name == "" {
							name = "dynamic"
						}
						ci.stores = append(ci.stores, storeRec{path: append([]string(nil), path...), ext: fmt.Sprintf("%s#%d", name, i), in: in})
					}
				}
				if cc.IsInvoke() && cc.Value == addr {
					ci.stores = append(ci.stores, storeRec{path: append([]string(nil), path...), ext: CalleeName(cc) + "#recv", in: in})
				}
			case *ssa.Return, *ssa.Phi, *ssa.ChangeType, *ssa.Convert, *ssa.MapUpdate, *ssa.Send:
				ci.escaped = true
			case *ssa.DebugRef:
			default:
				// other uses (BinOp comparison with nil etc.) are harmless
			}
		}
	}
	visit(a, nil)
	return ci
}

func (tb *TB) sliceEscapes(ci *cellInfo, s *ssa.Slice, path []string) {
	refs := s.Referrers()
	if refs == nil {
		return
	}
	for _, in := range *refs {
		switch in := in.(type) {
		case ssa.CallInstruction:
			cc := in.Common()
			name := CalleeName(cc)
			if name != "" && tb.ReadOnly(name) {
				continue
			}
			if (name == "builtin.append" || name == "builtin.copy") && len(cc.Args) == 2 && cc.Args[1] == ssa.Value(s) && cc.Args[0] != ssa.Value(s) {
				continue // only read as the source
			}
			if cal := cc.StaticCallee(); cal != nil && tb.W.InModule(cal) && tb.WritesParam != nil {
				writes := false
				for i, a := range cc.Args {
					if a == ssa.Value(s) && tb.WritesParam(cal, i) {
						writes = true
					}
				}
				if !writes {
					continue
				}
			}
			if name == "" {
				name = "dynamic"
			}
			ci.stores = append(ci.stores, storeRec{path: append(append([]string(nil), path...), "[*]"), ext: name, in: in})
		case *ssa.IndexAddr:
			if r := in.Referrers(); r != nil {
				for _, u := range *r {
					if st, ok := u.(*ssa.Store); ok && st.Addr == in {
						ci.stores = append(ci.stores, storeRec{path: append(append([]string(nil), path...), "[*]"), val: st.Val, in: st})
					}
				}
			}
		}
	}
}

func (tb *TB) closureStores(ci *cellInfo, fv *ssa.FreeVar, path []string) {
	refs := fv.Referrers()
	if refs == nil {
		return
	}
	for _, in := range *refs {
		switch in := in.(type) {
		case *ssa.Store:
			if in.Addr == fv {
				ci.stores = append(ci.stores, storeRec{path: append([]string(nil), path...), val: in.Val, in: in, ext: "closure:" + FuncName(fv.Parent())})
			}
		case *ssa.UnOp:
		case *ssa.FieldAddr, *ssa.IndexAddr:
			// conservative: a closure that takes sub-addresses may write
			if r := in.(ssa.Value).Referrers(); r != nil {
				for _, u := range *r {
					if st, ok := u.(*ssa.Store); ok && st.Addr == in.(ssa.Value) {
						ci.stores = append(ci.stores, storeRec{path: append(append([]string(nil), path...), "[*]"), ext: "closure:" + FuncName(fv.Parent()), in: st})
					}
				}
			}
		default:
			if _, ok := in.(ssa.CallInstruction); ok {
				ci.stores = append(ci.stores, storeRec{path: append([]string(nil), path...), ext: "closure-call:" + FuncName(fv.Parent()), in: in})
			}
		}
	}
}

func pathHasPrefix(p, prefix []string) bool {
	if len(prefix) > len(p) {
		return false
	}
	for i := range prefix {
		if prefix[i] != p[i] && prefix[i] != "[*]" && p[i] != "[*]" {
			return false
		}
	}
	return true
}

// dominatesInstr: a executes before b on every path reaching b (same function).
func dominatesInstr(a, b ssa.Instruction) bool {
	if a == nil || b == nil || a.Parent() != b.Parent() {
		return false
	}
	if a.Block() == b.Block() {
		return instrIndex(a) < instrIndex(b)
	}
	return a.Block().Dominates(b.Block())
}

// instrReaches: some execution path runs a and later b (same function).
func instrReaches(a, b ssa.Instruction) bool {
	if a.Block() == nil || b.Block() == nil {
		return true
	}
	if f := b.Parent(); f != nil && len(f.Blocks) > 0 && b.Block() != f.Blocks[0] && !BlocksReachableFrom(f.Blocks[0])[b.Block()] {
		return true // the recover block is entered from any panicking point, not along CFG edges
	}
	if a.Block() == b.Block() && instrIndex(a) < instrIndex(b) {
		return true
	}
	return BlocksReachableFrom(a.Block())[b.Block()]
}

func pathCovers(k, q []string) bool { // k is a (wildcard-free) prefix of q
	if len(k) > len(q) {
		return false
	}
	for i := range k {
		if k[i] != q[i] || k[i] == "[*]" {
			return false
		}
	}
	return true
}

// liveStores: stores that may still be visible at the current load for path q. A store is visible when
// some CFG path leads from it to the load without passing a later definite store that covers q
// (strong update along paths; stores made by callees or closures are always visible).
func (tb *TB) liveStores(a *ssa.Alloc, ci *cellInfo, q []string) []storeRec {
	L := tb.curLoad
	if L == nil || L.Parent() != a.Parent() {
		// a read inside a closure: what the closure can see is what reaches its creation unkilled, plus every store
		// that can still run after its creation
		var mc ssa.Instruction
		if refs := a.Referrers(); refs != nil {
			for _, r := range *refs {
				if m, ok := r.(*ssa.MakeClosure); ok {
					if mc != nil {
						return ci.stores
					}
					mc = m
				}
			}
		}
		if mc == nil || L == nil {
			return ci.stores
		}
		killers := tb.killersOf(ci, q, mc)
		var out []storeRec
		for _, s := range ci.stores {
			if s.in == nil || s.in.Parent() != a.Parent() || reachesAvoiding(s.in, mc, killers) || instrReaches(mc, s.in) {
				out = append(out, s)
			}
		}
		return out
	}
	killers := tb.killersOf(ci, q, L)
	var out []storeRec
	for _, s := range ci.stores {
		if s.in != nil && s.in.Parent() == L.Parent() && !reachesAvoiding(s.in, L, killers) {
			continue
		}
		out = append(out, s)
	}
	return out
}

func (tb *TB) killersOf(ci *cellInfo, q []string, L ssa.Instruction) map[ssa.Instruction]bool {
	killers := map[ssa.Instruction]bool{}
	for _, k := range ci.stores {
		if k.val == nil || k.ext != "" || k.in == nil || k.in.Parent() != L.Parent() {
			continue
		}
		if _, isStore := k.in.(*ssa.Store); !isStore {
			continue
		}
		if pathCovers(k.path, q) {
			killers[k.in] = true
		}
	}
	return killers
}

// reachesAvoiding: some execution path runs from (after) instruction `from` to `to` without executing a killer.
// A load in the recover block is reachable from everywhere.
func reachesAvoiding(from, to ssa.Instruction, killers map[ssa.Instruction]bool) bool {
	fb, tbk := from.Block(), to.Block()
	if fb == nil || tbk == nil {
		return true
	}
	if f := to.Parent(); f != nil && len(f.Blocks) > 0 && tbk != f.Blocks[0] && !BlocksReachableFrom(f.Blocks[0])[tbk] {
		return true
	}
	// scan the rest of from's block
	scan := func(b *ssa.BasicBlock, start int) (found, cont bool) {
		for i := start; i < len(b.Instrs); i++ {
			in := b.Instrs[i]
			if in == to {
				return true, false
			}
			if killers[in] && in != from {
				return false, false
			}
		}
		return false, true
	}
	found, cont := scan(fb, instrIndex(from)+1)
	if found {
		return true
	}
	if !cont {
		return false
	}
	seen := map[*ssa.BasicBlock]bool{}
	stack := append([]*ssa.BasicBlock(nil), fb.Succs...)
	for len(stack) > 0 {
		b := stack[len(stack)-1]
		stack = stack[:len(stack)-1]
		if seen[b] {
			continue
		}
		seen[b] = true
		found, cont := scan(b, 0)
		if found {
			return true
		}
		if cont {
			stack = append(stack, b.Succs...)
		}
	}
	return false
}

// cellContent: the join of everything that may be stored at path of alloc a (visible at the current load).
func (tb *TB) cellContent(a *ssa.Alloc, at *Term, path []string, e *Env) *Term {
	if at != nil && at.Op == "alloc" {
		e = at.Env // values stored into the cell are evaluated in the environment that created it
	}
	ci := tb.cell(a)
	live := tb.liveStores(a, ci, path)
	if g := tb.gatedCell(a, at, ci, live, path, e); g != nil {
		return g
	}
	var alts []*Term
	subFields := map[string]bool{}
	partial, okStruct := false, true
	for _, s := range live {
		switch {
		case pathHasPrefix(path, s.path):
			var t *Term
			if s.ext != "" && s.val == nil {
				t = mk("written", s.ext)
			} else {
				t = tb.Val(s.val, e)
			}
			for _, p := range path[len(s.path):] {
				if strings.HasPrefix(p, "[") {
					t = tb.indexOf(t, mk("const", strings.Trim(p, "[]")), e)
				} else {
					t = tb.fieldOf(t, p, e)
				}
			}
			alts = append(alts, t)
		case pathHasPrefix(s.path, path):
			partial = true
			nxt := s.path[len(path)]
			if strings.HasPrefix(nxt, "[") {
				okStruct = false
			}
			subFields[nxt] = true
		}
	}
	if partial {
		if !okStruct {
			return mk("mem", at.Sym+"."+strings.Join(path, "."))
		}
		names := make([]string, 0, len(subFields))
		for n := range subFields {
			names = append(names, n)
		}
		sort.Strings(names)
		st := mk("struct", strings.Join(names, ","))
		for _, n := range names {
			st.Args = append(st.Args, tb.cellContent(a, at, append(append([]string(nil), path...), n), e))
		}
		if len(alts) > 0 {
			st.Op = "structover"
			st.Args = append(st.Args, mkPhi(alts))
		}
		return st
	}
	if len(alts) == 0 {
		return mk("zero", at.Sym+"."+strings.Join(path, "."))
	}
	return mkPhi(alts)
}

// gatedCell: the common "default under a test" shape of a local cell — an unconditional store S0 followed by
// one conditional store S1 (S0 dominates S1, S1's block is entered under exactly one more branch condition than
// S0's) — read where both may be visible gives ite(cond; v1; v0) instead of an ungated phi. For a read inside a
// closure the same holds when the closure is created after both stores and neither can run after its creation.
func (tb *TB) gatedCell(a *ssa.Alloc, at *Term, ci *cellInfo, live []storeRec, path []string, e *Env) *Term {
	if len(live) != 2 || ci.escaped {
		return nil
	}
	var st [2]*ssa.Store
	for i, s := range live {
		x, ok := s.in.(*ssa.Store)
		if !ok || s.ext != "" || s.val == nil || x.Parent() != a.Parent() || !pathHasPrefix(path, s.path) || len(s.path) != 0 {
			return nil
		}
		st[i] = x
	}
	s0, s1 := st[0], st[1]
	if dominatesInstr(s1, s0) {
		s0, s1 = s1, s0
	}
	if !dominatesInstr(s0, s1) || s0.Block() == s1.Block() {
		return nil
	}
	// the one extra condition under which s1 runs
	c0 := CondsAt(s0.Block())
	c1 := CondsAt(s1.Block())
	if len(c1) != len(c0)+1 {
		return nil
	}
	extra := c1[0] // CondsAt lists the innermost condition first
	for i := range c0 {
		if c1[i+1] != c0[i] {
			return nil
		}
	}
	// the read point: the load itself, or the closure creation for a read inside a closure
	var at0 ssa.Instruction = tb.curLoad
	if at0 == nil || at0.Parent() != a.Parent() {
		at0 = nil
		if refs := a.Referrers(); refs != nil {
			for _, r := range *refs {
				if mc, ok := r.(*ssa.MakeClosure); ok {
					if at0 != nil {
						return nil
					}
					at0 = mc
				}
			}
		}
		if at0 == nil {
			return nil
		}
	}
	if instrReaches(at0, s0) || instrReaches(at0, s1) || !instrReaches(s0, at0) || !instrReaches(s1, at0) {
		return nil
	}
	// the read must lie after the conditional region (not inside s1's branch, where only s1 is visible)
	if s1.Block().Dominates(at0.Block()) {
		return nil
	}
	ev := e
	if at != nil && at.Op == "alloc" {
		ev = at.Env
	}
	proj := func(v ssa.Value) *Term {
		t := tb.Val(v, ev)
		for _, p := range path {
			if strings.HasPrefix(p, "[") {
				t = tb.indexOf(t, mk("const", strings.Trim(p, "[]")), ev)
			} else {
				t = tb.fieldOf(t, p, ev)
			}
		}
		return t
	}
	ct := tb.Val(extra.V, ev)
	v1, v0 := proj(s1.Val), proj(s0.Val)
	if extra.Pos {
		return normIte(ct, v1, v0)
	}
	return normIte(ct, v0, v1)
}

// Load: the content of the storage an address designates.
func (tb *TB) Load(addr ssa.Value, e *Env) *Term {
	switch a := addr.(type) {
	case *ssa.FieldAddr:
		return tb.fieldOf(tb.Val(a.X, e), fieldName(a.X.Type(), a.Field), e)
	case *ssa.IndexAddr:
		return tb.indexOf(tb.Val(a.X, e), tb.Val(a.Index, e), e)
	}
	return tb.derefOf(tb.Val(addr, e), e)
}

func (tb *TB) derefOf(p *Term, e *Env) *Term {
	switch p.Op {
	case "alloc":
		return tb.cellContent(p.Val.(*ssa.Alloc), p, nil, e)
	case "global":
		return &Term{Op: "gval", Sym: p.Sym, Val: p.Val}
	case "faddr":
		return tb.fieldOf(p.Args[0], p.Sym, e)
	case "iaddr":
		return tb.indexOf(p.Args[0], p.Args[1], e)
	case "phi":
		var alts []*Term
		for _, a := range p.Args {
			alts = append(alts, tb.derefOf(a, e))
		}
		return mkPhi(alts)
	case "ite":
		return normIte(p.Args[0], tb.derefOf(p.Args[1], e), tb.derefOf(p.Args[2], e))
	}
	return mk("deref", "", p)
}

// fieldOf: (*P).f for pointer-valued P, P.f for struct-valued P.
func (tb *TB) fieldOf(base *Term, f string, e *Env) *Term {
	switch base.Op {
	case "alloc":
		return tb.cellContent(base.Val.(*ssa.Alloc), base, []string{f}, e)
	case "faddr":
		return tb.fieldOf(tb.fieldOf(base.Args[0], base.Sym, e), f, e)
	case "iaddr":
		return tb.fieldOf(tb.indexOf(base.Args[0], base.Args[1], e), f, e)
	case "global":
		return mk("field", f, &Term{Op: "gval", Sym: base.Sym, Val: base.Val})
	case "deref":
		return tb.fieldOf(base.Args[0], f, e)
	case "phi":
		var alts []*Term
		for _, a := range base.Args {
			alts = append(alts, tb.fieldOf(a, f, e))
		}
		return mkPhi(alts)
	case "ite":
		return normIte(base.Args[0], tb.fieldOf(base.Args[1], f, e), tb.fieldOf(base.Args[2], f, e))
	case "struct", "structover":
		names := strings.Split(base.Sym, ",")
		for i, n := range names {
			if n == f {
				return base.Args[i]
			}
		}
		if base.Op == "structover" {
			return tb.fieldOf(base.Args[len(base.Args)-1], f, e)
		}
		return mk("zero", f)
	case "const":
		if base.Sym == "zero" {
			return mk("zero", f)
		}
	}
	return mk("field", f, base)
}

func (tb *TB) indexOf(base, idx *Term, e *Env) *Term {
	switch base.Op {
	case "alloc":
		if idx.IsConst() {
			return tb.cellContent(base.Val.(*ssa.Alloc), base, []string{"[" + idx.Sym + "]"}, e)
		}
		return mk("index", "", mk("mem", base.Sym), idx)
	case "global":
		return mk("index", "", &Term{Op: "gval", Sym: base.Sym, Val: base.Val}, idx)
	case "faddr":
		return tb.indexOf(tb.fieldOf(base.Args[0], base.Sym, e), idx, e)
	case "deref":
		return mk("index", "", base.Args[0], idx)
	case "phi":
		var alts []*Term
		for _, a := range base.Args {
			alts = append(alts, tb.indexOf(a, idx, e))
		}
		return mkPhi(alts)
	}
	return mk("index", "", base, idx)
}

func shortHash(s string) string {
	var h uint32 = 2166136261
	for i := 0; i < len(s); i++ {
		h ^= uint32(s[i])
		h *= 16777619
	}
	return fmt.Sprintf("%06x", h&0xffffff)
}

// Expand replaces a root call of a module function (static callee) by the callee's result term,
// repeatedly (depth-bounded): call(f; a) -> result of f with parameters bound to a.
func (tb *TB) Expand(t *Term, depth int) *Term {
	for i := 0; i < depth; i++ {
		idx := 0
		ct := t
		if t.Op == "extract" {
			fmt.Sscanf(t.Sym, "%d", &idx)
			ct = t.Args[0]
		}
		if ct.Op == "calldyn" && len(ct.Args) > 0 && ct.Args[0].Op == "closure" {
			if mc, ok := ct.Args[0].Val.(*ssa.MakeClosure); ok {
				cf := mc.Fn.(*ssa.Function)
				res := tb.Results(cf, ct.Args[1:], ct.Args[0].Args, i+1)
				if idx >= len(res) {
					return t
				}
				t = res[idx]
				continue
			}
		}
		if ct.Op != "call" {
			return t
		}
		c, ok := ct.Val.(*ssa.Call)
		if !ok {
			return t
		}
		f := c.Call.StaticCallee()
		if f == nil || !tb.W.InModule(f) || f.Blocks == nil {
			return t
		}
		res := tb.Results(f, ct.Args, nil, i+1)
		if idx >= len(res) {
			return t
		}
		t = res[idx]
	}
	return t
}

// ---- normalisation modulo helper extraction ------------------------------------------------------

// GatedResults evaluates a loop-free function's results as a decision tree over its branch
// conditions: ite(cond, results on the true edge, results on the false edge).
func (tb *TB) GatedResults(fn *ssa.Function, params, free []*Term) []*Term {
	if fn == nil || fn.Blocks == nil || HasLoop(fn) || len(fn.Blocks) > 40 {
		return nil
	}
	var e *Env
	if params != nil || free != nil {
		e = &Env{Fn: fn, Params: params, Free: free}
	}
	n := fn.Signature.Results().Len()
	budget := 400
	var rec func(b *ssa.BasicBlock) []*Term
	rec = func(b *ssa.BasicBlock) []*Term {
		budget--
		if budget < 0 {
			return nil
		}
		switch t := b.Instrs[len(b.Instrs)-1].(type) {
		case *ssa.Return:
			out := make([]*Term, n)
			for i, r := range t.Results {
				out[i] = tb.Val(r, e)
			}
			return out
		case *ssa.Jump:
			return rec(b.Succs[0])
		case *ssa.If:
			c := tb.Val(t.Cond, e)
			a, bb := rec(b.Succs[0]), rec(b.Succs[1])
			if a == nil || bb == nil {
				return nil
			}
			out := make([]*Term, n)
			for i := range out {
				out[i] = normIte(c, a[i], bb[i])
			}
			return out
		}
		return nil // panic exit etc.
	}
	return rec(fn.Blocks[0])
}

// inlinable: a small loop-free module helper that rules do not anchor on.
func (tb *TB) inlinable(f *ssa.Function, keep func(name string) bool) bool {
	if f == nil || f.Blocks == nil || !tb.W.InModule(f) || HasLoop(f) {
		return false
	}
	n := 0
	for _, b := range f.Blocks {
		n += len(b.Instrs)
	}
	if n > 80 {
		return false
	}
	name := QualName(f)
	if keep != nil && keep(name) {
		return false
	}
	return true
}

// Norm rewrites a term modulo helper extraction: every call of a small loop-free module function that
// `keep` does not protect is replaced by the function's gated result with the arguments substituted
// (repeatedly, bounded). Exported functions and functions that finalise an HMAC are protected by default.
func (tb *TB) Norm(t *Term, keepNames ...string) *Term {
	keep := func(name string) bool {
		for _, k := range keepNames {
			if strings.Contains(name, k) {
				return true
			}
		}
		return false
	}
	return tb.norm(t, keep, 0)
}

func (tb *TB) defaultKeep(f *ssa.Function) bool {
	if o := f.Object(); o != nil && o.Exported() {
		// identity accessors (e.g. Digits.Int) are transparent even when exported
		r := tb.GatedResults(f, nil, nil)
		if len(r) == 1 && len(f.Params) >= 1 && r[0].String() == fmt.Sprintf("param(%s#0)", FuncName(f)) {
			return false
		}
		return true
	}
	if len(sumCallsIn(f)) > 0 {
		return true
	}
	return false
}

func (tb *TB) norm(t *Term, keep func(string) bool, depth int) *Term {
	if t == nil || depth > 6 {
		return t
	}
	// rebuild children first
	var args []*Term
	changed := false
	for _, a := range t.Args {
		na := tb.norm(a, keep, depth)
		if na != a {
			changed = true
		}
		args = append(args, na)
	}
	cur := t
	if changed {
		cur = tb.rebuild(t, args)
	}
	// inline at this node
	idx := -1
	ct := cur
	if cur.Op == "extract" && len(cur.Args) == 1 && cur.Args[0].Op == "call" {
		fmt.Sscanf(cur.Sym, "%d", &idx)
		ct = cur.Args[0]
	}
	if ct.Op == "call" {
		if c, ok := ct.Val.(*ssa.Call); ok {
			f := c.Call.StaticCallee()
			if f != nil && tb.inlinable(f, keep) && !tb.defaultKeep(f) {
				res := tb.GatedResults(f, ct.Args, nil)
				if res != nil {
					if idx >= 0 && idx < len(res) {
						return tb.norm(res[idx], keep, depth+1)
					}
					if idx < 0 && len(res) == 1 {
						return tb.norm(res[0], keep, depth+1)
					}
				}
			}
		}
	}
	return cur
}

// rebuild re-applies a term constructor to new arguments (so that field/index/deref distribute again).
func (tb *TB) rebuild(t *Term, args []*Term) *Term {
	switch t.Op {
	case "field":
		return tb.fieldOf(args[0], t.Sym, nil)
	case "index":
		return tb.indexOf(args[0], args[1], nil)
	case "deref":
		return tb.derefOf(args[0], nil)
	case "ite":
		return normIte(args[0], args[1], args[2])
	case "phi":
		return mkPhi(args)
	case "len":
		return lenOf(args[0])
	case "bin":
		switch t.Sym {
		case "+", "*", "&", "|", "^", "==", "!=":
			isStr := false
			if t.Typ != nil {
				if b, ok := t.Typ.Underlying().(*types.Basic); ok && b.Info()&types.IsString != 0 {
					isStr = true
				}
			}
			if !(isStr && t.Sym == "+") && len(args) == 2 && args[0].String() > args[1].String() {
				args = []*Term{args[1], args[0]}
			}
		}
	}
	return &Term{Op: t.Op, Sym: t.Sym, Args: args, Val: t.Val, Typ: t.Typ, Env: t.Env}
}

// EqNorm: the term equals want modulo helper extraction (calls named in want are never inlined).
func (tb *TB) EqNorm(t *Term, want string, keepNames ...string) bool {
	if t.String() == want {
		return true
	}
	return tb.Norm(t, keepNames...).String() == want
}

func (tb *TB) note(k string) {
	if tb.notes == nil {
		tb.notes = map[string]bool{}
	}
	tb.notes[k] = true
}

// mapLiteralLookup: m[key] for a local map that is a literal — created, filled with constant keys in its own
// block, and afterwards only read — and a key that is a constant: the value stored under that key.
func (tb *TB) mapLiteralLookup(mm *ssa.MakeMap, key *Term, e *Env) *Term {
	if !key.IsConst() || mm.Referrers() == nil {
		return nil
	}
	var hit ssa.Value
	for _, r := range *mm.Referrers() {
		switch x := r.(type) {
		case *ssa.MapUpdate:
			if x.Map != ssa.Value(mm) || x.Block() != mm.Block() {
				return nil
			}
			k, ok := x.Key.(*ssa.Const)
			if !ok {
				return nil
			}
			if tb.Val(k, e).String() == key.String() {
				hit = x.Value
			}
		case *ssa.Lookup:
			if x.X != ssa.Value(mm) {
				return nil
			}
		case *ssa.DebugRef:
		default:
			return nil
		}
	}
	if hit == nil {
		return nil
	}
	return tb.Val(hit, e)
}
