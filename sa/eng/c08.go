package eng

import (
	"fmt"
	"strings"

	"golang.org/x/tools/go/ssa"
)

func runC08(c *Check, w *World) {
	tb := NewTB(w)
	ef := NewEffects(tb)
	f := w.Func(OtpPath, "RandomSecret")
	if f == nil {
		c.Fatal("anchor not found: RandomSecret")
		return
	}
	fn := FuncName(f)
	pos := w.Pos(f.Pos())
	// the buffer: the single MakeSlice whose value is encoded into the result
	var bufs []*ssa.MakeSlice
	EachInstr(f, func(in ssa.Instruction) {
		if m, ok := in.(*ssa.MakeSlice); ok {
			bufs = append(bufs, m)
		}
	})
	if len(bufs) != 1 {
		c.Unk("R08.3", fn, "buffer", fmt.Sprintf("%d byte buffers are made, expected exactly one holding the secret", len(bufs)), pos)
		return
	}
	buf := bufs[0]
	// R08.3: uses of the buffer
	var fill, enc ssa.CallInstruction
	okUses := true
	if refs := buf.Referrers(); refs != nil {
		for _, r := range *refs {
			switch x := r.(type) {
			case *ssa.DebugRef:
			case ssa.CallInstruction:
				n := CalleeName(x.Common())
				switch {
				case n == "crypto/rand.Read" && fill == nil:
					fill = x
				case n == "io.ReadFull" && fill == nil && len(x.Common().Args) == 2 && tb.Of(x.Common().Args[0]).String() == "gval(rand.Reader)" && x.Common().Args[1] == ssa.Value(buf):
					fill = x
				case n == "(*encoding/base32.Encoding).EncodeToString" && enc == nil:
					enc = x
				case n == "builtin.len" || n == "builtin.cap":
				default:
					okUses = false
					c.Bad("R08.3", fn, "buffer-use:"+n, "the secret buffer is also passed to "+n+": bytes may be modified, refilled or reused", w.InstrPos(r))
				}
			default:
				okUses = false
				c.Bad("R08.3", fn, fmt.Sprintf("buffer-use:%T", r), "the secret buffer is indexed, sliced, stored or otherwise touched besides being filled once and encoded once", w.InstrPos(r))
			}
		}
	}
	if okUses {
		c.OK("R08.3", fn, "buffer-uses", "the buffer's only uses are the whole-buffer fill and the whole-buffer encode", pos)
	}
	// R08.1 source
	if fill == nil {
		c.Bad("R08.1", fn, "random-source", "the buffer is not filled by crypto/rand.Read (or io.ReadFull(rand.Reader, buf)) as a whole", pos)
	} else {
		c.OK("R08.1", fn, "random-source", "filled by "+CalleeName(fill.Common())+" over the whole buffer (crypto/rand reads fully or fails)", w.InstrPos(fill))
		gateDominates(c, w, "R08.1", f, fill, "rand.Read")
		if enc != nil {
			c.Decide(dominatesInstr(fill, enc), "R08.1", fn, "fill-before-encode", "the fill precedes the encode on every path", "the buffer is encoded on a path that does not pass the fill", w.InstrPos(enc))
		}
	}
	for _, imp := range w.Pkgs[OtpPath].Types.Imports() {
		if strings.HasPrefix(imp.Path(), "math/rand") {
			c.Bad("R08.1", "otp", "import:"+imp.Path(), "package otp imports "+imp.Path()+", a non-cryptographic generator", "")
		}
	}
	c.OK("R08.1", "otp", "imports", fmt.Sprintf("%d imports scanned: no math/rand", len(w.Pkgs[OtpPath].Types.Imports())), "")
	// R08.4 encoding
	if enc == nil {
		c.Bad("R08.4", fn, "encoding", "the buffer is not encoded by a base32 Encoding.EncodeToString", pos)
	} else {
		et := tb.Of(enc.Common().Args[0])
		want := "call((encoding/base32.Encoding).WithPadding; deref(gval(base32.StdEncoding)); const(-1))"
		c.Decide(et.String() == want, "R08.4", fn, "encoding", "encoded with base32.StdEncoding.WithPadding(NoPadding): upper-case, unpadded, what DecodeSecret inverts", "the encoder is "+clip(et.String(), 200)+", not StdEncoding.WithPadding(NoPadding)", w.InstrPos(enc))
		// the result on success is that string
		for i, r := range Returns(f) {
			t0, t1 := tb.Of(r.Results[0]), tb.Of(r.Results[1])
			if t1.IsConst() && t1.Sym == "nil" {
				c.Decide(r.Results[0] == enc.Value(), "R08.4", fn, fmt.Sprintf("success-result#%d", i), "a successful return hands out exactly the encoded buffer", "a successful return hands out "+clip(t0.String(), 160), w.InstrPos(r))
			} else {
				c.Decide(t0.IsConst() && t0.Sym == `""`, "R08.4", fn, fmt.Sprintf("failure-result#%d", i), "a failing return hands out no secret", "a failing return hands out "+clip(t0.String(), 160), w.InstrPos(r))
			}
		}
	}
	// R08.2 size table over all 256 algorithm values
	paths, err := EnumPaths(f, 4096)
	if err != nil {
		c.Unk("R08.2", fn, "size-table", "RandomSecret is not loop-free: "+err.Error(), pos)
	} else {
		ae := &AEval{W: w, TB: tb}
		want := map[int64]int64{0: 20, 1: 32, 2: 64}
		for _, n := range []string{"SHA1", "SHA256", "SHA512"} {
			if v, ok := w.pkgConstInt(n); ok {
				want[v] = map[string]int64{"SHA1": 20, "SHA256": 32, "SHA512": 64}[n]
			}
		}
		sent := sentinelErrors(w, tb, ef)
		bad := 0
		for k := int64(0); k < 256; k++ {
			cell := Cell{fmt.Sprintf("param(%s#0)", fn): aInt(k, k)}
			feas, _ := ae.FeasiblePaths(paths, cell)
			for _, p := range feas {
				reaches := false
				var sz ssa.Value
				for _, b := range p.Blocks {
					if b == buf.Block() {
						reaches = true
						sz = p.Resolve(buf.Len)
					}
				}
				wv, supported := want[k]
				switch {
				case supported && !reaches:
					bad++
					c.Bad("R08.2", fn, fmt.Sprintf("algorithm=%d", k), "a supported hash is refused on some path", pos)
				case supported:
					x, ok := constInt(sz)
					if !ok {
						// the size comes from a helper (secretSize(algo)): evaluate it for this algorithm value
						if av := ae.Eval(tb.Of(sz), cell, 0); av.Kind == "int" && av.I.Lo != nil && av.I.Hi != nil && av.I.Lo.Cmp(av.I.Hi) == 0 {
							x, ok = av.I.Lo, true
						}
					}
					if !ok || x.Int64() != wv {
						bad++
						c.Bad("R08.2", fn, fmt.Sprintf("algorithm=%d", k), fmt.Sprintf("the secret for hash %d has %s bytes, expected %d", k, tb.Of(sz).String(), wv), w.InstrPos(buf))
					}
				case reaches:
					bad++
					c.Bad("R08.2", fn, fmt.Sprintf("algorithm=%d", k), fmt.Sprintf("the unsupported hash value %d yields a secret instead of an error", k), w.InstrPos(buf))
				default:
					if p.Ret == nil || !nonNilAt(tb, p.Result(1), CondsAt(p.Ret.Block()), sent, 0) {
						bad++
						c.Bad("R08.2", fn, fmt.Sprintf("algorithm=%d", k), "an unsupported hash is refused without a non-nil error", pos)
					}
				}
			}
			if len(feas) == 0 {
				bad++
				c.Unk("R08.2", fn, fmt.Sprintf("algorithm=%d", k), "no feasible path", pos)
			}
		}
		if bad == 0 {
			c.OK("R08.2", fn, "size-table", "all 256 hash values: SHA1→20, SHA256→32, SHA512→64 bytes, every other value → (\"\", non-nil error) without reaching the buffer", pos)
			c.Extra["R08.2_exhaustive"] = true
		}
	}
	ruleHistoryIndependence(c, w, tb, ef, "R08.H", f)
	checkRESTEndpoints(c, w, tb, ef, "R08.REST", "/otp/secret")
	// the reading side: what RandomSecret writes is decoded by DecodeSecret through the one strict base32 path
	if dec := w.Func(OtpPath, "DecodeSecret"); dec != nil {
		ruleDecodePipeline(c, w, tb, dec, "R08.5", "R08.5")
	} else {
		c.Fatal("anchor not found: DecodeSecret")
	}
	c.Floor("R08.1", 3)
	c.Floor("R08.2", 1)
	c.Floor("R08.3", 1)
	c.Floor("R08.4", 3)
}

func init() {
	register(&propDef{
		id:    "C08",
		level: "other",
		explain: "Fully structural on RandomSecret: R08.1 the one buffer is filled as a whole by crypto/rand.Read (or io.ReadFull(rand.Reader,·)), the error is tested and leads to an error return, the fill precedes the encode, package otp imports no math/rand; " +
			"R08.2 all paths enumerated and evaluated for every one of the 256 hash values: SHA1→make 20, SHA256→32, SHA512→64, anything else → (\"\", non-nil) without making a buffer; R08.3 the buffer's only uses are the whole-buffer fill and the whole-buffer encode (no index, slice, store, copy, second fill); " +
			"R08.4 the encoder is base32.StdEncoding.WithPadding(NoPadding) and a successful return hands out exactly that string; no state is kept between calls (no entropy pool). Not decided: quality of the OS source.",
		trusted:  []string{"crypto/rand.Read fills the whole buffer or returns an error", "encoding/base32"},
		quick:    []Config{CfgNative},
		thorough: []Config{CfgNative, CfgWasm, Cfg386},
		run:      runC08,
	})
}
