package eng

import (
	"go/types"
	"sync"

	"golang.org/x/tools/go/ssa"
)

// instrIndex returns the index of in within its block.
func instrIndex(in ssa.Instruction) int {
	for i, x := range in.Block().Instrs {
		if x == in {
			return i
		}
	}
	return -1
}

// ReachableAfter calls visit for every instruction that may execute after `from` (same function).
// visit returning false stops the walk.
func ReachableAfter(from ssa.Instruction, visit func(ssa.Instruction) bool) {
	b := from.Block()
	i := instrIndex(from)
	for _, in := range b.Instrs[i+1:] {
		if !visit(in) {
			return
		}
	}
	seen := map[*ssa.BasicBlock]bool{}
	var stack []*ssa.BasicBlock
	stack = append(stack, b.Succs...)
	for len(stack) > 0 {
		x := stack[len(stack)-1]
		stack = stack[:len(stack)-1]
		if seen[x] {
			continue
		}
		seen[x] = true
		for _, in := range x.Instrs {
			if !visit(in) {
				return
			}
		}
		stack = append(stack, x.Succs...)
	}
}

var reachCache sync.Map

// BlocksReachableFrom: set of blocks reachable from b (excluding b unless on a cycle).
func BlocksReachableFrom(b *ssa.BasicBlock) map[*ssa.BasicBlock]bool {
	if m, ok := reachCache.Load(b); ok {
		return m.(map[*ssa.BasicBlock]bool)
	}
	seen := map[*ssa.BasicBlock]bool{}
	defer reachCache.Store(b, seen)
	stack := append([]*ssa.BasicBlock(nil), b.Succs...)
	for len(stack) > 0 {
		x := stack[len(stack)-1]
		stack = stack[:len(stack)-1]
		if seen[x] {
			continue
		}
		seen[x] = true
		stack = append(stack, x.Succs...)
	}
	return seen
}

// InLoop reports whether block b lies on a CFG cycle.
func InLoop(b *ssa.BasicBlock) bool { return BlocksReachableFrom(b)[b] }

// Returns lists the Return instructions of f.
func Returns(f *ssa.Function) []*ssa.Return {
	var out []*ssa.Return
	for _, b := range f.Blocks {
		if len(b.Instrs) == 0 {
			continue
		}
		if r, ok := b.Instrs[len(b.Instrs)-1].(*ssa.Return); ok {
			out = append(out, r)
		}
	}
	return out
}

// EachInstr visits all instructions of f.
func EachInstr(f *ssa.Function, visit func(ssa.Instruction)) {
	for _, b := range f.Blocks {
		for _, in := range b.Instrs {
			visit(in)
		}
	}
}

// Operands of an instruction as values (nil entries skipped).
func operandsOf(in ssa.Instruction) []ssa.Value {
	var buf []*ssa.Value
	var out []ssa.Value
	for _, p := range in.Operands(buf) {
		if *p != nil {
			out = append(out, *p)
		}
	}
	return out
}

func isErrorType(t types.Type) bool {
	return types.Identical(t, types.Universe.Lookup("error").Type())
}

// DerivedSet: closure of values derived from seeds by address/slice/assert/phi/append steps
// (values that may share storage with the seeds).
func DerivedSet(seeds []ssa.Value) map[ssa.Value]bool {
	d := map[ssa.Value]bool{}
	var work []ssa.Value
	push := func(v ssa.Value) {
		if v != nil && !d[v] {
			d[v] = true
			work = append(work, v)
		}
	}
	for _, s := range seeds {
		push(s)
	}
	for len(work) > 0 {
		v := work[len(work)-1]
		work = work[:len(work)-1]
		refs := v.Referrers()
		if refs == nil {
			continue
		}
		for _, in := range *refs {
			switch x := in.(type) {
			case *ssa.Store:
				// a derived value stored into a local cell: the cell carries it
				if x.Val == v {
					if a := rootAllocOf(x.Addr); a != nil {
						push(a)
					}
				}
			case *ssa.TypeAssert:
				push(x)
			case *ssa.Extract:
				push(x)
			case *ssa.UnOp:
				// a load through a derived pointer yields shared storage only if it loads a reference
				if x.X == v && refArg(x.Type()) {
					push(x)
				}
			case *ssa.Slice:
				if x.X == v {
					push(x)
				}
			case *ssa.IndexAddr:
				if x.X == v {
					push(x)
				}
			case *ssa.FieldAddr:
				if x.X == v {
					push(x)
				}
			case *ssa.Phi:
				push(x)
			case *ssa.ChangeType:
				push(x)
			case *ssa.MakeInterface:
				push(x)
			case *ssa.ChangeInterface:
				push(x)
			case *ssa.SliceToArrayPointer:
				push(x)
			case *ssa.Convert:
				// []byte->string copies; unsafe.Pointer conversions keep sharing
				if b, ok := x.Type().Underlying().(*types.Basic); ok && b.Kind() == types.String {
					continue
				}
				push(x)
			case *ssa.Call:
				if bu, ok := x.Call.Value.(*ssa.Builtin); ok && bu.Name() == "append" && len(x.Call.Args) > 0 && x.Call.Args[0] == v {
					push(x)
				}
			}
		}
	}
	return d
}

func rootAllocOf(addr ssa.Value) *ssa.Alloc {
	for {
		switch x := addr.(type) {
		case *ssa.Alloc:
			return x
		case *ssa.FieldAddr:
			addr = x.X
		case *ssa.IndexAddr:
			addr = x.X
		default:
			return nil
		}
	}
}
