package eng

import (
	"golang.org/x/tools/go/ssa"
)

// Hit is a call site reached from an entry point, with its arguments expressed as terms over the
// entry point's parameters (parameters are bound through every intermediate call and closure).
type Hit struct {
	Call  ssa.CallInstruction
	Fn    *ssa.Function
	Args  []*Term // receiver first for invoke
	Env   *Env
	Chain []string
	// Levels: the functions on the way from the entry point (first) to Fn (last), each with its environment
	// and the call instruction that leads one level down (the matched call itself at the last level)
	Levels []ReachLevel
}

type ReachLevel struct {
	Fn   *ssa.Function
	Env  *Env
	Site ssa.CallInstruction
}

// Reach walks the module call tree from entry, binding parameters, and reports matching call sites.
func (tb *TB) Reach(entry *ssa.Function, match func(ssa.CallInstruction) bool, maxDepth int) []Hit {
	var hits []Hit
	visited := map[string]bool{}
	var levels []ReachLevel
	var walk func(fn *ssa.Function, e *Env, chain []string, depth int)
	walk = func(fn *ssa.Function, e *Env, chain []string, depth int) {
		if fn == nil || fn.Blocks == nil || depth > maxDepth {
			return
		}
		k := FuncName(fn) + "@" + e.Key()
		if visited[k] {
			return
		}
		visited[k] = true
		chain = append(append([]string(nil), chain...), FuncName(fn))
		EachInstr(fn, func(in ssa.Instruction) {
			ci, ok := in.(ssa.CallInstruction)
			if !ok {
				return
			}
			cc := ci.Common()
			var args []*Term
			if cc.IsInvoke() {
				args = append(args, tb.Val(cc.Value, e))
			}
			for _, a := range cc.Args {
				args = append(args, tb.Val(a, e))
			}
			levels = append(levels, ReachLevel{fn, e, ci})
			defer0 := len(levels) - 1
			if match(ci) {
				hits = append(hits, Hit{Call: ci, Fn: fn, Args: args, Env: e, Chain: chain, Levels: append([]ReachLevel(nil), levels...)})
			}
			defer func() { levels = levels[:defer0] }()
			if _, isB := cc.Value.(*ssa.Builtin); isB {
				return
			}
			if callee := cc.StaticCallee(); callee != nil {
				if tb.W.InModule(callee) {
					var free []*Term
					if mc, ok := cc.Value.(*ssa.MakeClosure); ok {
						for _, b := range mc.Bindings {
							free = append(free, tb.Val(b, e))
						}
					}
					walk(callee, &Env{Fn: callee, Params: args, Free: free}, chain, depth+1)
				}
				return
			}
			if !cc.IsInvoke() {
				ft := tb.Val(cc.Value, e)
				done := false
				for _, alt := range ft.Alts() {
					switch alt.Op {
					case "closure":
						if mc, ok := alt.Val.(*ssa.MakeClosure); ok {
							cf := mc.Fn.(*ssa.Function)
							walk(cf, &Env{Fn: cf, Params: args, Free: alt.Args}, chain, depth+1)
							done = true
						}
					case "fn":
						if f, ok := alt.Val.(*ssa.Function); ok && tb.W.InModule(f) {
							walk(f, &Env{Fn: f, Params: args}, chain, depth+1)
							done = true
						}
					}
				}
				if done {
					return
				}
			}
			for _, callee := range tb.W.Callees(ci) {
				if tb.W.InModule(callee) && callee.Blocks != nil {
					if callee.Synthetic != "" && len(callee.Params) != len(args) {
						walk(callee, nil, chain, depth+1)
						continue
					}
					walk(callee, &Env{Fn: callee, Params: args}, chain, depth+1)
				}
			}
		})
	}
	walk(entry, nil, nil, 0)
	return hits
}

// MatchCallee returns a matcher for static callees / invoked methods by resolved name.
func MatchCallee(names ...string) func(ssa.CallInstruction) bool {
	set := map[string]bool{}
	for _, n := range names {
		set[n] = true
	}
	return func(ci ssa.CallInstruction) bool { return set[CalleeName(ci.Common())] }
}
