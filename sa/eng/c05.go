package eng

import (
	"fmt"
	"go/token"
	"go/types"
	"strings"

	"golang.org/x/tools/go/ssa"
)

type msgSeg struct {
	Flag string // "" = unconditional
	Src  *Term
	// Appender: the segment is added by a verified append-and-pad helper f(dst, src, width) (Src is then the
	// synthetic call f(src, width) of the padding it performs)
	Appender *ssa.Function
}

// appendStep: t is `base` extended by one segment — append(base, seg...) or appendPad(base, src, width).
func appendStep(tb *TB, t *Term) (base *Term, seg msgSeg, ok bool) {
	if t.Op != "call" {
		return nil, msgSeg{}, false
	}
	if t.Sym == "builtin.append" && len(t.Args) == 2 {
		return t.Args[0], msgSeg{Src: t.Args[1]}, true
	}
	if cl, isCall := t.Val.(*ssa.Call); isCall && tb != nil && len(t.Args) == 3 {
		if f := cl.Call.StaticCallee(); f != nil && tb.W.InModule(f) && appendPadHelper(tb, f) == "" {
			return t.Args[0], msgSeg{Src: &Term{Op: "call", Sym: t.Sym, Args: t.Args[1:], Val: t.Val}, Appender: f}, true
		}
	}
	return nil, msgSeg{}, false
}

// appendPadHelper: f(dst, src, width) returns dst followed by exactly `width` bytes — src[:width] when src is at
// least that long, else src followed by zero bytes up to the width — by appends only. "" when it does.
func appendPadHelper(tb *TB, f *ssa.Function) string {
	if f == nil || f.Blocks == nil || len(f.Params) != 3 {
		return "not a function of (dst, src, width)"
	}
	if r, ok := tb.padAppenders[f]; ok {
		return r
	}
	if tb.padAppenders == nil {
		tb.padAppenders = map[*ssa.Function]string{}
	}
	why := appendPadHelper1(tb, f)
	tb.padAppenders[f] = why
	return why
}

func appendPadHelper1(tb *TB, f *ssa.Function) string {
	P := func(i int) string { return fmt.Sprintf("param(%s#%d)", FuncName(f), i) }
	res := tb.Results(f, nil, nil, 0)
	if len(res) != 1 {
		return "does not return one value"
	}
	// only appends, length tests and re-slicing; the only stores fill the one-byte literal of append(dst, 0)
	bad := ""
	EachInstr(f, func(in ssa.Instruction) {
		switch x := in.(type) {
		case *ssa.Call:
			if n := CalleeName(x.Common()); n != "builtin.append" && n != "builtin.len" {
				bad = "calls " + n
			}
		case *ssa.Store:
			ia, ok := x.Addr.(*ssa.IndexAddr)
			if !ok {
				bad = "stores outside an append literal"
				return
			}
			if al, ok := ia.X.(*ssa.Alloc); !ok || !strings.HasPrefix(al.Type().String(), "*[1]") {
				bad = "stores outside an append literal"
			}
		case *ssa.Go, *ssa.Defer, *ssa.MapUpdate, *ssa.Send, *ssa.Panic:
			bad = "has other effects"
		}
	})
	if bad != "" {
		return bad
	}
	// the one-shot form: dst = append(dst, data...); if m := width − len(data); m > 0 { dst = append(dst, make([]byte, m)...) }
	if r := res[0]; r.Op == "ite" && len(r.Args) == 3 && r.Args[0].Op == "bin" && len(r.Args[0].Args) == 2 {
		cnd, th, el := r.Args[0], r.Args[1], r.Args[2]
		var m *Term
		switch {
		case cnd.Sym == ">" && cnd.Args[1].IsConst() && cnd.Args[1].Sym == "0":
			m = cnd.Args[0]
		case cnd.Sym == "<" && cnd.Args[0].IsConst() && cnd.Args[0].Sym == "0":
			m = cnd.Args[1]
		}
		if m != nil && el.Op == "call" && el.Sym == "builtin.append" && len(el.Args) == 2 && el.Args[0].String() == P(0) &&
			th.Op == "call" && th.Sym == "builtin.append" && len(th.Args) == 2 && th.Args[0].String() == el.String() &&
			th.Args[1].Op == "makeslice" && len(th.Args[1].Args) >= 1 && th.Args[1].Args[0].String() == m.String() {
			src := el.Args[1]
			if why := cutToWidth(src, P(1), P(2)); why != "" {
				return why
			}
			if m.String() != "bin(-; "+P(2)+"; len("+src.String()+"))" {
				return "the number of padding bytes is " + clip(m.String(), 120) + ", not width − len(data)"
			}
			return ""
		}
	}
	alts := res[0].Alts()
	var first, loop *Term
	for _, a := range alts {
		if a.Op != "call" || a.Sym != "builtin.append" || len(a.Args) != 2 {
			return "a result is not an append: " + clip(a.String(), 100)
		}
		switch {
		case a.Args[0].String() == P(0) && first == nil:
			first = a
		case a.Args[0].Op == "cycle" && loop == nil:
			loop = a
		default:
			return "the result is not dst extended by appends: " + clip(a.String(), 100)
		}
	}
	if first == nil {
		return "the data is not appended to dst"
	}
	// the data: src cut to the width
	src := first.Args[1]
	if why := cutToWidth(src, P(1), P(2)); why != "" {
		return why
	}
	if loop == nil {
		return "shorter inputs are not padded"
	}
	if !isZeroByteSlice(tb, loop.Args[1]) {
		return "the padding appended per round is not one zero byte"
	}
	// exactly width − len(data) rounds: n from len(data) while n < width, n++ ; or the remaining count down to 0
	conds := 0
	okLoop := false
	EachInstr(f, func(in ssa.Instruction) {
		iff, isIf := in.(*ssa.If)
		if !isIf {
			return
		}
		ct := tb.Of(iff.Cond)
		if !strings.Contains(ct.String(), "cycle(") {
			return
		}
		conds++
		switch normT(ct) {
		case "bin(<; phi(bin(+; const(1); cycle(*)); len(" + src.String() + ")); " + P(2) + ")",
			"bin(>; " + P(2) + "; phi(bin(+; const(1); cycle(*)); len(" + src.String() + ")))":
			okLoop = true
		}
	})
	if conds != 1 || !okLoop {
		return "the padding loop does not run exactly width − len(data) times"
	}
	return ""
}

// parseLayout linearises the append chain of the OCRA message (engine H): first segment first.
func parseLayout(tb *TB, t *Term) ([]msgSeg, string) {
	var rev []msgSeg
	for i := 0; i < 64; i++ {
		base, seg, isStep := appendStep(tb, t)
		switch {
		case t.Op == "slice" && t.Args[2].IsConst() && t.Args[2].Sym == "0":
			out := make([]msgSeg, len(rev))
			for k := range rev {
				out[len(rev)-1-k] = rev[k]
			}
			return out, ""
		case isStep:
			rev = append(rev, seg)
			t = base
		case t.Op == "ite":
			a, b := t.Args[1], t.Args[2]
			if ba, sa, ok := appendStep(tb, a); ok && ba.String() == b.String() {
				sa.Flag = t.Args[0].String()
				rev = append(rev, sa)
				t = b
			} else if bb, sb, ok := appendStep(tb, b); ok && bb.String() == a.String() {
				sb.Flag = "!" + t.Args[0].String()
				rev = append(rev, sb)
				t = a
			} else {
				return nil, "a conditional step of the message is not 'append one segment under one flag': " + clip(t.Args[0].String(), 120)
			}
		case t.Op == "call" && tb != nil && tb.Expand(t, 1) != t:
			// the chain (or a part of it) is built by a module helper: read its result with the arguments bound
			t = tb.Expand(t, 1)
		default:
			return nil, "the message does not start from an empty slice ([:0]) / is not a chain of appends: " + clip(t.String(), 160)
		}
	}
	return nil, "message chain too long"
}

// checkPadHelper (R05.2): f(input, width) returns exactly width bytes: input[:width] when long enough,
// else a fresh zeroed buffer with the input copied at offset 0 (right padding).
func checkPadHelper(c *Check, w *World, tb *TB, rule string, f *ssa.Function) {
	fn := FuncName(f)
	pos := w.Pos(f.Pos())
	if len(f.Params) != 2 {
		c.Unk(rule, fn, "pad-helper", "padding helper does not take (input, width)", pos)
		return
	}
	paths, err := EnumPaths(f, 64)
	if err != nil {
		c.Unk(rule, fn, "pad-helper", "padding helper is not loop-free: "+err.Error(), pos)
		return
	}
	in, wd := tb.Of(f.Params[0]).String(), tb.Of(f.Params[1]).String()
	okAll := len(paths) > 0
	why := ""
	for _, p := range paths {
		if p.Ret == nil {
			okAll, why = false, "a path does not return"
			continue
		}
		rt := tb.Of(p.Result(0))
		// classify the path by its condition on len(input) vs width
		long := 0 // 1: len >= width, 2: len < width
		for _, pc := range p.Conds {
			t := tb.Of(pc.Cond)
			if t.Op != "bin" {
				continue
			}
			a, b := t.Args[0].String(), t.Args[1].String()
			op := tokenOf(t.Sym)
			if !pc.Taken {
				op = negOp(op)
			}
			if a == wd && b == "len("+in+")" {
				a, b = b, a
				op = flipOp(op)
			}
			if a == "len("+in+")" && b == wd {
				switch op {
				case token.GEQ, token.GTR:
					long = 1 // (at len == width both branches give the same bytes)
				case token.LSS, token.LEQ:
					long = 2
				case token.EQL, token.NEQ:
					okAll, why = false, "the split between truncation and padding is at len "+op.String()+" width, not len >= width"
				}
			}
		}
		switch long {
		case 1:
			want := fmt.Sprintf("slice(%s; none; %s; none)", in, wd)
			if rt.String() != want {
				okAll, why = false, "for inputs of at least the width the result is "+clip(rt.String(), 120)+", not input[:width]"
			}
		case 2:
			if rt.Op != "makeslice" || rt.Args[0].String() != wd {
				okAll, why = false, "for shorter inputs the result is "+clip(rt.String(), 120)+", not a fresh zeroed buffer of the width"
				break
			}
			// exactly one write into the buffer: copy(buf, input) at offset 0
			copies, others := 0, 0
			for _, b := range p.Blocks {
				for _, ins := range b.Instrs {
					switch x := ins.(type) {
					case *ssa.Call:
						if CalleeName(x.Common()) == "builtin.copy" {
							d, s := tb.Of(x.Call.Args[0]), tb.Of(x.Call.Args[1])
							// destination: the buffer, or its prefix [:len(input)] / [:width] (copy moves len(input) bytes either way)
							dstOK := d.String() == rt.String()
							if d.Op == "slice" && len(d.Args) >= 3 && d.Args[0].String() == rt.String() && (d.Args[1].Op == "none" || (d.Args[1].IsConst() && d.Args[1].Sym == "0")) &&
								(d.Args[2].String() == "len("+in+")" || d.Args[2].String() == wd) {
								dstOK = true
							}
							if dstOK && s.String() == in {
								copies++
							} else {
								others++
							}
						}
					case *ssa.Store:
						others++
					}
				}
			}
			if copies != 1 || others != 0 {
				okAll, why = false, fmt.Sprintf("the padded buffer is filled by %d copy(buf, input) and %d other writes; expected exactly copy(buf, input) at offset 0 (zeros on the right)", copies, others)
			}
		default:
			okAll, why = false, "a path is not conditioned on len(input) vs width"
		}
	}
	c.Decide(okAll, rule, fn, "pad-helper", "returns exactly `width` bytes: input[:width], or a fresh zeroed buffer with the input copied at offset 0 (right zero padding)", "padding helper deviates: "+why, pos)
}

// ruleConstructorIdentity: a suite built from a hand-made configuration (NewSuite) carries exactly that
// configuration — in particular its suite-string text, which is the first part of the HMAC message.
func ruleConstructorIdentity(c *Check, w *World, tb *TB, rule string) {
	n := 0
	for _, f := range w.ModuleFuncs(OtpPath) {
		if f.Object() == nil || !f.Object().Exported() || f.Signature.Recv() != nil || len(f.Params) != 1 {
			continue
		}
		if nm, ok := f.Params[0].Type().(*types.Named); !ok || nm.Obj().Name() != "SuiteConfig" {
			continue
		}
		res := f.Signature.Results()
		if res.Len() == 0 {
			continue
		}
		if nm, ok := res.At(0).Type().(*types.Named); !ok || nm.Obj().Name() != "Suite" {
			continue
		}
		n++
		fn := FuncName(f)
		rs := tb.Results(f, nil, nil, 0)
		p0 := fmt.Sprintf("param(%s#0)", fn)
		ok, got := true, ""
		some := false
		for _, a := range rs[0].Alts() {
			if a.IsConst() && a.Sym == "nil" {
				continue
			}
			some = true
			cfgT := a
			if a.Op == "struct" && a.Sym == "SuiteConfig" && len(a.Args) == 1 {
				cfgT = a.Args[0]
			}
			if cfgT.String() != p0 {
				ok, got = false, a.String()
			}
		}
		c.Decide(ok && some, rule, fn, "constructor-identity", "the suite carries the given configuration unchanged (suite-string text included)", "the suite is built from "+clip(got, 200)+", not from the given configuration unchanged", w.Pos(f.Pos()))
	}
	if n == 0 {
		c.Unk(rule, "otp", "constructor-identity", "no constructor from a SuiteConfig found (NewSuite)", "")
	}
}

func runC05(c *Check, w *World) {
	tb := NewTB(w)
	ef := NewEffects(tb)
	iv := newIVWithTables(w, tb, ef)
	sent := sentinelErrors(w, tb, ef)
	gen := w.Func(OtpPath, "GenerateOCRA")
	if gen == nil {
		c.Fatal("anchor not found: GenerateOCRA")
		return
	}
	ders := derivationsFrom(w, gen)
	if len(ders) != 1 {
		c.Unk("R05.0", FuncName(gen), "derivation", fmt.Sprintf("%d functions finalise an HMAC on the path from GenerateOCRA, expected one", len(ders)), w.Pos(gen.Pos()))
		return
	}
	der := ders[0]
	fn := FuncName(der)
	sp, ip, kp := paramOfIface(der, "Suite"), paramOfType(der, "OCRAInput"), -1
	for i, p := range der.Params {
		if p.Type().String() == "[]byte" {
			kp = i
		}
	}
	if sp < 0 || ip < 0 || kp < 0 {
		c.Fatal("%s: cannot identify key/suite/input parameters", fn)
		return
	}
	S := fmt.Sprintf("param(%s#%d)", fn, sp)
	IN := fmt.Sprintf("param(%s#%d)", fn, ip)
	CFG := "invoke((github.com/ja7ad/otp.Suite).Config; " + S + ")"
	fld := func(n, base string) string { return "field(" + n + "; " + base + ")" }

	// entry side: key and arguments
	hits := tb.Reach(gen, func(ci ssa.CallInstruction) bool { return ci.Common().StaticCallee() == der }, 6)
	if len(hits) == 1 {
		h := hits[0]
		gfn := FuncName(gen)
		gs, _ := secretAndCodeParams(tb, gen)
		c.Decide(h.Args[kp].String() == fmt.Sprintf("extract(0; call(github.com/ja7ad/otp.DecodeSecret; param(%s#%d)))", gfn, gs), "R05.3", gfn, "key-is-decoded-secret", "the derivation key is DecodeSecret(secret)", "key: "+clip(h.Args[kp].String(), 160), w.InstrPos(h.Call))
		c.Decide(h.Args[sp].String() == fmt.Sprintf("param(%s#%d)", gfn, paramOfIface(gen, "Suite")) && h.Args[ip].String() == fmt.Sprintf("param(%s#%d)", gfn, paramOfType(gen, "OCRAInput")), "R05.3", gfn, "suite-and-input-forwarded", "the caller's suite and input reach the derivation unchanged", "suite/input handed to the derivation: "+clip(h.Args[sp].String(), 80)+" / "+clip(h.Args[ip].String(), 80), w.InstrPos(h.Call))
	} else {
		c.Unk("R05.0", FuncName(gen), "derivation-call", fmt.Sprintf("%d call sites of the derivation, expected one", len(hits)), w.Pos(gen.Pos()))
	}

	// R05.1 layout
	sums := sumCallsIn(der)
	if len(sums) != 1 {
		c.Unk("R05.1", fn, "hmac", "expected exactly one HMAC finalisation", w.Pos(der.Pos()))
		return
	}
	macT := tb.Of(sums[0]).Args[0]
	var writes []ssa.CallInstruction
	EachInstr(der, func(in ssa.Instruction) {
		if ci, ok := in.(ssa.CallInstruction); ok && CalleeName(ci.Common()) == "(hash.Hash).Write" && tb.Of(ci.Common().Value).String() == macT.String() {
			writes = append(writes, ci)
		}
	})
	if len(writes) != 1 {
		c.Bad("R05.1", fn, "single-write", fmt.Sprintf("the HMAC receives %d Write calls, expected exactly one (the assembled message)", len(writes)), w.Pos(der.Pos()))
		return
	}
	wr := writes[0]
	c.Decide(dominatesInstr(wr, sums[0]), "R05.1", fn, "write-before-sum", "the message is written before the HMAC is finalised", "Write does not precede Sum on every path", w.InstrPos(wr))
	segs, why := parseLayout(tb, tb.Of(wr.Common().Args[0]))
	if why != "" {
		c.Unk("R05.1", fn, "layout", why, w.InstrPos(wr))
	} else {
		type want struct {
			flag, desc string
			match      func(t *Term) bool
		}
		pad := func(field string, width int) func(t *Term) bool {
			return func(t *Term) bool {
				if t.Op != "call" || len(t.Args) != 2 {
					return false
				}
				cl, ok := t.Val.(*ssa.Call)
				if !ok || cl.Call.StaticCallee() == nil || !w.InModule(cl.Call.StaticCallee()) {
					return false
				}
				return t.Args[0].String() == fld(field, IN) && t.Args[1].IsConst() && t.Args[1].Sym == fmt.Sprint(width)
			}
		}
		wants := []want{
			{"", "suite string", func(t *Term) bool {
				return t.String() == "conv([]byte; "+fld("Raw", CFG)+")" || t.String() == fld("Raw", CFG) // append(dst, s...) takes the string itself
			}},
			{"", "one zero byte", func(t *Term) bool { return isZeroByteSlice(tb, t) }},
			{fld("IncludeCounter", CFG), "counter padded to 8", pad("Counter", 8)},
			{fld("IncludeChallenge", CFG), "challenge right-padded to 128", pad("Challenge", 128)},
			{fld("IncludePassword", CFG), "password hash as given", func(t *Term) bool { return t.String() == fld("Password", IN) }},
			{fld("IncludeSession", CFG), "session information right-padded to 128", pad("SessionInfo", 128)},
			{fld("IncludeTimestamp", CFG), "timestamp padded to 8", pad("Timestamp", 8)},
		}
		if len(segs) != len(wants) {
			c.Bad("R05.1", fn, "layout", fmt.Sprintf("the message has %d segments, RFC 6287 prescribes %d (suite, 0x00, C, Q, P, S, T)", len(segs), len(wants)), w.InstrPos(wr))
		} else {
			for i, sg := range segs {
				wn := wants[i]
				construct := fmt.Sprintf("segment#%d:%s", i, wn.desc)
				switch {
				case sg.Flag != wn.flag:
					c.Bad("R05.1", fn, construct, fmt.Sprintf("segment %d is included under %q, expected %q", i, sg.Flag, wn.flag), w.InstrPos(wr))
				case !wn.match(sg.Src):
					c.Bad("R05.1", fn, construct, fmt.Sprintf("segment %d is %s, expected %s", i, clip(sg.Src.String(), 160), wn.desc), w.InstrPos(wr))
				default:
					c.OK("R05.1", fn, construct, "position, guard flag, source field and pad width as RFC 6287 prescribes", w.InstrPos(wr))
				}
			}
		}
		// R05.2 every padding helper used in the layout
		seen := map[*ssa.Function]bool{}
		for _, sg := range segs {
			if sg.Appender != nil {
				if !seen[sg.Appender] {
					seen[sg.Appender] = true
					c.OK("R05.2", FuncName(sg.Appender), "pad-helper", "appends exactly `width` bytes to its first argument: src[:width], or src followed by zero bytes up to the width (one zero byte per round, width − len rounds)", w.Pos(sg.Appender.Pos()))
				}
				continue
			}
			if cl, ok := sg.Src.Val.(*ssa.Call); ok && sg.Src.Op == "call" {
				if f := cl.Call.StaticCallee(); f != nil && w.InModule(f) && !seen[f] {
					seen[f] = true
					checkPadHelper(c, w, tb, "R05.2", f)
				}
			}
		}
	}

	// R05.4 gates first + suite contract
	inVal := w.Func(OtpPath, "OCRAInput.Validate")
	gated := 0
	EachInstr(der, func(in ssa.Instruction) {
		ci, ok := in.(ssa.CallInstruction)
		if !ok {
			return
		}
		cc := ci.Common()
		if cc.IsInvoke() && cc.Method.Name() == "Validate" && tb.Of(cc.Value).String() == S {
			gated++
			gateDominates(c, w, "R05.4", der, ci, "suite.Validate")
		}
		if inVal != nil && cc.StaticCallee() == inVal {
			gated++
			a := tb.Of(cc.Args[0]).String()
			b := tb.Of(cc.Args[1]).String()
			c.Decide(a == IN && b == CFG, "R05.4", fn, "input-validated-against-config", "the derivation's own input is validated against Config() of its own suite", "input.Validate is applied to "+clip(a, 80)+" / "+clip(b, 80), w.InstrPos(in))
			gateDominates(c, w, "R05.4", der, ci, "input.Validate")
		}
	})
	if gated < 2 {
		c.Bad("R05.4", fn, "validators-called", "the derivation does not run both suite.Validate() and input.Validate(cfg) before building the message", w.Pos(der.Pos()))
	}
	ruleSuiteAdmission(c, w, tb)
	ruleConstructorIdentity(c, w, tb, "R05.4")
	// registered names: each registry entry is the configuration its name denotes (so the code for a registered
	// name is the code of that suite)
	ruleRegistryFidelity(c, w, "R05.6")
	// contract facts for the table indices
	iv.Assume[fld("Digits", CFG)] = Itv{bi(4), bi(10)}
	iv.Assume[fld("Hash", CFG)] = Itv{bi(0), bi(2)}

	// R05.3 the RFC 4226 tail on the suite's hash/digits
	roles := roleTerms{Key: fmt.Sprintf("param(%s#%d)", fn, kp), Digits: fld("Digits", CFG), Algo: fld("Hash", CFG)}
	pipe := checkHOTPDerivation(c, w, tb, iv, ef, "R05.3", der, roles, sent, 4, 10)
	if pipe != nil && pipe.modT != nil {
		checkModTable(c, w, "R05.3.1", strings.TrimPrefix(pipe.modT.Args[0].Sym, "otp."), 4, 10)
	}

	// R05.5 unselected fields have no influence: each input field is read only under its own flag
	flagOf := map[string]string{"Counter": "IncludeCounter", "Challenge": "IncludeChallenge", "Password": "IncludePassword", "SessionInfo": "IncludeSession", "Timestamp": "IncludeTimestamp"}
	var scanReads func(f *ssa.Function, e *Env, depth int)
	scanReads = func(f *ssa.Function, e *Env, depth int) {
		EachInstr(f, func(in ssa.Instruction) {
			var fname string
			var base ssa.Value
			switch x := in.(type) {
			case *ssa.Field:
				fname, base = fieldName(x.X.Type(), x.Field), x.X
			case *ssa.FieldAddr:
				fname, base = fieldName(x.X.Type(), x.Field), x.X
			case ssa.CallInstruction:
				// message-building helpers handed the input: their reads count, with the arguments bound
				g := x.Common().StaticCallee()
				if g == nil || !w.InModule(g) || g.Blocks == nil || depth >= 2 || paramOfType(g, "OCRAInput") < 0 || strings.HasSuffix(FuncName(g), ".Validate") {
					return
				}
				var args []*Term
				for _, a := range x.Common().Args {
					args = append(args, tb.Val(a, e))
				}
				scanReads(g, &Env{Fn: g, Params: args}, depth+1)
				return
			default:
				return
			}
			flag, isInputField := flagOf[fname]
			if !isInputField {
				return
			}
			bt := tb.Val(base, e)
			if bt.String() != IN && !(bt.Op == "alloc" && tb.derefOf(bt, nil).String() == IN) {
				return
			}
			ok := false
			for _, cd := range CondsAt(in.Block()) {
				if cd.Pos && tb.Val(cd.V, e).String() == fld(flag, CFG) {
					ok = true
				}
			}
			c.Decide(ok, "R05.5", FuncName(f), "field-read:"+fname, "input."+fname+" is read only where the suite selects it ("+flag+")", "input."+fname+" is read on a path where "+flag+" is not known to be set: an unselected field can influence the code", w.InstrPos(in))
		})
	}
	scanReads(der, nil, 0)
	ruleHistoryIndependence(c, w, tb, ef, "R05.H", gen)
	checkRESTEndpoints(c, w, tb, ef, "R05.REST", "/ocra/generate")
	c.Floor("R05.1", 8)
	c.Floor("R05.2", 1)
	c.Floor("R05.4", 4)
	c.Floor("R05.5", 5)
}

// isZeroByteSlice: a one-element byte slice holding the constant 0 (append(msg, 0x00)).
func isZeroByteSlice(tb *TB, t *Term) bool {
	if t.Op != "slice" || t.Args[0].Op != "alloc" {
		return false
	}
	a := t.Args[0].Val.(*ssa.Alloc)
	if !strings.HasPrefix(a.Type().String(), "*[1]") {
		return false
	}
	saved := tb.curLoad
	tb.curLoad = nil
	ct := tb.cellContent(a, t.Args[0], []string{"[0]"}, nil)
	tb.curLoad = saved
	return ct.IsConst() && ct.Sym == "0"
}

func init() {
	register(&propDef{
		id:    "C05",
		level: "other",
		explain: "R05.1 the argument of the single HMAC Write reached from GenerateOCRA is linearised from its append chain (gated SSA) and must be exactly: [always suite string] [always one 0x00] [IncludeCounter: pad(Counter,8)] [IncludeChallenge: pad(Challenge,128)] [IncludePassword: Password] [IncludeSession: pad(SessionInfo,128)] [IncludeTimestamp: pad(Timestamp,8)], starting from an empty slice — order, guard flag, source field and width per segment; " +
			"R05.2 the padding helper returns exactly `width` bytes: input[:width] or a fresh zeroed buffer with the input copied at offset 0 (all its paths enumerated); R05.3 the tail is the RFC 4226 composition of C01 (constructor table by the suite's hash, key = decoded secret, dynamic truncation lanes, modulus table 10^4..10^10 by the suite's digits, complete decimal rendering of that length); " +
			"R05.4 suite.Validate() and input.Validate(cfg) on the derivation's own suite/input gate all pool/HMAC use, and the suite contract (Validate()==nil ⇒ digits 4..10, hash 0..2; Config() identity) is proved by the decision-table engine for every in-module implementer; R05.5 each input field is read only under its own flag. " +
			"Not decided: HMAC itself; equality for parser-produced names (C15).",
		trusted:  []string{"crypto/hmac and the hashes"},
		quick:    []Config{CfgNative, CfgWasm},
		thorough: []Config{CfgNative, CfgWasm, Cfg386},
		run:      runC05,
	})
}

// cutToWidth: src is  len(p1) > p2 ? p1[:p2] : p1  in any of its spellings; "" when it is.
func cutToWidth(src *Term, p1, p2 string) string {
	srcOK := false
	if src.Op == "ite" && src.Args[0].Op == "bin" && len(src.Args[0].Args) == 2 {
		cut := fmt.Sprintf("slice(%s; none; %s; none)", p1, p2)
		cut0 := fmt.Sprintf("slice(%s; const(0); %s; none)", p1, p2)
		cnd := src.Args[0]
		op := tokenOf(cnd.Sym)
		x, y := cnd.Args[0].String(), cnd.Args[1].String()
		if x == p2 && y == "len("+p1+")" {
			x, y = y, x
			op = flipOp(op)
		}
		if x == "len("+p1+")" && y == p2 {
			th, el := src.Args[1].String(), src.Args[2].String()
			isCut := func(s string) bool { return s == cut || s == cut0 }
			switch op {
			case token.GTR, token.GEQ:
				srcOK = isCut(th) && el == p1
			case token.LSS, token.LEQ:
				srcOK = th == p1 && isCut(el)
			}
		}
	}
	if !srcOK {
		return "the appended data is " + clip(src.String(), 140) + ", not src cut to the width (src[:width] when longer)"
	}
	return ""
}
