package eng

import (
	"fmt"
	"go/types"
	"math/big"
	"strings"

	"golang.org/x/tools/go/ssa"
)

// derivationsFrom: module functions reachable from entry that invoke hash.Hash.Sum.
func derivationsFrom(w *World, entry *ssa.Function) []*ssa.Function {
	var out []*ssa.Function
	for f := range w.Reachable(entry) {
		if len(sumCallsIn(f)) > 0 {
			out = append(out, f)
		}
	}
	sortFuncs(out)
	return out
}

func newIVWithTables(w *World, tb *TB, ef *Effects) *IV {
	iv := NewIV(w, tb)
	cache := map[*ssa.Global][]*big.Int{}
	written := map[string]bool{}
	for _, f := range w.ModuleFuncs() {
		if isInit(f) {
			continue
		}
		for _, e := range ef.Of(f) {
			if e.Root.Op == "global" || e.Root.Op == "gval" {
				written[e.Root.Sym] = true
			}
		}
	}
	iv.Tables = func(g *ssa.Global) []*big.Int {
		if t, ok := cache[g]; ok {
			return t
		}
		var t []*big.Int
		if g.Pkg != nil && g.Pkg.Pkg.Path() == OtpPath && !written[valID(g)] {
			if tab, err := w.IntTable(OtpPath, g.Name()); err == nil {
				t = tab
			}
		}
		cache[g] = t
		return t
	}
	return iv
}

type hotpPipe struct {
	der   *ssa.Function
	sum   *ssa.Call
	sumT  *Term
	modT  *Term
	rends []*ssa.Function
}

// checkHOTPDerivation applies the RFC 4226 composition rules to one derivation function.
// roles give the parameter indices of key, counter, digits and algorithm.
func checkHOTPDerivation(c *Check, w *World, tb *TB, iv *IV, ef *Effects, pfx string, der *ssa.Function, roles roleTerms, sent map[string]bool, dLo, dHi int64) *hotpPipe {
	fn := FuncName(der)
	pos := w.Pos(der.Pos())
	pipe := &hotpPipe{der: der}
	sums := sumCallsIn(der)
	if len(sums) != 1 {
		c.Unk(pfx+".4", fn, "hmac", fmt.Sprintf("%d HMAC finalisations in the derivation, expected exactly one", len(sums)), pos)
		return nil
	}
	sum := sums[0]
	sumT := tb.Of(sum)
	pipe.sum, pipe.sumT = sum, sumT
	macT := sumT.Args[0]
	// --- R.4 hash constructor ---
	prefixOK := len(sumT.Args) == 2 && sumT.Args[1].IsConst() && sumT.Args[1].Sym == "nil"
	c.Decide(prefixOK, pfx+".4", fn, "sum-prefix", "Sum is called with a nil prefix: the result is exactly the HMAC", "Sum is called with a non-nil prefix: the bytes used for truncation are not exactly the HMAC output", w.InstrPos(sum))
	var keyT, algoIdx *Term
	switch {
	case macT.Op == "calldyn" && len(macT.Args) == 2 && macT.Args[0].Op == "field" && macT.Args[0].Args[0].Op == "index" && macT.Args[0].Args[0].Args[0].Op == "gval":
		tabSym := macT.Args[0].Args[0].Args[0].Sym
		algoIdx = macT.Args[0].Args[0].Args[1]
		keyT = macT.Args[1]
		table, keyOK, err := hashTableOf(w, tb, tabSym, macT.Args[0].Sym)
		if err != nil || len(table) == 0 {
			c.Unk(pfx+".4", fn, "hash-table", "constructor table "+tabSym+" cannot be evaluated", pos)
		} else {
			for k, want := range wantHash {
				got := table[int(k)]
				c.Decide(got == want && keyOK[int(k)], pfx+".4", tabSym, fmt.Sprintf("constructor[%d]", k), "entry builds HMAC with "+want+" keyed by its own argument", fmt.Sprintf("entry %d builds HMAC with %s (key passed through: %v), expected %s", k, got, keyOK[int(k)], want), "")
			}
			if len(table) != len(wantHash) {
				c.Bad(pfx+".4", tabSym, "constructor-count", fmt.Sprintf("table has %d constructors, the three supported hashes are expected", len(table)), "")
			}
		}
	case macT.Op == "call" && macT.Sym == "crypto/hmac.New" && len(macT.Args) == 2:
		keyT = macT.Args[1]
		// hash chosen by a switch on the algorithm — or by indexing a local array literal with it: each case /
		// entry must select the hash of the same name
		tabl := enumSwitchFuncs(w, tb, der, roles.Algo)
		if ht := macT.Args[0]; len(tabl) == 0 && ht.Op == "index" && len(ht.Args) == 2 {
			if lt, idx := localFuncArray(tb, der, ht); idx != nil && idx.String() == roles.Algo {
				for k, v := range lt {
					tabl[k] = v
				}
			}
			if lt, idx := globalFuncArray(w, ht); idx != nil && idx.String() == roles.Algo && len(tabl) == 0 {
				for k, v := range lt {
					tabl[k] = v
				}
			}
		}
		for k, want := range wantHash {
			got := tabl[k]
			c.Decide(got == want, pfx+".4", fn, fmt.Sprintf("hash-case[%d]", k), "algorithm case selects "+want, fmt.Sprintf("algorithm %d selects %q, expected %s", k, got, want), pos)
		}
		for k, got := range tabl {
			if _, ok := wantHash[k]; !ok {
				c.Bad(pfx+".4", fn, fmt.Sprintf("hash-case[%d]", k), "an unsupported algorithm value selects "+got+" instead of being refused", pos)
			}
		}
	default:
		c.Unk(pfx+".4", fn, "hmac-constructor", "HMAC object is not built by the constructor table or hmac.New: "+clip(macT.String(), 200), w.InstrPos(sum))
	}
	if algoIdx != nil {
		c.Decide(algoIdx.String() == roles.Algo, pfx+".4", fn, "hash-index", "the constructor is selected by the algorithm argument", "the constructor table is indexed by "+clip(algoIdx.String(), 120)+", not by the algorithm argument", w.InstrPos(sum))
	}
	// --- R.6 key path ---
	if keyT != nil {
		c.Decide(keyT.String() == roles.Key, pfx+".6", fn, "hmac-key", "the HMAC key is the decoded secret itself (no slicing, hashing, padding or copy on the way)", "the HMAC key is "+clip(keyT.String(), 160)+", not the decoded secret unchanged", w.InstrPos(sum))
	}
	// --- R.5 counter path ---
	var writes []ssa.CallInstruction
	var puts []ssa.CallInstruction
	EachInstr(der, func(in ssa.Instruction) {
		ci, ok := in.(ssa.CallInstruction)
		if !ok {
			return
		}
		n := CalleeName(ci.Common())
		if n == "(hash.Hash).Write" && tb.Of(ci.Common().Value).String() == macT.String() {
			writes = append(writes, ci)
		}
		if strings.Contains(n, "encoding/binary.") && (strings.HasSuffix(n, "PutUint64") || strings.HasSuffix(n, "AppendUint64") || strings.HasSuffix(n, "PutUint32") || strings.HasSuffix(n, "PutUint16")) {
			puts = append(puts, ci)
		}
	})
	if roles.Counter != "" {
		okCounter := false
		why := ""
		switch {
		case len(writes) != 1:
			why = fmt.Sprintf("%d Write calls on the HMAC, expected exactly one (the 8 counter bytes)", len(writes))
		case len(puts) == 0 && handBigEndian8(tb, der, writes[0].Common().Args[0], roles.Counter) == "":
			// the byte loop msg[i] = byte(counter >> (8*(7-i))), i = 0..7, written into the whole array that is hashed
			okCounter = dominatesInstr(writes[0], sum)
			if !okCounter {
				why = "Write → Sum are not in this order on every path"
			}
		case len(puts) != 1:
			why = fmt.Sprintf("%d binary.Put* calls, expected exactly one big-endian PutUint64 of the counter", len(puts))
			if len(puts) == 0 {
				why += " (" + handBigEndian8(tb, der, writes[0].Common().Args[0], roles.Counter) + ")"
			}
		default:
			put, wr := puts[0], writes[0]
			pn := CalleeName(put.Common())
			pargs := put.Common().Args
			bufArg, valArg := pargs[len(pargs)-2], pargs[len(pargs)-1]
			wbuf := wr.Common().Args[0]
			switch {
			case pn != "(encoding/binary.bigEndian).PutUint64":
				why = "the counter is encoded with " + pn + ", not big-endian PutUint64"
			case tb.Of(valArg).String() != roles.Counter:
				why = "the value encoded is " + clip(tb.Of(valArg).String(), 120) + ", not the counter argument unchanged"
			case !wholeArray8(bufArg) || !wholeArray8(wbuf):
				why = "the encode buffer / the bytes written to the HMAC are not the whole 8-byte array"
			case tb.Of(bufArg).String() != tb.Of(wbuf).String():
				why = "the HMAC is fed a different buffer than the one the counter was encoded into"
			case !dominatesInstr(put, wr) || !dominatesInstr(wr, sum):
				why = "encode → Write → Sum are not in this order on every path"
			default:
				okCounter = true
			}
			// nothing else writes the buffer between encode and Write
			if okCounter {
				D := DerivedSet([]ssa.Value{rootOfSlice(bufArg)})
				EachInstr(der, func(in ssa.Instruction) {
					if st, ok := in.(*ssa.Store); ok && D[st.Addr] {
						okCounter = false
						why = "the counter buffer is modified by a store besides the big-endian encode"
					}
				})
			}
		}
		c.Decide(okCounter, pfx+".5", fn, "counter-message", "the HMAC message is exactly the 8-byte big-endian encoding of the counter argument", "message construction differs from RFC 4226: "+why, pos)
		// counter isolation: the counter has no other use
		uses := 0
		if refs := roles.CounterParam.Referrers(); roles.CounterParam != nil && refs != nil {
			for _, r := range *refs {
				if _, dbg := r.(*ssa.DebugRef); !dbg {
					uses++
				}
			}
		}
		c.Decide(uses == 1, pfx+".5", fn, "counter-isolation", "the counter flows only into the big-endian encode (no truncation, comparison or special case)", fmt.Sprintf("the counter has %d uses in the derivation; besides the encode it is converted, compared or otherwise used", uses), pos)
	}
	// --- the number and the renderers ---
	var res0 *Term
	rs := tb.Results(der, nil, nil, 0)
	if len(rs) > 0 {
		res0 = rs[0]
	}
	okShape := res0 != nil
	seenRend := map[*ssa.Function]bool{}
	nCodes := 0
	if res0 != nil {
		for _, alt := range res0.Alts() {
			if alt.IsConst() {
				continue // "" on error paths (pairing checked below)
			}
			cl, isCall := alt.Val.(*ssa.Call)
			var rend *ssa.Function
			var numT, dT *Term
			if alt.Op != "call" || !isCall || cl.Call.StaticCallee() == nil || !w.InModule(cl.Call.StaticCallee()) || len(alt.Args) != 2 {
				ok := false
				if roles.AltCode != nil {
					numT, dT, ok = roles.AltCode(alt)
				}
				if !ok {
					okShape = false
					c.Unk(pfx+".8", fn, "code-source", "a returned code is not produced by a recognised renderer of (number, digits): "+clip(alt.String(), 160), pos)
					continue
				}
				cl = sum
			} else {
				rend = cl.Call.StaticCallee()
				numT, dT = alt.Args[0], alt.Args[1]
			}
			nCodes++
			rname := "inline"
			if rend != nil {
				rname = FuncName(rend)
			}
			c.Decide(dT.String() == roles.Digits, pfx+".8", fn, "render-length:"+rname, "the renderer gets the digits argument as length", "the renderer is given length "+clip(dT.String(), 100)+", not the digits argument", w.InstrPos(cl))
			// number = truncate(sum, mod)
			exp := tb.Expand(numT, 2)
			// find the modulus: the sub-term index(gval(table); D)
			var modT *Term
			numT.Walk(func(x *Term) bool {
				if x.Op == "index" && x.Args[0].Op == "gval" && strings.HasPrefix(x.Args[0].Sym, "otp.") && x.Typ != nil {
					if _, isInt, _ := intInfoOK(x.Typ, w); isInt {
						modT = x
						return false
					}
				}
				return true
			})
			if modT == nil {
				c.Unk(pfx+".1", fn, "modulus", "the reduction modulus does not come from a package-level table indexed by the digits: "+clip(numT.String(), 200), w.InstrPos(cl))
			} else {
				pipe.modT = modT
				c.Decide(modT.Args[1].String() == roles.Digits, pfx+".1", fn, "modulus-index", "the modulus table is indexed by the digits argument", "the modulus table is indexed by "+clip(modT.Args[1].String(), 100), w.InstrPos(cl))
				if !seenRend[rend] {
					checkTruncation(c, w, pfx+".7", fn, exp, sumT, modT, w.InstrPos(cl), roles.ModOK)
				}
			}
			if !seenRend[rend] {
				seenRend[rend] = true
				if rend != nil {
					pipe.rends = append(pipe.rends, rend)
					checkRenderer(c, w, tb, iv, pfx+".8", rend)
				}
			}
		}
	}
	if okShape && nCodes == 0 {
		c.Bad(pfx+".8", fn, "code-source", "the derivation never returns a rendered code", pos)
	}
	// --- R.2/R.3 gates and (code, error) pairing ---
	EachInstr(der, func(in ssa.Instruction) {
		ia, ok := in.(*ssa.IndexAddr)
		if !ok {
			return
		}
		g, ok := ia.X.(*ssa.Global)
		if !ok {
			return
		}
		it := tb.Of(ia.Index).String()
		switch {
		case roles.Digits != "" && it == roles.Digits:
			checkIndexGate(c, w, iv, pfx+".2", fn, "digits-gate@"+g.Name(), ia.Index, in, dLo, dHi, "the code length")
		case roles.Algo != "" && it == roles.Algo:
			checkIndexGate(c, w, iv, pfx+".3", fn, "algorithm-gate@"+g.Name(), ia.Index, in, 0, 2, "the hash selector")
		}
	})
	for i, r := range Returns(der) {
		if len(r.Results) != 2 {
			continue
		}
		construct := fmt.Sprintf("code-error-pairing#%d", i)
		type pr struct {
			v0, v1 ssa.Value
			b      *ssa.BasicBlock
		}
		var pairs []pr
		if sp := pairSpilled(r); sp != nil {
			for _, x := range sp {
				pairs = append(pairs, pr{x.v0, x.v1, x.b})
			}
		} else {
			pairs = []pr{{r.Results[0], r.Results[1], r.Block()}}
		}
		ok := true
		for _, p := range pairs {
			t0, t1 := tb.Of(p.v0), tb.Of(p.v1)
			codeEmpty := t0.IsConst() && t0.Sym == `""`
			errNil := t1.IsConst() && t1.Sym == "nil"
			errNonNil := nonNilAt(tb, p.v1, CondsAt(p.b), sent, 0)
			isCode := !t0.IsConst()
			if !((codeEmpty && errNonNil) || (isCode && errNil)) {
				ok = false
				c.Bad(pfx+".2", fn, construct, fmt.Sprintf("a return pairs code %s with error %s: a refusal must return no code and a non-nil error, a code must come with a nil error", clip(t0.String(), 80), clip(t1.String(), 80)), w.InstrPos(r))
			}
		}
		if ok {
			c.OK(pfx+".2", fn, construct, "every return is (rendered code, nil) or (\"\", provably non-nil error)", w.InstrPos(r))
		}
	}
	return pipe
}

// pairSpilled pairs the (result0, result1) values stored into defer-spilled result cells block by block.
type spilledPair struct {
	v0, v1 ssa.Value
	b      *ssa.BasicBlock
}

func pairSpilled(r *ssa.Return) []spilledPair {
	if len(r.Results) != 2 {
		return nil
	}
	u0, ok0 := r.Results[0].(*ssa.UnOp)
	u1, ok1 := r.Results[1].(*ssa.UnOp)
	if !ok0 || !ok1 {
		return nil
	}
	a0, ok0 := u0.X.(*ssa.Alloc)
	a1, ok1 := u1.X.(*ssa.Alloc)
	if !ok0 || !ok1 {
		return nil
	}
	byBlock := map[*ssa.BasicBlock]*spilledPair{}
	var order []*ssa.BasicBlock
	collect := func(a *ssa.Alloc, idx int) {
		if refs := a.Referrers(); refs != nil {
			for _, in := range *refs {
				if st, ok := in.(*ssa.Store); ok && st.Addr == ssa.Value(a) {
					p := byBlock[st.Block()]
					if p == nil {
						p = &spilledPair{b: st.Block()}
						byBlock[st.Block()] = p
						order = append(order, st.Block())
					}
					if idx == 0 {
						p.v0 = st.Val
					} else {
						p.v1 = st.Val
					}
				}
			}
		}
	}
	collect(a0, 0)
	collect(a1, 1)
	var out []spilledPair
	for _, b := range order {
		p := byBlock[b]
		if p.v0 == nil || p.v1 == nil {
			return nil
		}
		out = append(out, *p)
	}
	return out
}

// handBigEndian8: buf is the whole of a local [8]byte whose only stores are buf[i] = byte(counter >> s(i)) inside a
// loop over i = 0..7 with s(i) = 8*(7-i) for every i (folded for the eight values): the big-endian encoding of the
// counter written by hand. Returns "" when recognised, else why not.
func handBigEndian8(tb *TB, der *ssa.Function, buf ssa.Value, counterT string) string {
	if !wholeArray8(buf) {
		return "the bytes written to the HMAC are not a whole 8-byte array"
	}
	arr := rootOfSlice(buf)
	var stores []*ssa.Store
	EachInstr(der, func(in ssa.Instruction) {
		if st, ok := in.(*ssa.Store); ok {
			if ia, ok := st.Addr.(*ssa.IndexAddr); ok && ia.X == arr {
				stores = append(stores, st)
			}
		}
	})
	if len(stores) != 1 {
		return fmt.Sprintf("%d indexed stores into the message array, expected the single store of a byte loop", len(stores))
	}
	st := stores[0]
	ia := st.Addr.(*ssa.IndexAddr)
	idxT := tb.Of(ia.Index)
	vt := tb.Of(st.Val)
	if vt.Op != "conv" || (vt.Sym != "byte" && vt.Sym != "uint8") || len(vt.Args) != 1 {
		return "the byte stored is not a truncation of a shifted counter: " + clip(vt.String(), 120)
	}
	sh := vt.Args[0]
	if sh.Op == "bin" && sh.Sym == "&" && len(sh.Args) == 2 {
		for k := 0; k < 2; k++ {
			if sh.Args[k].IsConst() && sh.Args[k].Sym == "255" {
				sh = sh.Args[1-k]
			}
		}
	}
	if sh.Op != "bin" || sh.Sym != ">>" || sh.Args[0].String() != counterT {
		return "the byte stored is not counter >> s(i): " + clip(sh.String(), 120)
	}
	for i := int64(0); i < 8; i++ {
		v, ok := evalEnv(sh.Args[1], map[string]int64{idxT.String(): i})
		if !ok || v != 8*(7-i) {
			return fmt.Sprintf("byte %d is not bits %d..%d of the counter (shift %d)", i, 8*(7-i), 8*(7-i)+7, v)
		}
	}
	// the loop runs over i = 0..7: starts at 0, continues while i < 8, the store is in its body
	start0 := (idxT.Op == "phi" && func() bool {
		for _, a := range idxT.Alts() {
			if a.IsConst() && a.Sym == "0" {
				return true
			}
		}
		return false
	}()) || (idxT.Op == "bin" && idxT.Sym == "+" && strings.Contains(idxT.String(), "const(-1)") && strings.Contains(idxT.String(), "const(1)"))
	if !start0 {
		return "the byte index does not start at 0"
	}
	okLoop := false
	EachInstr(der, func(in ssa.Instruction) {
		if iff, ok := in.(*ssa.If); ok {
			ct := tb.Of(iff.Cond)
			if ct.Op == "bin" && ct.Sym == "<" && ct.Args[0].String() == idxT.String() && ct.Args[1].IsConst() && ct.Args[1].Sym == "8" {
				if tsucc := iff.Block().Succs[0]; tsucc == st.Block() || tsucc.Dominates(st.Block()) {
					okLoop = true
				}
			}
		}
	})
	if !okLoop {
		return "the byte loop does not run while i < 8"
	}
	return ""
}

func wholeArray8(v ssa.Value) bool {
	s, ok := v.(*ssa.Slice)
	if !ok || s.Low != nil || s.High != nil || s.Max != nil {
		return false
	}
	p, ok := s.X.Type().Underlying().(*types.Pointer)
	if !ok {
		return false
	}
	a, ok := p.Elem().Underlying().(*types.Array)
	return ok && a.Len() == 8
}

func rootOfSlice(v ssa.Value) ssa.Value {
	if s, ok := v.(*ssa.Slice); ok {
		return s.X
	}
	return v
}

// enumSwitchFuncs: for a switch on `subject` (== chains with integer constants), the function value
// each case contributes to a phi (or stores into a local).
func enumSwitchFuncs(w *World, tb *TB, f *ssa.Function, subject string) map[int64]string {
	out := map[int64]string{}
	for _, b := range f.Blocks {
		iff, ok := b.Instrs[len(b.Instrs)-1].(*ssa.If)
		if !ok {
			continue
		}
		bo, ok := iff.Cond.(*ssa.BinOp)
		if !ok || bo.Op.String() != "==" {
			continue
		}
		var k *big.Int
		var other ssa.Value
		if x, ok := constInt(bo.X); ok {
			k, other = x, bo.Y
		} else if x, ok := constInt(bo.Y); ok {
			k, other = x, bo.X
		}
		if k == nil || tb.Of(other).String() != subject {
			continue
		}
		tgt := b.Succs[0]
		for _, s := range tgt.Succs {
			for _, in := range s.Instrs {
				ph, ok := in.(*ssa.Phi)
				if !ok {
					break
				}
				for i, p := range s.Preds {
					if p == tgt {
						if fv, ok := ph.Edges[i].(*ssa.Function); ok {
							out[k.Int64()] = QualName(fv)
						} else if mc, ok := ph.Edges[i].(*ssa.MakeClosure); ok {
							out[k.Int64()] = QualName(mc.Fn.(*ssa.Function))
						}
					}
				}
			}
		}
	}
	return out
}

// rolesFromCall determines which parameter of the derivation plays which role from the argument
// terms at its call site in the public entry point.
func rolesFromCall(tb *TB, h Hit, der *ssa.Function) (derivRoles, string) {
	r := derivRoles{-1, -1, -1, -1}
	for i, a := range h.Args {
		s := a.String()
		pt := der.Params[i].Type()
		switch {
		case strings.HasPrefix(s, "extract(0; call(github.com/ja7ad/otp.DecodeSecret; param("):
			r.Key = i
		case strings.Contains(s, "field(Digits;"):
			r.Digits = i
		case strings.Contains(s, "field(Algorithm;"):
			r.Algo = i
		default:
			if b, ok := pt.Underlying().(*types.Basic); ok && b.Kind() == types.Uint64 {
				r.Counter = i
			}
		}
	}
	if r.Key < 0 || r.Digits < 0 || r.Algo < 0 || r.Counter < 0 {
		return r, fmt.Sprintf("cannot identify key/counter/digits/algorithm among the derivation's arguments: %v", h.Args)
	}
	return r, ""
}

// checkDigitsInt: the Digits → int accessor used on the way to the derivation is the identity conversion.
func checkDigitsInt(c *Check, w *World, tb *TB, rule string) {
	f := w.Func(OtpPath, "Digits.Int")
	if f == nil {
		return // accessor not used / removed: the argument terms then show the conversion directly
	}
	r := tb.Results(f, nil, nil, 0)
	want := fmt.Sprintf("param(%s#0)", FuncName(f))
	c.Decide(len(r) == 1 && r[0].String() == want, rule, FuncName(f), "digits-accessor", "Digits.Int() is the plain value-preserving conversion", "Digits.Int() returns "+clip(fmt.Sprint(r), 160)+", not the digits value itself: every code length is altered on the way to the derivation", w.Pos(f.Pos()))
}

// checkParamResolution (R.9): nil parameters mean the documented defaults; each field reaches its own role.
func checkParamResolution(c *Check, w *World, tb *TB, rule string, entry *ssa.Function, h Hit, roles derivRoles, defName string, wantDigits, wantAlgo int64) {
	fn := FuncName(entry)
	pp := -1
	for i, p := range entry.Params {
		if pt, ok := p.Type().(*types.Pointer); ok {
			if n, ok := pt.Elem().(*types.Named); ok && n.Obj().Name() == "Param" {
				pp = i
			}
		}
	}
	if pp < 0 {
		c.Fatal("%s has no *Param parameter", fn)
		return
	}
	P := fmt.Sprintf("param(%s#%d)", fn, pp)
	def := "gval(otp." + defName + ")"
	want := func(field string) string {
		return fmt.Sprintf("ite(bin(==; const(nil); %s); field(%s; %s); field(%s; %s))", P, field, def, field, P)
	}
	dT := tb.Norm(h.Args[roles.Digits])
	for dT.Op == "call" && strings.HasSuffix(dT.Sym, ".Int") && len(dT.Args) == 1 {
		dT = dT.Args[0]
	}
	c.Decide(dT.String() == want("Digits"), rule, fn, "digits-resolution", "digits = param.Digits, or the default's when param is nil", "the digits handed to the derivation are "+clip(dT.String(), 200), w.InstrPos(h.Call))
	c.Decide(tb.EqNorm(h.Args[roles.Algo], want("Algorithm")), rule, fn, "algorithm-resolution", "algorithm = param.Algorithm, or the default's when param is nil", "the algorithm handed to the derivation is "+clip(h.Args[roles.Algo].String(), 200), w.InstrPos(h.Call))
	// the default literal
	e, info := w.GlobalInit(OtpPath, defName)
	lit := EvalLit(e, info)
	if lit != nil && lit.Kind == "addr" {
		lit = lit.Elems[0]
	}
	if lit == nil || lit.Kind != "struct" {
		c.Unk(rule, "otp."+defName, "default-literal", "default parameter set is not a struct literal", "")
		return
	}
	d, _ := lit.FieldInt("Digits")
	a, _ := lit.FieldInt("Algorithm")
	c.Decide(d == wantDigits && a == wantAlgo, rule, "otp."+defName, "default-values", fmt.Sprintf("absent parameters mean %d digits and SHA-1", wantDigits), fmt.Sprintf("defaults are digits=%d algorithm=%d, documented: %d digits, SHA-1", d, a, wantDigits), "")
}

func runC01(c *Check, w *World) {
	if w.Cfg.Name == CfgNative.Name {
		ruleJSExportsDirect(c, "R01.JS", "generateHOTP")
	}
	tb := NewTB(w)
	ef := NewEffects(tb)
	iv := newIVWithTables(w, tb, ef)
	sent := sentinelErrors(w, tb, ef)
	if w.Cfg.Name == CfgWasm.Name && w.SPkgs[WasmPath] != nil {
		// the derivation behind the JavaScript generateHOTP/generateTOTP: the same composition rules
		ruleWasmDerivation(c, w, tb, iv, ef, sent, "R01.W")
		ruleWasmKey(c, w, tb, "R01.W.9", jsRegistrations(w, tb), "generateHOTP")
		ruleJSNumberCoercion(c, w, "R01.W.9")
	}
	gen := w.Func(OtpPath, "GenerateHOTP")
	if gen == nil {
		c.Fatal("anchor not found: GenerateHOTP")
		return
	}
	ders := derivationsFrom(w, gen)
	if len(ders) != 1 {
		c.Unk("R01.0", FuncName(gen), "derivation", fmt.Sprintf("%d functions finalise an HMAC on the path from GenerateHOTP, expected one", len(ders)), w.Pos(gen.Pos()))
		return
	}
	der := ders[0]
	hits := tb.Reach(gen, func(ci ssa.CallInstruction) bool { return ci.Common().StaticCallee() == der }, 6)
	if len(hits) != 1 {
		c.Unk("R01.0", FuncName(gen), "derivation-call", fmt.Sprintf("%d call sites of the derivation from GenerateHOTP, expected one", len(hits)), w.Pos(gen.Pos()))
		return
	}
	h := hits[0]
	roles, why := rolesFromCall(tb, h, der)
	if why != "" {
		c.Unk("R01.0", FuncName(gen), "roles", why, w.InstrPos(h.Call))
		return
	}
	fn := FuncName(gen)
	// R01.6 (entry side): key = DecodeSecret(secret)#0, counter = the caller's counter
	sp, cp := -1, -1
	for i, p := range gen.Params {
		if b, ok := p.Type().Underlying().(*types.Basic); ok {
			if b.Kind() == types.String {
				sp = i
			}
			if b.Kind() == types.Uint64 {
				cp = i
			}
		}
	}
	wantKey := fmt.Sprintf("extract(0; call(github.com/ja7ad/otp.DecodeSecret; param(%s#%d)))", fn, sp)
	c.Decide(h.Args[roles.Key].String() == wantKey, "R01.6", fn, "key-is-decoded-secret", "the derivation key is DecodeSecret(secret) unchanged", "the key handed to the derivation is "+clip(h.Args[roles.Key].String(), 160), w.InstrPos(h.Call))
	c.Decide(h.Args[roles.Counter].String() == fmt.Sprintf("param(%s#%d)", fn, cp), "R01.5", fn, "counter-is-callers", "the derivation counter is the caller's counter unchanged", "the counter handed to the derivation is "+clip(h.Args[roles.Counter].String(), 160), w.InstrPos(h.Call))
	checkParamResolution(c, w, tb, "R01.9", gen, h, roles, "DefaultHOTPParam", 6, 0)
	checkDigitsInt(c, w, tb, "R01.9")
	pipe := checkHOTPDerivation(c, w, tb, iv, ef, "R01", der, roles.terms(der), sent, 1, 10)
	if pipe != nil && pipe.modT != nil {
		checkModTable(c, w, "R01.1", strings.TrimPrefix(pipe.modT.Args[0].Sym, "otp."), 1, 10)
	}
	// decode error => error result, no code (GenerateHOTP itself)
	for i, r := range Returns(gen) {
		r0, r1 := tb.Of(r.Results[0]), tb.Of(r.Results[1])
		if r0.IsConst() && r0.Sym == `""` {
			c.Decide(nonNilAt(tb, r.Results[1], CondsAt(r.Block()), sent, 0), "R01.2", fn, fmt.Sprintf("refusal#%d", i), "a refusal returns a provably non-nil error", "returns no code and a possibly nil error: "+clip(r1.String(), 100), w.InstrPos(r))
		}
	}
	ruleHistoryIndependence(c, w, tb, ef, "R01.H", gen)
	checkRESTEndpoints(c, w, tb, ef, "R01.REST", "/hotp/generate")
	c.Floor("R01.1", 11)
	c.Floor("R01.2", 2)
	c.Floor("R01.3", 1)
	c.Floor("R01.4", 5)
	c.Floor("R01.5", 3)
	c.Floor("R01.6", 2)
	c.Floor("R01.7", 2)
	c.Floor("R01.8", 4)
	c.Floor("R01.9", 3)
}

func init() {
	register(&propDef{
		id:    "C01",
		level: "other",
		explain: "Value equality over all (secret, counter, digits, hash) is numerical; what is decided is that GenerateHOTP is the RFC 4226 composition of trusted primitives, clause by clause, on origin terms of the SSA form: " +
			"R01.1 every modulus table entry d is 10^d (>= 2^31 accepted for d=10) and reaches the reduction unnarrowed, indexed by the digits argument; R01.2/R01.3 the digits and hash selectors are within [1,10] / [0,2] at their table index by a dominating gate, and every return is (rendered code, nil) or (\"\", non-nil); " +
			"R01.4 the constructor table builds HMAC with sha1/sha256/sha512.New for SHA1/SHA256/SHA512 keyed by its own argument, Sum(nil); R01.5 the message is exactly one big-endian PutUint64 of the caller's counter into the whole 8-byte buffer, written once before Sum, and the counter has no other use; " +
			"R01.6 the key is DecodeSecret(secret) unchanged; R01.7 byte-lane analysis: value = sum[o..o+3] big-endian with bit 31 cleared, o = sum[len-1]&0x0f; R01.8 each renderer returns exactly `digits` bytes written as a complete descending decimal sweep ('0'+(n/10^k)%10, or '0'); R01.9 nil parameters mean the default's fields, defaults are 6/SHA-1. " +
			"Not decided: correctness of crypto/hmac and the hashes, and anything about a pipeline written in idioms outside those listed (reported undecided).",
		trusted:  []string{"crypto/hmac, crypto/sha1|sha256|sha512, encoding/binary.BigEndian.PutUint64"},
		quick:    []Config{CfgNative, CfgWasm},
		thorough: []Config{CfgNative, CfgWasm, Cfg386},
		run:      runC01,
	})
}

// localFuncArray: ht = arr[idx] with arr a local array literal of functions (hashes := [...]func() hash.Hash{…}):
// index → the function stored there ("?…" when it is not a function), and the index term (conversions stripped).
func localFuncArray(tb *TB, der *ssa.Function, ht *Term) (map[int64]string, *Term) {
	tabl := map[int64]string{}
	if ht.Op != "index" || len(ht.Args) != 2 {
		return nil, nil
	}
	idx := ht.Args[1]
	for idx.Op == "conv" && len(idx.Args) == 1 {
		idx = idx.Args[0]
	}
	arr := ht.Args[0]
	if arr.Op == "slice" {
		arr = arr.Args[0]
	}
	if arr.Op == "mem" {
		// the array's content as a whole: find the local it names
		EachInstr(der, func(x ssa.Instruction) {
			if a, ok := x.(*ssa.Alloc); ok {
				if t := tb.Of(a); t.Op == "alloc" && strings.TrimSuffix(t.Sym, ".") == strings.TrimSuffix(arr.Sym, ".") {
					arr = t
				}
			}
		})
	}
	a, ok := arr.Val.(*ssa.Alloc)
	if !ok || arr.Op != "alloc" {
		return nil, nil
	}
	saved := tb.curLoad
	tb.curLoad = nil
	defer func() { tb.curLoad = saved }()
	allocOfMem := func(sym string) (*ssa.Alloc, *Term) {
		var ra *ssa.Alloc
		var rt *Term
		EachInstr(der, func(x ssa.Instruction) {
			if al, ok := x.(*ssa.Alloc); ok {
				if t := tb.Of(al); t.Op == "alloc" && strings.TrimSuffix(t.Sym, ".") == strings.TrimSuffix(sym, ".") {
					ra, rt = al, t
				}
			}
		})
		return ra, rt
	}
	for k := int64(0); k < 16; k++ {
		e := tb.cellContent(a, arr, []string{fmt.Sprintf("[%d]", k)}, nil)
		// the literal may be built in a temporary and copied over as a whole
		for hop := 0; hop < 3 && e.Op == "index" && len(e.Args) == 2 && e.Args[0].Op == "mem" && e.Args[1].IsConst(); hop++ {
			if a2, t2 := allocOfMem(e.Args[0].Sym); a2 != nil {
				e = tb.cellContent(a2, t2, []string{"[" + e.Args[1].Sym + "]"}, nil)
			} else {
				break
			}
		}
		if e.Op == "zero" {
			continue
		}
		if e.Op == "fn" {
			tabl[k] = e.Sym
		} else {
			tabl[k] = "?" + clip(e.String(), 60)
		}
	}
	return tabl, idx
}

// globalFuncArray: ht = G[idx] with G a never-written package-level array literal of functions
// (hmacHashes = [...]func() hash.Hash{SHA1: sha1.New, …}): index → the function named there, and the index term.
func globalFuncArray(w *World, ht *Term) (map[int64]string, *Term) {
	if ht.Op != "index" || len(ht.Args) != 2 || ht.Args[0].Op != "gval" || !strings.HasPrefix(ht.Args[0].Sym, "otp.") {
		return nil, nil
	}
	idx := ht.Args[1]
	for idx.Op == "conv" && len(idx.Args) == 1 {
		idx = idx.Args[0]
	}
	name := strings.TrimPrefix(ht.Args[0].Sym, "otp.")
	var g *ssa.Global
	if sp := w.SPkgs[OtpPath]; sp != nil {
		g, _ = sp.Members[name].(*ssa.Global)
	}
	if g == nil || !w.GlobalNeverWritten(g) {
		return nil, nil
	}
	e, info := w.GlobalInit(OtpPath, name)
	if e == nil {
		return nil, nil
	}
	lit := EvalLit(e, info)
	if lit == nil || lit.Kind != "list" {
		return nil, nil
	}
	tabl := map[int64]string{}
	for i, el := range lit.Elems {
		switch {
		case el == nil:
			// a hole of a keyed literal: the nil function
		case el.Kind == "ident" && el.Obj != nil:
			if fo, ok := el.Obj.(*types.Func); ok && fo.Pkg() != nil {
				tabl[int64(i)] = fo.Pkg().Path() + "." + fo.Name()
			} else {
				tabl[int64(i)] = "?" + el.Obj.Name()
			}
		default:
			tabl[int64(i)] = "?" + el.Kind
		}
	}
	return tabl, idx
}
