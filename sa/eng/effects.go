package eng

// Write effects: which objects (by root: parameter, free variable, package variable, pool
// object, external call result) a function may write, directly or through module callees.

import (
	"fmt"
	"go/types"
	"sort"
	"strings"

	"golang.org/x/tools/go/ssa"
)

type Effect struct {
	Root *Term
	Kind string // store, mapupdate, append, copy, delete, clear, extcall:<name>
	In   ssa.Instruction
	Via  string // call chain for inherited effects
}

type Effects struct {
	tb    *TB
	w     *World
	memo  map[*ssa.Function][]Effect
	stack map[*ssa.Function]bool
}

func NewEffects(tb *TB) *Effects {
	ef := &Effects{tb: tb, w: tb.W, memo: map[*ssa.Function][]Effect{}, stack: map[*ssa.Function]bool{}}
	tb.WritesParam = func(callee *ssa.Function, i int) bool {
		if ef.stack[callee] {
			return true
		}
		for _, e := range ef.Of(callee) {
			if e.Root.Op == "param" && paramIdxOfTerm(e.Root) == i {
				return true
			}
		}
		return false
	}
	return ef
}

func interestingRoot(r *Term) bool {
	switch r.Op {
	case "param", "freevar", "global", "gval", "call", "invoke", "calldyn", "written", "unknown", "typeassert":
		return true
	}
	return false
}

func refArg(t types.Type) bool {
	switch u := t.Underlying().(type) {
	case *types.Pointer, *types.Slice, *types.Map, *types.Chan:
		return true
	case *types.Interface:
		return true
	case *types.Struct:
		for i := 0; i < u.NumFields(); i++ {
			if refArg(u.Field(i).Type()) {
				return true
			}
		}
	}
	return false
}

// Of computes the write effects of f (roots in f's own namespace).
func (ef *Effects) Of(f *ssa.Function) []Effect {
	if e, ok := ef.memo[f]; ok {
		return e
	}
	if ef.stack[f] || f.Blocks == nil {
		return nil
	}
	ef.stack[f] = true
	defer delete(ef.stack, f)
	var out []Effect
	seen := map[string]bool{}
	add := func(addr *Term, kind string, in ssa.Instruction, via string) {
		for _, r := range ef.tb.RootTerms(addr, 0) {
			if !interestingRoot(r) {
				continue
			}
			k := r.String() + "|" + kind + "|" + fmt.Sprint(in.Pos()) + "|" + via
			if seen[k] {
				continue
			}
			seen[k] = true
			out = append(out, Effect{Root: r, Kind: kind, In: in, Via: via})
		}
	}
	tb := ef.tb
	for _, b := range f.Blocks {
		for _, in := range b.Instrs {
			switch in := in.(type) {
			case *ssa.Store:
				add(tb.Of(in.Addr), "store", in, "")
			case *ssa.MapUpdate:
				add(tb.Of(in.Map), "mapupdate", in, "")
			case ssa.CallInstruction:
				cc := in.Common()
				name := CalleeName(cc)
				if bu, ok := cc.Value.(*ssa.Builtin); ok {
					switch bu.Name() {
					case "append", "copy", "delete", "clear":
						if len(cc.Args) > 0 {
							add(tb.Of(cc.Args[0]), bu.Name(), in, "")
						}
					}
					continue
				}
				callees := ef.w.Callees(in)
				handled := false
				for _, callee := range callees {
					if !ef.w.InModule(callee) || callee.Blocks == nil {
						continue
					}
					handled = true
					for _, ce := range ef.Of(callee) {
						via := FuncName(callee)
						if ce.Via != "" {
							via += " > " + ce.Via
						}
						switch ce.Root.Op {
						case "param":
							idx := paramIdxOfTerm(ce.Root)
							args := cc.Args
							if cc.IsInvoke() {
								args = append([]ssa.Value{cc.Value}, cc.Args...)
							}
							if idx >= 0 && idx < len(args) {
								add(tb.Of(args[idx]), ce.Kind, in, via)
								// a callee that writes the bytes of a string parameter (through an unsafe view) writes
								// whatever string the argument shares its memory with
								if b, isB := args[idx].Type().Underlying().(*types.Basic); isB && b.Info()&types.IsString != 0 {
									for _, r := range stringRoots(tb.Of(args[idx]), 0) {
										k := r.String() + "|" + ce.Kind + "|" + fmt.Sprint(in.Pos()) + "|" + via
										if !seen[k] && interestingRoot(r) {
											seen[k] = true
											out = append(out, Effect{Root: r, Kind: ce.Kind, In: in, Via: via})
										}
									}
								}
							}
						case "freevar":
							idx := paramIdxOfTerm(ce.Root)
							if mc := closureOf(cc.Value, callee); mc != nil && idx >= 0 && idx < len(mc.Bindings) {
								add(tb.Of(mc.Bindings[idx]), ce.Kind, in, via)
							} else {
								// unknown binding: keep as is (reported against the closure)
								k := ce.Root.String() + "|" + ce.Kind + "|" + via
								if !seen[k] {
									seen[k] = true
									out = append(out, Effect{Root: ce.Root, Kind: ce.Kind, In: in, Via: via})
								}
							}
						default:
							k := ce.Root.String() + "|" + ce.Kind + "|" + via
							if !seen[k] {
								seen[k] = true
								out = append(out, Effect{Root: ce.Root, Kind: ce.Kind, In: ce.In, Via: via})
							}
						}
					}
				}
				if handled {
					continue
				}
				if name == "" {
					name = "dynamic"
				}
				if tb.ReadOnly(name) || extPure(name) {
					continue
				}
				args := cc.Args
				if cc.IsInvoke() {
					args = append([]ssa.Value{cc.Value}, cc.Args...)
				}
				for i, a := range args {
					if !refArg(a.Type()) {
						continue
					}
					if extReadsArg(name, i) {
						continue
					}
					add(tb.Of(a), "extcall:"+name, in, "")
				}
			}
		}
	}
	sort.SliceStable(out, func(i, j int) bool { return out[i].Root.String() < out[j].Root.String() })
	ef.memo[f] = out
	return out
}

func paramIdxOfTerm(t *Term) int {
	i := strings.LastIndexByte(t.Sym, '#')
	if i < 0 {
		return -1
	}
	n := 0
	fmt.Sscanf(t.Sym[i+1:], "%d", &n)
	return n
}

func closureOf(v ssa.Value, callee *ssa.Function) *ssa.MakeClosure {
	switch x := v.(type) {
	case *ssa.MakeClosure:
		if x.Fn == callee {
			return x
		}
	case *ssa.Phi:
		for _, e := range x.Edges {
			if mc := closureOf(e, callee); mc != nil {
				return mc
			}
		}
	}
	return nil
}

// extPure: external callees that take reference arguments but never write through them
// (beyond DefaultReadOnly): all of strings, strconv, unicode, errors, sort-free math, time.
func extPure(name string) bool {
	for _, p := range []string{"strings.", "strconv.", "errors.", "unicode.", "unicode/utf8.", "time.", "(time.", "math.", "math/bits.",
		"fmt.", "net/url.", "(net/url.", "(*net/url.", "log/slog.", "(*log/slog.", "os.", "flag.", "net/http.StatusText",
		"encoding/hex.DecodeString", "encoding/hex.EncodeToString", "(*encoding/base32.Encoding).DecodeString", "(*encoding/base32.Encoding).EncodeToString",
		"(encoding/base32.Encoding).WithPadding", "(*encoding/base32.Encoding).WithPadding", "(*math/big.Int).SetString", "(*math/big.Int).Text",
		"crypto/sha1.", "crypto/sha256.", "crypto/sha512.", "crypto/hmac.", "(error).Error", "runtime.", "(*runtime.",
		"encoding/json.Marshal", "(*encoding/json.Encoder).Encode", "encoding/json.NewEncoder", "os/signal.", "context.",
		"syscall/js.", "(syscall/js.", "cmp.", "maps.Keys", "maps.Values", "maps.All", "slices.Backward", "slices.All", "slices.Values", "slices.Contains", "slices.Index", "slices.Equal", "(hash.Hash).Write", "(hash.Hash).Size", "(hash.Hash).BlockSize"} {
		if strings.HasPrefix(name, p) {
			return true
		}
	}
	return false
}

// extReadsArg: argument positions of writing callees that are only read.
func extReadsArg(name string, i int) bool {
	switch name {
	case "encoding/json.Unmarshal":
		return i == 0
	case "(encoding/binary.bigEndian).PutUint64", "(encoding/binary.littleEndian).PutUint64":
		return i == 0 // receiver
	case "(*sync.Pool).Put", "(*sync.Pool).Get":
		return false
	case "encoding/hex.Decode":
		return i == 1
	case "(hash.Hash).Sum":
		return i == 0 // Sum(b) appends the digest to b: it writes b's spare capacity, not the hash
	}
	return false
}

// stringRoots: the parameters and package variables whose string memory the string term t may share: substrings
// (slices, the strings.Trim* family, which return a part of their argument) are followed, concatenations and
// conversions from bytes are fresh memory.
func stringRoots(t *Term, depth int) []*Term {
	if t == nil || depth > 12 {
		return nil
	}
	switch t.Op {
	case "param", "gval", "global":
		return []*Term{t}
	case "slice", "field", "index", "deref":
		return stringRoots(t.Args[0], depth+1)
	case "phi", "ite":
		var out []*Term
		args := t.Args
		if t.Op == "ite" {
			args = t.Args[1:]
		}
		for _, a := range args {
			out = append(out, stringRoots(a, depth+1)...)
		}
		return out
	case "call":
		if strings.HasPrefix(t.Sym, "strings.Trim") || t.Sym == "strings.ToUpper" || t.Sym == "strings.ToLower" || t.Sym == "strings.Map" || t.Sym == "strings.Clone" {
			if t.Sym == "strings.Clone" {
				return nil
			}
			if len(t.Args) > 0 {
				// (ToUpper / ToLower / Map return their argument itself when nothing changes)
				k := 0
				if t.Sym == "strings.Map" {
					k = 1
				}
				if k < len(t.Args) {
					return stringRoots(t.Args[k], depth+1)
				}
			}
		}
	}
	return nil
}
