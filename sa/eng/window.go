package eng

// Window validation rules shared by C03 (HOTP), C04 (TOTP) and C20 (js/wasm binding).

import (
	"fmt"
	"go/token"
	"go/types"
	"regexp"

	"golang.org/x/tools/go/ssa"
)

var reCycle = regexp.MustCompile(`cycle\([^()]*(\([^()]*\))?[^()]*\)`)

func normT(t *Term) string { return reCycle.ReplaceAllString(t.String(), "cycle(*)") }

func stripConv(v ssa.Value) ssa.Value {
	for {
		switch x := v.(type) {
		case *ssa.Convert:
			v = x.X
		case *ssa.ChangeType:
			v = x.X
		default:
			return v
		}
	}
}

// checkCompareCore (R.6): from the entry point, with parameters bound through closures, the constant-time
// comparison is between the whole submitted code and the whole derived code, after a length test
// against the same digits the derivation receives; acceptance requires the comparison to be 1.
func checkCompareCore(c *Check, w *World, tb *TB, pfx string, entry *ssa.Function, codeParam int, wantDerive func(h Hit, exp *Term) string) {
	fn := FuncName(entry)
	hits := tb.Reach(entry, MatchCallee("crypto/subtle.ConstantTimeCompare", "crypto/hmac.Equal"), 8)
	if len(hits) == 0 {
		c.Bad(pfx+".6", fn, "compare-core", "no constant-time comparison of the submitted code is reached from the entry point", w.Pos(entry.Pos()))
		return
	}
	P := fmt.Sprintf("param(%s#%d)", fn, codeParam)
	for _, h := range hits {
		a0, a1 := h.Args[0], h.Args[1]
		wantCode := "conv([]byte; " + P + ")"
		var codeT, expT *Term
		switch {
		case a0.String() == wantCode:
			codeT, expT = a0, a1
		case a1.String() == wantCode:
			codeT, expT = a1, a0
		}
		if codeT == nil {
			c.Bad(pfx+".6", fn, "compared-code", "the submitted code is not compared whole and unmodified: operands "+clip(normT(a0), 120)+" / "+clip(normT(a1), 120), w.InstrPos(h.Call))
			continue
		}
		c.OK(pfx+".6", fn, "compared-code", "the whole submitted string enters the comparison (no trimming, slicing or folding)", w.InstrPos(h.Call))
		if expT.Op != "conv" || expT.Sym != "[]byte" {
			c.Bad(pfx+".6", fn, "compared-expected", "the expected side is not the whole derived string: "+clip(normT(expT), 160), w.InstrPos(h.Call))
			continue
		}
		if why := wantDerive(h, expT.Args[0]); why != "" {
			c.Bad(pfx+".6", fn, "compared-expected", why, w.InstrPos(h.Call))
		} else {
			c.OK(pfx+".6", fn, "compared-expected", "the expected side is the whole string returned by the shared derivation for this step", w.InstrPos(h.Call))
		}
		// acceptance (a true verdict) only where the comparison result is known to equal 1 — in the comparing
		// function and in every wrapper above it up to (not including) the entry point, whose own acceptance is
		// judged by the window rules
		cv := h.Call.Value()
		vt := newVtrack()
		vt.atomOK = func(f *ssa.Function, at Atom) bool {
			if f != h.Fn || at.Op != token.EQL {
				return false
			}
			x, y := at.X, at.Y
			if y == cv {
				x, y = y, x
			}
			if x != cv {
				return false
			}
			kk, ok := constInt(y)
			return ok && kk.Int64() == 1
		}
		okEq, nAcc := true, 0
		lowest := 1
		if len(h.Levels) == 1 {
			lowest = 0 // the comparison sits in the entry function itself
		}
		for k := len(h.Levels) - 1; k >= lowest; k-- {
			lv := h.Levels[k]
			hasBool := false
			for _, r := range Returns(lv.Fn) {
				if len(r.Results) > 0 {
					if b, isB := r.Results[0].Type().Underlying().(*types.Basic); isB && b.Kind() == types.Bool {
						hasBool = true
					}
				}
			}
			if !hasBool {
				break
			}
			nAcc++
			if !vt.fnOK(lv.Fn) {
				okEq = false
				break
			}
			if k > 0 {
				vt.resultCarriers(h.Levels[k-1].Fn, h.Levels[k-1].Site)
			}
		}
		c.Decide(okEq && nAcc > 0, pfx+".6", fn, "compare-result", "acceptance only where ConstantTimeCompare(...) == 1 holds", "a 'true' verdict is returned where the comparison result is not known to be 1 (or never)", w.InstrPos(h.Call))
		// … and only where the derivation succeeded: a failed derivation yields an empty string, which an empty
		// submitted code would match
		if dt := expT.Args[0]; dt.Op == "extract" && dt.Sym == "0" && len(dt.Args) == 1 {
			if dv, isV := dt.Args[0].Val.(ssa.Value); isV && dv != nil {
				if di, isI := dv.(ssa.Instruction); isI && dv.Referrers() != nil {
					var errV ssa.Value
					for _, r := range *dv.Referrers() {
						if ex, ok := r.(*ssa.Extract); ok && ex.Index > 0 && types.Identical(ex.Type(), types.Universe.Lookup("error").Type()) {
							errV = ex
						}
					}
					fDer := di.Parent()
					if tup, isT := dv.Type().(*types.Tuple); isT && tup.Len() >= 2 && types.Identical(tup.At(tup.Len()-1).Type(), types.Universe.Lookup("error").Type()) {
						// the error may be tested where the derivation is called, or be handed down the chain to the
						// comparing helper (matchCode(code, expected, err)) and tested there
						L := -1
						for k, lv := range h.Levels {
							if lv.Fn == fDer {
								L = k
							}
						}
						errIn := map[*ssa.Function]ssa.Value{fDer: errV}
						if L >= 0 {
							cur := errV
							for k := L; k+1 < len(h.Levels) && cur != nil; k++ {
								var next ssa.Value
								site := h.Levels[k].Site
								callee := h.Levels[k+1].Fn
								if site != nil {
									for j, a := range site.Common().Args {
										if a == cur && j < len(callee.Params) && !site.Common().IsInvoke() {
											next = callee.Params[j]
										}
									}
								}
								if next != nil {
									errIn[callee] = next
								}
								cur = next
							}
						}
						vt2 := newVtrack()
						vt2.atomOK = func(f *ssa.Function, at Atom) bool {
							ev := errIn[f]
							if ev == nil || at.Op != token.EQL {
								return false
							}
							return (at.X == ev && isNilConst(at.Y)) || (at.Y == ev && isNilConst(at.X))
						}
						okErr := errV != nil
						if okErr && L >= 0 {
							for k := len(h.Levels) - 1; k >= L; k-- {
								okK := vt2.fnOK(h.Levels[k].Fn)
								if k == L {
									okErr = okK
								} else if okK {
									vt2.resultCarriers(h.Levels[k-1].Fn, h.Levels[k-1].Site)
								}
							}
						} else if okErr {
							okErr = vt2.fnOK(fDer)
						}
						c.Decide(okErr, pfx+".6", fn, "derivation-succeeded", "acceptance only where the derivation returned no error", "a 'true' verdict is returned on a path where the derivation's error was not found nil: a failed derivation (empty expected string) accepts an empty code", w.InstrPos(di))
					}
				}
			}
		}
		// the length test: on the way from the entry point to the comparison (in the comparing function or in a
		// caller on the chain), before the call that leads on
		okLen := false
		var lenWhy string
		for _, lv := range h.Levels {
			lv := lv
			EachInstr(lv.Fn, func(in ssa.Instruction) {
				iff, ok := in.(*ssa.If)
				if !ok {
					return
				}
				t := tb.Val(iff.Cond, lv.Env)
				if t.Op == "bin" && (t.Sym == "!=" || t.Sym == "==") {
					for k := 0; k < 2; k++ {
						if t.Args[k].String() == "len("+P+")" {
							other := t.Args[1-k]
							if !dominatesInstr(in, lv.Site) {
								lenWhy = "the length test does not precede the comparison"
								return
							}
							// the continuing edge must be the "equal" one
							eq := iff.Block().Succs[0]
							if t.Sym == "!=" {
								eq = iff.Block().Succs[1]
							}
							if !(eq == lv.Site.Block() || eq.Dominates(lv.Site.Block())) {
								lenWhy = "the comparison is not on the equal-length branch of the length test"
								return
							}
							okLen = true
							lenWhy = other.String()
						}
					}
				}
			})
		}
		if !okLen {
			c.Bad(pfx+".6", fn, "length-test", "no test len(code) == digits precedes the comparison ("+lenWhy+")", w.InstrPos(h.Call))
		} else {
			c.OK(pfx+".6", fn, "length-test", "len(code) is compared with "+clip(lenWhy, 120)+" before the comparison", w.InstrPos(h.Call))
		}
	}
}
