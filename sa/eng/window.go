package eng

// Window validation rules shared by C03 (HOTP), C04 (TOTP) and C20 (js/wasm binding).

import (
	"fmt"
	"go/token"
	"go/types"
	"regexp"
	"strings"

	"golang.org/x/tools/go/ssa"
)

var reCycle = regexp.MustCompile(`cycle\([^()]*(\([^()]*\))?[^()]*\)`)

func normT(t *Term) string { return reCycle.ReplaceAllString(t.String(), "cycle(*)") }

type windowInfo struct {
	f       *ssa.Function
	call    *ssa.Call // the per-step validator call
	I       *ssa.Phi
	ind     *Induction
	bound   ssa.Value
	cond    *ssa.BinOp
	header  *ssa.BasicBlock
	ctrArg  ssa.Value
	ctrBase *Term
	form    string // "plus" (c + conv(i)) or "split" (i<0 ? c - conv(-i) : c + conv(i)) or "offset"
	// offset form: i runs 0..2*s and the step counter is (centre - s) + i
	sizeVal ssa.Value // the window size s when the loop bound is 2*s
}

// offsetForm recognises "for i := 0; i <= 2*s; i++ { … (centre - s) + i … }" and returns s and the centre.
func offsetForm(tb *TB, wi *windowInfo) (size ssa.Value, centre *Term, ok bool) {
	if wi.bound == nil || len(wi.ind.Inits) != 1 || !isConstInt(wi.ind.Inits[0], 0) || wi.ind.Step != 1 {
		return nil, nil, false
	}
	b := stripConv(wi.bound)
	bo, isB := b.(*ssa.BinOp)
	if !isB {
		return nil, nil, false
	}
	switch {
	case bo.Op == token.MUL && isConstInt(bo.X, 2):
		size = bo.Y
	case bo.Op == token.MUL && isConstInt(bo.Y, 2):
		size = bo.X
	case bo.Op == token.ADD && tb.Of(bo.X).String() == tb.Of(bo.Y).String():
		size = bo.X
	case bo.Op == token.SHL && isConstInt(bo.Y, 1):
		size = bo.X
	default:
		return nil, nil, false
	}
	st := tb.Of(size).String()
	I := tb.Of(wi.I).String()
	ct := tb.Of(wi.ctrArg)
	// (centre - s) + i   in either operand order, conversions of s/i to the counter type allowed
	strip := func(t *Term) *Term {
		for t.Op == "conv" {
			t = t.Args[0]
		}
		return t
	}
	if ct.Op != "bin" || ct.Sym != "+" {
		return nil, nil, false
	}
	for k := 0; k < 2; k++ {
		a, bb := ct.Args[k], ct.Args[1-k]
		if strip(a).String() == I && bb.Op == "bin" && bb.Sym == "-" && strip(bb.Args[1]).String() == strip(tb.Of(size)).String() && !bb.Args[0].ContainsStr(I) {
			_ = st
			return size, bb.Args[0], true
		}
	}
	return nil, nil, false
}

func stripConv(v ssa.Value) ssa.Value {
	for {
		switch x := v.(type) {
		case *ssa.Convert:
			v = x.X
		case *ssa.ChangeType:
			v = x.X
		default:
			return v
		}
	}
}

// findWindow locates the window loop of a validation entry point: the single loop that contains the
// single call of a per-step validator.
func findWindow(c *Check, w *World, tb *TB, pfx string, f *ssa.Function, isStep func(*ssa.Call) bool) *windowInfo {
	fn := FuncName(f)
	var calls []*ssa.Call
	EachInstr(f, func(in ssa.Instruction) {
		if cl, ok := in.(*ssa.Call); ok && isStep(cl) {
			calls = append(calls, cl)
		}
	})
	if len(calls) != 1 {
		c.Unk(pfx+".2", fn, "window-loop", fmt.Sprintf("%d per-step validation calls in the entry point, expected exactly one inside the window loop", len(calls)), w.Pos(f.Pos()))
		return nil
	}
	call := calls[0]
	if !InLoop(call.Block()) {
		c.Bad(pfx+".2", fn, "window-loop", "the per-step validation is not inside a loop: the window size has no effect", w.InstrPos(call))
		return nil
	}
	// the counter argument: the uint64-typed argument
	var ctr ssa.Value
	for _, a := range call.Call.Args {
		if b, ok := a.Type().Underlying().(*types.Basic); ok && b.Kind() == types.Uint64 {
			ctr = a
		}
	}
	if ctr == nil {
		c.Unk(pfx+".3", fn, "counter-argument", "the per-step validator takes no uint64 counter", w.InstrPos(call))
		return nil
	}
	// induction phis of loops enclosing the call
	var cands []*ssa.Phi
	for _, b := range f.Blocks {
		if !b.Dominates(call.Block()) {
			continue
		}
		for _, in := range b.Instrs {
			ph, ok := in.(*ssa.Phi)
			if !ok {
				break
			}
			if InductionOf(ph) != nil {
				cands = append(cands, ph)
			}
		}
	}
	if len(cands) != 1 {
		c.Unk(pfx+".2", fn, "window-loop", fmt.Sprintf("%d loop counters enclose the per-step validation, expected exactly one (i = -s … +s)", len(cands)), w.InstrPos(call))
		return nil
	}
	wi := &windowInfo{f: f, call: call, I: cands[0], ind: InductionOf(cands[0]), header: cands[0].Block(), ctrArg: ctr}
	iff, ok := wi.header.Instrs[len(wi.header.Instrs)-1].(*ssa.If)
	if !ok {
		c.Unk(pfx+".2", fn, "window-loop", "the loop header does not test the loop counter", w.InstrPos(call))
		return nil
	}
	bo, ok := iff.Cond.(*ssa.BinOp)
	if !ok {
		c.Unk(pfx+".2", fn, "window-loop", "the loop condition is not a comparison", w.InstrPos(iff))
		return nil
	}
	wi.cond = bo
	if bo.X == ssa.Value(wi.I) {
		wi.bound = bo.Y
	} else if bo.Y == ssa.Value(wi.I) {
		wi.bound = bo.X
	}
	return wi
}

// checkWindow applies the window rules. wantBase: expected term of the centre counter (nil: any term
// independent of the loop counter); needGuard: an underflow guard is required (caller-supplied counter).
func checkWindow(c *Check, w *World, tb *TB, iv *IV, pfx string, wi *windowInfo, wantBase string, needGuard bool) {
	f := wi.f
	fn := FuncName(f)
	hpos := w.InstrPos(wi.cond)
	if size, centre, isOff := offsetForm(tb, wi); isOff && !needGuard {
		// equivalent idiom: the window [centre-s, centre+s] walked upwards from its lower edge (mod 2^64)
		op := wi.cond.Op
		if wi.cond.Y == ssa.Value(wi.I) {
			op = flipOp(op)
		}
		c.Decide(op == token.LEQ && wi.header.Succs[0].Dominates(wi.call.Block()), pfx+".2", fn, "window-loop", "one loop, i from 0 to 2s inclusive in steps of one over (centre - s) + i", "the offset-form window loop does not run while i <= 2s", hpos)
		it := iv.At(stripConv(size), wi.header)
		exact := it.Lo != nil && it.Hi != nil && it.Lo.Sign() == 0 && it.Hi.Cmp(bi(10)) == 0
		c.Decide(exact, pfx+".1", fn, "window-gate", "the window size is within [0,10] at the loop (dominating gate), and nothing narrower", fmt.Sprintf("the window size is %s at the loop, expected exactly [0,10]", it), hpos)
		wi.sizeVal = size
		wi.ctrBase = centre
		wi.form = "offset"
		okB := wantBase == "" || centre.String() == wantBase || tb.Norm(centre).String() == wantBase
		c.Decide(okB, pfx+".3", fn, "counter-argument", "step i validates counter (centre - s) + i, centre being the caller's counter / time step", "the window is centred on "+clip(normT(centre), 160)+", expected "+clip(wantBase, 160), w.InstrPos(wi.call))
		checkAcceptGuard(c, w, tb, pfx, wi)
		return
	}
	// --- .2 loop shape -----------------------------------------------------------------------
	okLoop := true
	why := ""
	switch {
	case wi.bound == nil:
		okLoop, why = false, "the loop condition does not compare the loop counter with the window size"
	case wi.ind.Step != 1:
		okLoop, why = false, fmt.Sprintf("the loop counter advances by %d per step, not by 1", wi.ind.Step)
	case len(wi.ind.Inits) != 1:
		okLoop, why = false, "the loop counter has several initial values"
	default:
		// continue while i <= s   (or s >= i)
		op := wi.cond.Op
		if wi.cond.Y == ssa.Value(wi.I) {
			op = flipOp(op)
		}
		if op != token.LEQ {
			okLoop, why = false, "the loop continues while i "+op.String()+" s instead of i <= s: the forward end of the window is wrong"
		}
		if !(wi.header.Succs[0].Dominates(wi.call.Block())) {
			okLoop, why = false, "the per-step validation is not on the continuing edge of the loop test"
		}
		initT := tb.Of(wi.ind.Inits[0])
		want := mk("un", "-", tb.Of(wi.bound))
		if initT.String() != want.String() {
			okLoop, why = false, "the loop counter starts at "+clip(normT(initT), 140)+", not at minus the window size: the backward end of the window is wrong"
		}
	}
	c.Decide(okLoop, pfx+".2", fn, "window-loop", "one loop, i from -s to +s inclusive in steps of one, s the gated window size", why, hpos)
	// --- .1 gate ------------------------------------------------------------------------------
	if wi.bound != nil {
		inner := stripConv(wi.bound)
		it := iv.At(inner, wi.header)
		exact := it.Lo != nil && it.Hi != nil && it.Lo.Sign() == 0 && it.Hi.Cmp(bi(10)) == 0
		var whyG string
		switch {
		case it.Hi == nil || it.Hi.Cmp(bi(10)) > 0:
			whyG = fmt.Sprintf("the window size can be %s at the loop: sizes above 10 are not refused (unbounded work, and almost any code becomes acceptable)", it)
		case it.Hi.Cmp(bi(10)) < 0 || it.Lo == nil || it.Lo.Sign() != 0:
			whyG = fmt.Sprintf("the window size is restricted to %s, but every size 0..10 must be served", it)
		}
		c.Decide(exact, pfx+".1", fn, "window-gate", "the window size is within [0,10] at the loop (dominating gate), and nothing narrower", whyG, hpos)
		// the conversion of the size to the signed loop type must be lossless
		if cv, ok := wi.bound.(*ssa.Convert); ok {
			in := iv.At(cv.X, wi.header)
			tr := iv.TypeRange(cv.Type())
			ok2 := in.Lo != nil && in.Hi != nil && tr.Lo != nil && in.Lo.Cmp(tr.Lo) >= 0 && in.Hi.Cmp(tr.Hi) <= 0
			c.Decide(ok2, pfx+".1", fn, "window-size-conversion", "the gated size fits the loop counter's type", "the window size is converted to "+cv.Type().String()+" with possible wrap-around ("+in.String()+")", w.InstrPos(cv))
		}
	}
	// --- .3 counter argument -----------------------------------------------------------------
	ct := tb.Of(wi.ctrArg)
	I := tb.Of(wi.I)
	Is := I.String()
	plus := func(t *Term) *Term { // c + conv(uint64; i) in either operand order
		if t.Op != "bin" || t.Sym != "+" {
			return nil
		}
		for k := 0; k < 2; k++ {
			a, b := t.Args[k], t.Args[1-k]
			if a.Op == "conv" && a.Sym == "uint64" && a.Args[0].String() == Is && !b.ContainsStr(Is) {
				return b
			}
		}
		return nil
	}
	minus := func(t *Term) *Term { // c - conv(uint64; -i)
		if t.Op != "bin" || t.Sym != "-" {
			return nil
		}
		a, b := t.Args[0], t.Args[1]
		if b.Op == "conv" && b.Sym == "uint64" && b.Args[0].Op == "un" && b.Args[0].Sym == "-" && b.Args[0].Args[0].String() == Is && !a.ContainsStr(Is) {
			return a
		}
		return nil
	}
	var base *Term
	if b := plus(ct); b != nil {
		base, wi.form = b, "plus"
	} else if ct.Op == "ite" && ct.Args[0].Op == "bin" && ct.Args[0].Sym == "<" && ct.Args[0].Args[0].String() == Is && ct.Args[0].Args[1].IsConst() && ct.Args[0].Args[1].Sym == "0" {
		m, p := minus(ct.Args[1]), plus(ct.Args[2])
		if m != nil && p != nil && m.String() == p.String() {
			base, wi.form = m, "split"
		}
	}
	if base == nil {
		if !ct.ContainsStr(Is) {
			c.Bad(pfx+".3", fn, "counter-argument", "the counter handed to the per-step validation does not depend on the loop counter: every iteration checks the same counter and the window has no effect", w.InstrPos(wi.call))
		} else {
			c.Unk(pfx+".3", fn, "counter-argument", "the counter handed to the per-step validation is not centre+i (or centre-(-i) for i<0): "+clip(normT(ct), 220), w.InstrPos(wi.call))
		}
	} else {
		wi.ctrBase = base
		okB := wantBase == "" || base.String() == wantBase || tb.Norm(base).String() == wantBase
		c.Decide(okB, pfx+".3", fn, "counter-argument", "step i validates counter centre+i, centre being the caller's counter / time step", "the window is centred on "+clip(normT(base), 160)+", expected "+clip(wantBase, 160), w.InstrPos(wi.call))
	}
	// --- .4 underflow guard --------------------------------------------------------------------
	if needGuard && base != nil {
		want1 := "bin(<; " + base.String() + "; conv(uint64; un(-; " + Is + ")))"
		want2 := "bin(>; conv(uint64; un(-; " + Is + ")); " + base.String() + ")"
		found := false
		bad := ""
		for _, b := range f.Blocks {
			if !wi.header.Dominates(b) || b == wi.header {
				continue
			}
			iff, ok := b.Instrs[len(b.Instrs)-1].(*ssa.If)
			if !ok {
				continue
			}
			ts := tb.Of(iff.Cond).String()
			mentionsBase := strings.Contains(ts, base.String()) && strings.Contains(ts, Is) && iff.Block() != wi.call.Block()
			if ts == want1 || ts == want2 {
				// true edge must skip the validation, false edge must reach it; only for i < 0
				skip, cont := b.Succs[0], b.Succs[1]
				reach := BlocksReachableFrom(skip)
				neg := false
				for _, at := range atomsOf(CondsAt(b)) {
					if at.X == ssa.Value(wi.I) && at.Op == token.LSS {
						if k, ok := constInt(at.Y); ok && k.Sign() == 0 {
							neg = true
						}
					}
				}
				_ = reach
				if cont.Dominates(wi.call.Block()) || cont == wi.call.Block() || BlocksReachableFrom(cont)[wi.call.Block()] {
					if !skip.Dominates(wi.call.Block()) && skip != wi.call.Block() && neg {
						found = true
					}
				}
			} else if mentionsBase && strings.HasPrefix(ts, "bin(") {
				bad = ts
			}
		}
		switch {
		case found:
			c.OK(pfx+".4", fn, "underflow-guard", "a step below zero is skipped exactly when centre < -i, compared unsigned", w.InstrPos(wi.call))
		case bad != "":
			c.Bad(pfx+".4", fn, "underflow-guard", "the guard against counters below zero is not the unsigned comparison centre < uint64(-i): "+clip(normT(&Term{Op: "raw", Sym: bad}), 200), w.InstrPos(wi.call))
		default:
			c.Bad(pfx+".4", fn, "underflow-guard", "steps below counter zero are not skipped: centre-(-i) wraps around to counters near 2^64", w.InstrPos(wi.call))
		}
	}
	checkAcceptGuard(c, w, tb, pfx, wi)
}

func checkAcceptGuard(c *Check, w *World, tb *TB, pfx string, wi *windowInfo) {
	f := wi.f
	fn := FuncName(f)
	// --- .5 accept guard -------------------------------------------------------------------------
	nTrue := 0
	for i, r := range Returns(f) {
		if len(r.Results) == 0 {
			continue
		}
		rt := tb.Of(r.Results[0]).String()
		if rt != "const(true)" && rt != "call(syscall/js.ValueOf; const(true))" {
			continue
		}
		nTrue++
		okAcc, okErr := false, false
		for _, cd := range CondsAt(r.Block()) {
			if ex, ok := cd.V.(*ssa.Extract); ok && ex.Tuple == ssa.Value(wi.call) && ex.Index == 0 && cd.Pos {
				okAcc = true
			}
		}
		for _, at := range atomsOf(CondsAt(r.Block())) {
			if ex, ok := at.X.(*ssa.Extract); ok && ex.Tuple == ssa.Value(wi.call) && ex.Index == 1 && at.Op == token.EQL && isNilConst(at.Y) {
				okErr = true
			}
		}
		c.Decide(okAcc, pfx+".5", fn, fmt.Sprintf("accept-guard#%d", i), "acceptance only under the per-step verdict of that iteration (error checked: "+fmt.Sprint(okErr)+")", "a path returns true without the per-step validation having returned true in that iteration", w.InstrPos(r))
	}
	if nTrue == 0 {
		c.Bad(pfx+".5", fn, "accept-guard", "the entry point never accepts", w.Pos(f.Pos()))
	}
}

// checkCompareCore (R.6): from the entry point, with parameters bound through closures, the constant-time
// comparison is between the whole submitted code and the whole derived code, after a length test
// against the same digits the derivation receives; acceptance requires the comparison to be 1.
func checkCompareCore(c *Check, w *World, tb *TB, pfx string, entry *ssa.Function, codeParam int, wantDerive func(h Hit, exp *Term) string) {
	fn := FuncName(entry)
	hits := tb.Reach(entry, MatchCallee("crypto/subtle.ConstantTimeCompare", "crypto/hmac.Equal"), 8)
	if len(hits) == 0 {
		c.Bad(pfx+".6", fn, "compare-core", "no constant-time comparison of the submitted code is reached from the entry point", w.Pos(entry.Pos()))
		return
	}
	P := fmt.Sprintf("param(%s#%d)", fn, codeParam)
	for _, h := range hits {
		a0, a1 := h.Args[0], h.Args[1]
		wantCode := "conv([]byte; " + P + ")"
		var codeT, expT *Term
		switch {
		case a0.String() == wantCode:
			codeT, expT = a0, a1
		case a1.String() == wantCode:
			codeT, expT = a1, a0
		}
		if codeT == nil {
			c.Bad(pfx+".6", fn, "compared-code", "the submitted code is not compared whole and unmodified: operands "+clip(normT(a0), 120)+" / "+clip(normT(a1), 120), w.InstrPos(h.Call))
			continue
		}
		c.OK(pfx+".6", fn, "compared-code", "the whole submitted string enters the comparison (no trimming, slicing or folding)", w.InstrPos(h.Call))
		if expT.Op != "conv" || expT.Sym != "[]byte" {
			c.Bad(pfx+".6", fn, "compared-expected", "the expected side is not the whole derived string: "+clip(normT(expT), 160), w.InstrPos(h.Call))
			continue
		}
		if why := wantDerive(h, expT.Args[0]); why != "" {
			c.Bad(pfx+".6", fn, "compared-expected", why, w.InstrPos(h.Call))
		} else {
			c.OK(pfx+".6", fn, "compared-expected", "the expected side is the whole string returned by the shared derivation for this step", w.InstrPos(h.Call))
		}
		// acceptance (return true) only where the comparison result is known to equal 1
		cv := h.Call.Value()
		okEq, nAcc := true, 0
		for _, r := range Returns(h.Fn) {
			k, ok := r.Results[0].(*ssa.Const)
			if !ok || k.Value == nil || k.Value.String() != "true" {
				continue
			}
			nAcc++
			found := false
			for _, at := range atomsOf(CondsAt(r.Block())) {
				if at.X == cv && at.Op == token.EQL {
					if kk, ok := constInt(at.Y); ok && kk.Int64() == 1 {
						found = true
					}
				}
			}
			if !found {
				okEq = false
			}
		}
		c.Decide(okEq && nAcc > 0, pfx+".6", fn, "compare-result", "acceptance only where ConstantTimeCompare(...) == 1 holds", "a 'true' verdict is returned where the comparison result is not known to be 1 (or never)", w.InstrPos(h.Call))
		// the length test: on the way from the entry point to the comparison (in the comparing function or in a
		// caller on the chain), before the call that leads on
		okLen := false
		var lenWhy string
		for _, lv := range h.Levels {
			lv := lv
			EachInstr(lv.Fn, func(in ssa.Instruction) {
				iff, ok := in.(*ssa.If)
				if !ok {
					return
				}
				t := tb.Val(iff.Cond, lv.Env)
				if t.Op == "bin" && (t.Sym == "!=" || t.Sym == "==") {
					for k := 0; k < 2; k++ {
						if t.Args[k].String() == "len("+P+")" {
							other := t.Args[1-k]
							if !dominatesInstr(in, lv.Site) {
								lenWhy = "the length test does not precede the comparison"
								return
							}
							// the continuing edge must be the "equal" one
							eq := iff.Block().Succs[0]
							if t.Sym == "!=" {
								eq = iff.Block().Succs[1]
							}
							if !(eq == lv.Site.Block() || eq.Dominates(lv.Site.Block())) {
								lenWhy = "the comparison is not on the equal-length branch of the length test"
								return
							}
							okLen = true
							lenWhy = other.String()
						}
					}
				}
			})
		}
		if !okLen {
			c.Bad(pfx+".6", fn, "length-test", "no test len(code) == digits precedes the comparison ("+lenWhy+")", w.InstrPos(h.Call))
		} else {
			c.OK(pfx+".6", fn, "length-test", "len(code) is compared with "+clip(lenWhy, 120)+" before the comparison", w.InstrPos(h.Call))
		}
	}
}
