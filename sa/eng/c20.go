package eng

import (
	"fmt"
	"go/constant"
	"go/token"
	"go/types"
	"os"
	"path/filepath"
	"regexp"
	"sort"
	"strings"

	"golang.org/x/tools/go/ssa"
)

// ---- engine L: the JavaScript export table -----------------------------------------------------

// stripJS removes comments and string contents (keeping quotes) so that braces/keys can be scanned.
func stripJS(src string) string {
	var out strings.Builder
	i := 0
	for i < len(src) {
		switch {
		case strings.HasPrefix(src[i:], "//"):
			for i < len(src) && src[i] != '\n' {
				i++
			}
		case strings.HasPrefix(src[i:], "/*"):
			j := strings.Index(src[i+2:], "*/")
			if j < 0 {
				i = len(src)
			} else {
				// keep newlines for line numbers
				for _, ch := range src[i : i+2+j+2] {
					if ch == '\n' {
						out.WriteByte('\n')
					}
				}
				i += 2 + j + 2
			}
		case src[i] == '"' || src[i] == '\'' || src[i] == '`':
			q := src[i]
			out.WriteByte(q)
			i++
			for i < len(src) && src[i] != q {
				if src[i] == '\\' {
					i++
				}
				if i < len(src) && src[i] == '\n' {
					out.WriteByte('\n')
				}
				i++
			}
			out.WriteByte(q)
			i++
		default:
			out.WriteByte(src[i])
			i++
		}
	}
	return out.String()
}

var reExportPair = regexp.MustCompile(`^\s*([A-Za-z_$][\w$]*)\s*:\s*([\w$.]+)\s*$`)

// jsExportTable extracts the object literal passed to resolve(...) in otp-js/src/index.js.
func jsExportTable() (map[string]string, map[string]int, error) {
	p := filepath.Join(RepoDir, "otp-js", "src", "index.js")
	b, err := os.ReadFile(p)
	if err != nil {
		return nil, nil, err
	}
	s := stripJS(string(b))
	i := strings.Index(s, "resolve({")
	if i < 0 {
		return nil, nil, fmt.Errorf("no resolve({...}) call in index.js")
	}
	start := i + len("resolve(")
	depth := 0
	end := -1
	for j := start; j < len(s); j++ {
		if s[j] == '{' {
			depth++
		} else if s[j] == '}' {
			depth--
			if depth == 0 {
				end = j
				break
			}
		}
	}
	if end < 0 {
		return nil, nil, fmt.Errorf("unbalanced braces in the export object")
	}
	body := s[start+1 : end]
	out := map[string]string{}
	lines := map[string]int{}
	baseLine := 1 + strings.Count(s[:start+1], "\n")
	off := 0
	for _, part := range strings.Split(body, ",") {
		ln := baseLine + strings.Count(body[:off], "\n") + strings.Count(part, "\n") - strings.Count(strings.TrimLeft(part, " \t\r\n"), "\n")
		off += len(part) + 1
		t := strings.TrimSpace(part)
		if t == "" {
			continue
		}
		m := reExportPair.FindStringSubmatch(strings.ReplaceAll(t, "\n", " "))
		if m == nil {
			return nil, nil, fmt.Errorf("export entry %q is not of the form name: globalThis.name", clip(t, 60))
		}
		out[m[1]] = m[2]
		lines[m[1]] = ln
	}
	return out, lines, nil
}

// jsRegistrations: name -> Go function registered with js.Global().Set(name, js.FuncOf(f)).
func jsRegistrations(w *World, tb *TB) map[string]*ssa.Function {
	out := map[string]*ssa.Function{}
	for _, f := range w.ModuleFuncs(WasmPath) {
		EachInstr(f, func(in ssa.Instruction) {
			cl, ok := in.(*ssa.Call)
			if !ok || CalleeName(cl.Common()) != "(syscall/js.Value).Set" {
				return
			}
			t := tb.Of(cl)
			if len(t.Args) != 3 || t.Args[0].String() != "call(syscall/js.Global)" {
				return
			}
			if !t.Args[1].IsConst() {
				// table-driven registration: Set(row.name, js.FuncOf(row.fn)) for the rows of a local array literal
				nt, vt := t.Args[1], t.Args[2]
				if nt.Op == "field" && vt.Op == "call" && vt.Sym == "syscall/js.FuncOf" && len(vt.Args) == 1 && vt.Args[0].Op == "field" &&
					nt.Args[0].String() == vt.Args[0].Args[0].String() && nt.Args[0].Op == "index" {
					arr := nt.Args[0].Args[0]
					if arr.Op == "slice" {
						arr = arr.Args[0]
					}
					if arr.Op == "gval" && strings.HasPrefix(arr.Sym, "main.") && !wasmGlobalWritten(w, arr.Sym) {
						// the rows are a package-level literal that nothing writes
						if e, info := w.GlobalInit(WasmPath, strings.TrimPrefix(arr.Sym, "main.")); e != nil {
							if lit := EvalLit(e, info); lit != nil && lit.Kind == "list" {
								for _, row := range lit.Elems {
									if row == nil || row.Kind != "struct" {
										continue
									}
									n, fv := row.Field(nt.Sym), row.Field(vt.Args[0].Sym)
									if n == nil || fv == nil || fv.Kind != "ident" || fv.Obj == nil {
										continue
									}
									name, isStr := n.Str()
									if !isStr {
										continue
									}
									for _, g := range w.ModuleFuncs(WasmPath) {
										if g.Object() == fv.Obj {
											out[name] = g
										}
									}
								}
							}
						}
					}
					if a, ok := arr.Val.(*ssa.Alloc); ok && arr.Op == "alloc" {
						saved := tb.curLoad
						tb.curLoad = nil
						for k := 0; k < 64; k++ {
							row := []string{fmt.Sprintf("[%d]", k)}
							n := tb.cellContent(a, arr, append(append([]string(nil), row...), nt.Sym), nil)
							fv := tb.cellContent(a, arr, append(append([]string(nil), row...), vt.Args[0].Sym), nil)
							if n.Op == "zero" {
								break
							}
							if name, err := unquote(n.Sym); err == nil && n.IsConst() && fv.Op == "fn" {
								if fn, ok := fv.Val.(*ssa.Function); ok {
									out[name] = fn
								}
							}
						}
						tb.curLoad = saved
					}
				}
				return
			}
			name, err := unquote(t.Args[1].Sym)
			if err != nil {
				return
			}
			v := t.Args[2]
			if v.Op == "call" && v.Sym == "syscall/js.FuncOf" && v.Args[0].Op == "fn" {
				if fn, ok := v.Args[0].Val.(*ssa.Function); ok {
					out[name] = fn
				}
			}
		})
	}
	return out
}

// checkPow10: f(n) computes 10^n in uint64 by a counted loop (result = 1; for i < n: result *= 10).
func checkPow10(tb *TB, f *ssa.Function) string {
	if f == nil || len(f.Params) != 1 {
		return "not a one-argument function"
	}
	res := tb.Results(f, nil, nil, 0)
	if len(res) != 1 {
		return "does not return one value"
	}
	if b, ok := f.Signature.Results().At(0).Type().Underlying().(*types.Basic); !ok || b.Kind() != types.Uint64 {
		return "does not accumulate in uint64"
	}
	if os.Getenv("OTPSA_DEBUG") != "" {
		fmt.Fprintf(os.Stderr, "checkPow10 %s typ=%v term=%s\n", FuncName(f), res[0].Typ, res[0])
	}
	if res[0].Typ != nil {
		if b, ok := res[0].Typ.Underlying().(*types.Basic); !ok || b.Kind() != types.Uint64 {
			return "the product is accumulated in " + res[0].Typ.String() + ", not uint64: 10^10 wraps"
		}
	}
	rotated := false
	switch normT(res[0]) {
	case "phi(bin(*; const(10); cycle(*)); const(1))":
	case "phi(bin(*; const(10); phi(const(1); cycle(*))); const(1))":
		// range-lowered loop (for range n): tested at the bottom, entered only for n > 0
		rotated = true
	default:
		return "result is " + clip(normT(res[0]), 160) + ", not 1·10·10·… in full 64-bit arithmetic (a narrower accumulator wraps for 10^10)"
	}
	if rotated {
		P := fmt.Sprintf("param(%s#0)", FuncName(f))
		var conds []string
		EachInstr(f, func(in ssa.Instruction) {
			if iff, isIf := in.(*ssa.If); isIf {
				conds = append(conds, normT(tb.Of(iff.Cond)))
			}
		})
		sort.Strings(conds)
		want := []string{"bin(<; bin(+; const(1); phi(const(0); cycle(*))); " + P + ")", "bin(<; const(0); " + P + ")"}
		if len(conds) != 2 || conds[0] != want[0] || conds[1] != want[1] {
			return "the loop does not run exactly n times (counting up to n or down from n)"
		}
		return ""
	}
	ok := false
	EachInstr(f, func(in ssa.Instruction) {
		if iff, isIf := in.(*ssa.If); isIf {
			// exactly n rounds (none for n ≤ 0): counting up from 0 or 1 to n, or down from n to 0
			P := fmt.Sprintf("param(%s#0)", FuncName(f))
			switch normT(tb.Of(iff.Cond)) {
			case "bin(<; phi(bin(+; const(1); cycle(*)); const(0)); " + P + ")",
				"bin(<=; phi(bin(+; const(1); cycle(*)); const(1)); " + P + ")",
				"bin(>; phi(bin(-; cycle(*); const(1)); " + P + "); const(0))",
				"bin(>=; phi(bin(-; cycle(*); const(1)); " + P + "); const(1))":
				ok = true
			}
		}
	})
	if !ok {
		return "the loop does not run exactly n times (counting up to n or down from n)"
	}
	return ""
}

// ruleJSExportsDirect (shared): the JavaScript package hands the named operations out as the registered
// WebAssembly globals themselves (`name: globalThis.name`). A wrapper in between (coercions such as `x >>> 0`,
// a "fast path" that compares in JavaScript) changes the operation's result for part of its domain although
// no Go code changed.
func ruleJSExportsDirect(c *Check, rule string, names ...string) {
	if _, err := os.Stat(filepath.Join(RepoDir, "otp-js", "src", "index.js")); err != nil {
		return // no JavaScript package in this tree
	}
	exp, lines, err := jsExportTable()
	if err != nil {
		c.Unk(rule, "otp-js/src/index.js", "export-table", "cannot read the JavaScript export table: "+err.Error(), "otp-js/src/index.js")
		return
	}
	for _, n := range names {
		pos := fmt.Sprintf("otp-js/src/index.js:%d", lines[n])
		got, ok := exp[n]
		switch {
		case !ok:
			c.Bad(rule, "otp-js/src/index.js", "export:"+n, "the package does not export "+n, "otp-js/src/index.js")
		case got != "globalThis."+n:
			c.Bad(rule, "otp-js/src/index.js", "export:"+n, "the exported "+n+" is "+clip(got, 120)+", not the registered global itself: arguments or the verdict are altered in JavaScript", pos)
		default:
			c.OK(rule, "otp-js/src/index.js", "export:"+n, "exported name is the registered global itself", pos)
		}
	}
}

// ruleWasmTimeStep (shared by C20 and C02): in the binding's TOTP functions the time step is
// TimeCounterFunc(time.Unix(<parsed timestamp>, 0), <parsed period>) with the period positive at the division
// and used verbatim (an unusable period is refused, never replaced).
func ruleWasmTimeStep(c *Check, w *World, tb *TB, iv *IV, rule string, regs map[string]*ssa.Function) {
	for _, n := range []string{"generateTOTP", "validateTOTP"} {
		f := regs[n]
		if f == nil {
			continue
		}
		found := false
		EachInstr(f, func(in ssa.Instruction) {
			cl, ok := in.(*ssa.Call)
			if !ok {
				return
			}
			t := tb.Of(cl)
			if t.Op == "calldyn" && t.Args[0].String() == "gval(otp.TimeCounterFunc)" && len(cl.Call.Args) == 2 {
				found = true
				p := iv.At(cl.Call.Args[1], cl.Block())
				c.Decide(!p.ContainsInt(0), rule, "wasm."+n, "period-positive", "the period handed to the time-step function is never 0 ("+p.String()+")", "the period can be 0 at the time-step division: the module crashes instead of answering 'error:'", w.InstrPos(in))
				pt := t.Args[2]
				for pt.Op == "conv" && len(pt.Args) == 1 {
					pt = pt.Args[0]
				}
				verbatim := pt.Op == "extract" && pt.Sym == "0" && pt.Args[0].Op == "call" && len(pt.Args[0].Args) == 2 && pt.Args[0].Args[1].IsConst() && pt.Args[0].Args[1].Sym == `"period"`
				c.Decide(verbatim, rule, "wasm."+n, "period-verbatim", "the period used is the parsed argument itself: an unusable period is refused with 'error:', not replaced", "the period handed to the time-step function is "+clip(normT(pt), 160)+", not the parsed argument itself: an out-of-range period is silently replaced instead of being answered with 'error:'", w.InstrPos(in))
				tt := t.Args[1]
				okT := tt.Op == "call" && tt.Sym == "time.Unix" && len(tt.Args) == 2 && tt.Args[1].IsConst() && tt.Args[1].Sym == "0"
				if okT {
					a := tt.Args[0]
					for a.Op == "conv" && len(a.Args) == 1 {
						a = a.Args[0]
					}
					okT = a.Op == "extract" && a.Sym == "0" && a.Args[0].Op == "call" && len(a.Args[0].Args) == 2 && a.Args[0].Args[1].IsConst() && a.Args[0].Args[1].Sym == `"timestamp"`
				}
				c.Decide(okT, rule, "wasm."+n, "instant-verbatim", "the instant is time.Unix(<parsed timestamp>, 0)", "the instant handed to the time-step function is "+clip(normT(tt), 160)+", not time.Unix(timestamp, 0) of the parsed argument", w.InstrPos(in))
			}
		})
		if !found {
			c.Unk(rule, "wasm."+n, "time-step", "no call of the time-step function found in the binding's "+n, w.Pos(f.Pos()))
		}
	}
}

// ruleWasmDerivation (R20.2, shared with C01 in the js/wasm configuration): the binding's derivation satisfies
// the native RFC 4226 composition rules. Returns the derivation function.
func ruleWasmDerivation(c *Check, w *World, tb *TB, iv *IV, ef *Effects, sent map[string]bool, pfx string) (*ssa.Function, derivRoles) {
	// ---- R20.2 derivation agrees with native ----------------------------------------------------
	der := w.Func(OtpPath, "DeriveRFC4226Wasm")
	if der == nil {
		c.Fatal("anchor not found: DeriveRFC4226Wasm")
		return nil, derivRoles{}
	}
	dfn := FuncName(der)
	roles := derivRoles{-1, -1, -1, -1}
	for i, p := range der.Params {
		switch t := p.Type().Underlying().(type) {
		case *types.Slice:
			roles.Key = i
		case *types.Basic:
			switch {
			case t.Kind() == types.Uint64:
				roles.Counter = i
			case t.Kind() == types.Int:
				roles.Digits = i
			case t.Kind() == types.Uint8:
				roles.Algo = i
			}
		}
	}
	if roles.Key < 0 || roles.Counter < 0 || roles.Digits < 0 || roles.Algo < 0 {
		c.Fatal("DeriveRFC4226Wasm: cannot identify key/counter/digits/algorithm parameters")
		return nil, derivRoles{}
	}
	rt := roles.terms(der)
	var powFn *ssa.Function
	repeatPad := false
	rt.AltCode = func(alt *Term) (*Term, *Term, bool) {
		// s   or   string(padding) + s   with s = strconv.FormatUint(number, 10) and len(padding) = digits - len(s)
		s := alt
		if alt.Op == "bin" && alt.Sym == "+" {
			pad := alt.Args[0]
			s = alt.Args[1]
			L := "len(" + s.String() + ")"
			okPad := pad.Op == "conv" && pad.Sym == "string" && pad.Args[0].Op == "makeslice" && shortBy(nil, pad.Args[0].Args[0], L, rt.Digits)
			if pad.Op == "call" && pad.Sym == "strings.Repeat" && len(pad.Args) == 2 && pad.Args[0].IsConst() && pad.Args[0].Sym == `"0"` && shortBy(nil, pad.Args[1], L, rt.Digits) {
				okPad = true
				repeatPad = true
			}
			if !okPad {
				return nil, nil, false
			}
		}
		if s.Op != "call" || s.Sym != "strconv.FormatUint" || !s.Args[1].IsConst() || s.Args[1].Sym != "10" {
			return nil, nil, false
		}
		return s.Args[0], &Term{Op: "raw", str: rt.Digits}, true
	}
	rt.ModOK = func(mod, table *Term) string {
		for _, a := range mod.Alts() {
			switch {
			case a.String() == table.String():
			case a.Op == "call" && len(a.Args) == 1 && a.Args[0].String() == rt.Digits:
				cl, ok := a.Val.(*ssa.Call)
				if !ok || cl.Call.StaticCallee() == nil {
					return "unknown modulus " + clip(a.String(), 120)
				}
				powFn = cl.Call.StaticCallee()
				if why := checkPow10(tb, powFn); why != "" {
					return "the computed modulus for long codes is not 10^digits: " + why
				}
			default:
				return "the modulus is " + clip(a.String(), 160) + ", neither the native table entry nor 10^digits"
			}
		}
		return ""
	}
	pipe := checkHOTPDerivation(c, w, tb, iv, ef, pfx+"", der, rt, sent, 1, 10)
	if pipe != nil && pipe.modT != nil {
		checkModTable(c, w, pfx+".1", strings.TrimPrefix(pipe.modT.Args[0].Sym, "otp."), 1, 10) // entry 10 is the native side's modulus for 10 digits
	}
	// the computed modulus is only used for supported lengths (native refuses everything outside 1..10)
	if powFn != nil {
		EachInstr(der, func(in ssa.Instruction) {
			if cl, ok := in.(*ssa.Call); ok && cl.Call.StaticCallee() == powFn {
				checkIndexGate(c, w, iv, pfx+".2", dfn, "digits-gate@"+powFn.Name(), cl.Call.Args[0], in, 1, 10, "the code length")
			}
		})
	}
	// the padded form is returned exactly when the rendered number is shorter than the requested length
	okCond := false
	EachInstr(der, func(in ssa.Instruction) {
		if iff, ok := in.(*ssa.If); ok {
			t := tb.Of(iff.Cond)
			var L string
			t.Walk(func(x *Term) bool {
				if x.Op == "len" && x.Args[0].Op == "call" && x.Args[0].Sym == "strconv.FormatUint" {
					L = x.String()
					return false
				}
				return true
			})
			if L != "" && shortBy(t, nil, L, rt.Digits) {
				okCond = true
			}
		}
	})
	c.Decide(okCond, pfx+".8", dfn, "pad-condition", "padding is applied exactly when len(number) < digits", "the padding is not conditioned on len(number) < digits", w.Pos(der.Pos()))
	// left padding of the rendered number: only '0' is stored into the padding
	okPadVal, nPad := true, 0
	EachInstr(der, func(in ssa.Instruction) {
		if st, ok := in.(*ssa.Store); ok {
			if ia, ok := st.Addr.(*ssa.IndexAddr); ok {
				if _, isMk := ia.X.(*ssa.MakeSlice); isMk {
					nPad++
					if k, ok := constInt(st.Val); !ok || k.Int64() != '0' {
						okPadVal = false
					}
				}
			}
		}
	})
	c.Decide(okPadVal && (nPad > 0 || repeatPad), pfx+".8", dfn, "pad-character", "short numbers are left-padded with the character '0' only", "the padding in front of a short number is not the character '0'", w.Pos(der.Pos()))
	// the number handed to FormatUint is the truncated value: same truncate function as native
	gen := w.Func(OtpPath, "GenerateHOTP")
	if gen != nil {
		if nd := derivationsFrom(w, gen); len(nd) == 1 {
			shared := false
			for f := range w.Reachable(nd[0]) {
				if w.Reachable(der)[f] && f.Name() != "init" && f != der && f != nd[0] && fnPkgPath(f) == OtpPath && len(f.Params) == 2 && f.Signature.Results().Len() == 1 {
					if b, ok := f.Signature.Results().At(0).Type().Underlying().(*types.Basic); ok && b.Kind() == types.Uint32 {
						shared = true
					}
				}
			}
			c.Decide(shared, pfx+".7", dfn, "shared-truncation", "the js/wasm derivation uses the same dynamic-truncation function as the native one", "the js/wasm derivation does not share the native dynamic-truncation function", w.Pos(der.Pos()))
		}
	}

	return der, roles
}

// ruleWasmWindow (shared with C03/C04 in the js/wasm configuration): the binding's validate function walks the
// native window (HOTP: steps below zero skipped; TOTP: modulo 2^64).
func ruleWasmWindow(c *Check, w *World, tb *TB, iv *IV, pfx, name string, needGuard bool) {
	if w.Cfg.Name != CfgWasm.Name || w.SPkgs[WasmPath] == nil {
		return
	}
	f := jsRegistrations(w, tb)[name]
	vw := w.Func(OtpPath, "ValidateOTPWasm")
	if f == nil || vw == nil {
		c.Unk(pfx+".2", "wasm."+name, "window-loop", "the binding's "+name+" (or its validator) was not found", "")
		return
	}
	analyseWindow(c, w, tb, iv, pfx, f, func(cl *ssa.Call) bool { return cl.Call.StaticCallee() == vw }, "", needGuard)
	// … and what is walked is the native per-step validation: compare core, verdicts, number coercion, key
	wasmCompareCore(c, w, tb, pfx, vw, nil, sentinelErrors(w, tb, NewEffects(tb)))
	ruleJSNumberCoercion(c, w, pfx+".9")
	ruleWasmKey(c, w, tb, pfx+".9", jsRegistrations(w, tb), name)
}

func runC20(c *Check, w *World) {
	if w.Cfg.Name != CfgWasm.Name {
		return
	}
	if w.SPkgs[WasmPath] == nil {
		c.Fatal("package %s not loaded in the js/wasm configuration", WasmPath)
		return
	}
	tb := NewTB(w)
	ef := NewEffects(tb)
	iv := newIVWithTables(w, tb, ef)
	sent := sentinelErrors(w, tb, ef)

	fieldResolver = func(t *Term) *Term { return throughResultField(w, tb, t) }
	defer func() { fieldResolver = nil }()
	// ---- R20.1 export table ------------------------------------------------------------------------
	regs := jsRegistrations(w, tb)
	exp, lines, err := jsExportTable()
	if err != nil {
		c.Unk("R20.1", "otp-js/src/index.js", "export-table", "cannot read the JavaScript export table: "+err.Error(), "otp-js/src/index.js")
	} else {
		var names []string
		for n := range exp {
			names = append(names, n)
		}
		sort.Strings(names)
		for _, n := range names {
			pos := fmt.Sprintf("otp-js/src/index.js:%d", lines[n])
			want := "globalThis." + n
			switch {
			case regs[n] == nil:
				c.Bad("R20.1", "otp-js/src/index.js", "export:"+n, "the package exports "+n+", but the WebAssembly module registers no global function of that name", pos)
			case exp[n] != want:
				c.Bad("R20.1", "otp-js/src/index.js", "export:"+n, "the exported name "+n+" is bound to "+exp[n]+" instead of "+want+": callers get a different operation", pos)
			default:
				c.OK("R20.1", "otp-js/src/index.js", "export:"+n, "exported name bound to the registered global of the same name", pos)
			}
		}
		var rn []string
		for n := range regs {
			rn = append(rn, n)
		}
		sort.Strings(rn)
		for _, n := range rn {
			if _, ok := exp[n]; !ok {
				c.Bad("R20.1", "otp-js/src/index.js", "export:"+n, "the module registers "+n+" but the package's entry module does not export it", "otp-js/src/index.js")
			}
		}
	}
	for _, n := range []string{"generateHOTP", "generateTOTP", "validateHOTP", "validateTOTP", "generateOTPURL"} {
		c.Decide(regs[n] != nil, "R20.1", "wasm.registerFunctions", "registered:"+n, "documented global "+n+" is registered", "the documented global function "+n+" is not registered", "")
	}

	ruleJSReturnTypes(c, w, tb, "R20.7", regs)
	c.Floor("R20.7", 5)
	der, roles := ruleWasmDerivation(c, w, tb, iv, ef, sent, "R20.2")
	if der == nil {
		return
	}
	checkDigitsInt(c, w, tb, "R20.4")
	// ---- R20.3 windows agree -------------------------------------------------------------------------
	vw := w.Func(OtpPath, "ValidateOTPWasm")
	isStep := func(cl *ssa.Call) bool { return vw != nil && cl.Call.StaticCallee() == vw }
	for _, n := range []string{"validateHOTP", "validateTOTP"} {
		f := regs[n]
		if f == nil {
			continue
		}
		pfx := "R20.3." + n
		// the native window rules: HOTP skips steps below counter zero, TOTP wraps modulo 2^64 like the native loop
		wr := analyseWindow(c, w, tb, iv, pfx, f, isStep, "", n == "validateHOTP")
		// the operation registered under this name is the one the name says: the window is centred on the
		// caller's counter (HOTP) / on the time step of the caller's instant (TOTP)
		if wr != nil && wr.centre != nil {
			kind := bindingCounterKind(wr.centre)
			want := "argument #2" // (secret, code, counter, …)
			if n == "validateTOTP" {
				want = "time-step"
			}
			c.Decide(kind == want, "R20.8", "wasm."+n, "registered-operation", "the function registered as "+n+" validates around the "+want, "the function registered as "+n+" validates around "+kind+" ("+clip(normT(wr.centre), 140)+"), not around the "+want+": the name is bound to a different operation", w.Pos(f.Pos()))
		}
	}
	for _, n := range []string{"generateHOTP", "generateTOTP"} {
		f := regs[n]
		if f == nil {
			continue
		}
		want := "argument #1" // (secret, counter, …)
		if n == "generateTOTP" {
			want = "time-step"
		}
		hits := tb.Reach(f, func(ci ssa.CallInstruction) bool { return ci.Common().StaticCallee() == der }, 4)
		if len(hits) == 0 {
			c.Bad("R20.8", "wasm."+n, "registered-operation", "the function registered as "+n+" does not reach the binding's derivation", w.Pos(f.Pos()))
			continue
		}
		for _, h := range hits {
			if roles.Counter >= len(h.Args) {
				continue
			}
			kind := bindingCounterKind(h.Args[roles.Counter])
			c.Decide(kind == want, "R20.8", "wasm."+n, "registered-operation", "the function registered as "+n+" derives the code of the "+want, "the function registered as "+n+" derives the code of "+kind+" ("+clip(normT(h.Args[roles.Counter]), 140)+"), not of the "+want+": the name is bound to a different operation", w.InstrPos(h.Call))
		}
		if vw != nil && len(tb.Reach(f, func(ci ssa.CallInstruction) bool { return ci.Common().StaticCallee() == vw }, 4)) > 0 {
			c.Bad("R20.8", "wasm."+n, "registered-operation:validates", "the function registered as "+n+" runs a validation", w.Pos(f.Pos()))
		}
	}
	c.Floor("R20.8", 4)
	// wasm validator core: same shape as native validate()
	wasmCompareCore(c, w, tb, "R20.3", vw, der, sent)

	// ---- R20.4 argument mapping ------------------------------------------------------------------------
	for name, f := range regs {
		roleOf := map[string]string{"github.com/ja7ad/otp.DecodeSecret": "secret", "github.com/ja7ad/otp.DigitsFromStr": "digits", "github.com/ja7ad/otp.AlgorithmFromStr": "algo"}
		for callee, wantName := range roleOf {
			for _, h := range tb.Reach(f, MatchCallee(callee), 4) {
				a := throughResultField(w, tb, h.Args[0])
				ok := false
				got := ""
				for _, alt := range a.Alts() {
					// extract(0; call(parseStringArg; index(args; k); const("<name>")))
					if alt.Op == "extract" && alt.Args[0].Op == "call" && len(alt.Args[0].Args) == 2 && alt.Args[0].Args[1].IsConst() {
						got, _ = unquote(alt.Args[0].Args[1].Sym)
						if got == wantName || (wantName == "algo" && got == "algorithm") {
							ok = true
						}
					}
				}
				c.Decide(ok, "R20.4", "wasm."+name, "argument:"+wantName, "the argument parsed as "+wantName+" reaches "+callee[strings.LastIndex(callee, ".")+1:], "the value handed to "+callee+" is the argument parsed as \""+got+"\" ("+clip(normT(a), 120)+")", w.InstrPos(h.Call))
			}
		}
	}
	ruleWasmTimeStep(c, w, tb, iv, "R20.4", regs)
	// … and the time-step function the binding calls is the native one in this build too: floor(unix/period), never
	// reassigned (a *_wasm.go file with an init() that swaps it exists only in the js/wasm build)
	ruleCounterFunction(c, w, tb, ef, "R20.4")

	// ---- R20.5 error convention ----------------------------------------------------------------------------
	for name, f := range regs {
		for g := range w.Reachable(f) {
			if fnPkgPath(g) != WasmPath {
				continue
			}
			EachInstr(g, func(in ssa.Instruction) {
				cl, ok := in.(*ssa.Call)
				if !ok || CalleeName(cl.Common()) != "syscall/js.ValueOf" {
					return
				}
				a := cl.Call.Args[0]
				if mi, ok := a.(*ssa.MakeInterface); ok {
					a = mi.X
				}
				if b, ok := a.Type().Underlying().(*types.Basic); !ok || b.Kind() != types.String {
					return
				}
				t := tb.Of(a)
				cls := classifyJSString(t)
				switch cls {
				case "error-prefixed", "success-value":
					c.OK("R20.5", "wasm."+name, "js-string:"+cls+"@"+FuncName(g), "string result is an 'error:' message or the operation's value", w.InstrPos(in))
				default:
					c.Bad("R20.5", "wasm."+name, "js-string:"+cls+"@"+FuncName(g), "a string returned to JavaScript carries an error or fixed text without the documented 'error:' prefix: "+clip(normT(t), 160), w.InstrPos(in))
				}
			})
		}
	}
	// ---- R20.6 number coercion ------------------------------------------------------------------------------
	ruleJSNumberCoercion(c, w, "R20.6")
	// every argument error is answered: no parse error is overwritten by the next argument's parse
	{
		var wf []*ssa.Function
		for _, g := range w.ModuleFuncs(WasmPath) {
			if g.Blocks != nil {
				wf = append(wf, g)
			}
		}
		sortFuncs(wf)
		ruleErrorsUsed(c, w, "R20.5", append(wf, der, vw))
	}
	ruleWasmKey(c, w, tb, "R20.8", regs, "generateHOTP", "generateTOTP", "validateHOTP", "validateTOTP")
	ruleNoPkgState(c, w, tb, ef, "R20.H", append(w.ModuleFuncs(WasmPath), der, vw))
	c.Floor("R20.1", 10)
	c.Floor("R20.3.validateHOTP.2", 1)
	c.Floor("R20.3.validateTOTP.2", 1)
	c.Floor("R20.4", 10)
	c.Floor("R20.5", 20)
}

func classifyJSString(t *Term) string {
	isErrPrefix := func(x *Term) bool {
		if x.IsConst() {
			s, err := unquote(x.Sym)
			return err == nil && strings.HasPrefix(s, "error:")
		}
		return false
	}
	switch {
	case isErrPrefix(t):
		return "error-prefixed"
	case t.Op == "bin" && t.Sym == "+" && isErrPrefix(leftmostConcat(t)):
		return "error-prefixed"
	case t.Op == "call" && t.Sym == "fmt.Sprintf" && isErrPrefix(t.Args[0]):
		return "error-prefixed"
	case t.IsConst():
		return "fixed-text"
	case t.ContainsStr("(error).Error"):
		return "unprefixed-error"
	case t.Op == "call" && t.Sym == "fmt.Sprintf":
		return "unprefixed-format"
	}
	return "success-value"
}

func leftmostConcat(t *Term) *Term {
	for t.Op == "bin" && t.Sym == "+" {
		t = t.Args[0]
	}
	return t
}

var _ = constant.MakeBool

func init() {
	register(&propDef{
		id:    "C20",
		level: "other",
		explain: "Sibling cross-check of two implementations of one interface, in the js/wasm configuration (source only; the checked-in otp.wasm binary and wasm_exec.js are not analysed): R20.1 the names registered with js.Global().Set(name, js.FuncOf(f)) equal the keys of the object that index.js resolves (comment/string-aware tokenizer), each key bound to globalThis.<same key>; " +
			"R20.2 the binding's derivation satisfies the same RFC 4226 composition rules as the native one (hash chosen by a switch selecting sha1/sha256/sha512.New for SHA1/SHA256/SHA512, key unchanged, one big-endian PutUint64 of the counter, the same dynamic-truncation function, digits gate 1..10, modulus = native table entry for 1..9 and a verified full-width 10^n loop otherwise — both ≥ 2^31 for 10 digits, hence equal behaviour), rendered as FormatUint(…,10) left-padded with '0' to the digits; " +
			"R20.3 both binding window loops satisfy the native window rules (skew exactly 0..10 at the loop, i=-s..+s, the step counter depends on i, negative steps skipped, acceptance only under the step verdict) and the js/wasm validator has the native comparison core; R20.4 arguments reach their roles by the name given to the argument parser, and the TOTP period is positive at the division; " +
			"R20.5 every string returned to JavaScript is either prefixed \"error:\" or the operation's value; R20.6 JavaScript numbers become integers through js.Value.Int() only (truncation), never through a hand conversion of Float(). Not decided: syscall/js itself, the Node/wasm runtime. " +
			"R20.7 every return statement of a registered function boxes a value js.ValueOf converts (js.Value, js.Func, nil, unnamed booleans/integers/floats/strings, []any, map[string]any) — anything else panics in the runtime, the Go program exits and every later call throws; R20.8 the function registered under each documented name is that operation: generateHOTP derives the code of its own argument #1, validateHOTP walks a window centred on its argument #2, the TOTP names work on the library's time-step function; the centre of a window is loop-invariant.",
		trusted:  []string{"syscall/js", "the build of otp-js/lib/otp.wasm from these sources"},
		quick:    []Config{CfgWasm},
		thorough: []Config{CfgWasm},
		run:      runC20,
	})
}

// wasmGlobalWritten: is the binding's package-level variable sym ("main.x") stored to, or its address taken for
// anything but a load, outside the package initialiser?
func wasmGlobalWritten(w *World, sym string) bool {
	written := false
	for _, f := range w.ModuleFuncs(WasmPath) {
		if isInit(f) {
			continue
		}
		EachInstr(f, func(in ssa.Instruction) {
			var ops []*ssa.Value
			for _, op := range in.Operands(ops) {
				g, ok := (*op).(*ssa.Global)
				if !ok || valID(g) != sym {
					continue
				}
				if u, isLoad := in.(*ssa.UnOp); isLoad && u.Op == token.MUL {
					// the loaded slice may only be measured and read element-wise
					var walk func(v ssa.Value)
					walk = func(v ssa.Value) {
						if v.Referrers() == nil {
							return
						}
						for _, r := range *v.Referrers() {
							switch x := r.(type) {
							case *ssa.IndexAddr:
								walk(x)
							case *ssa.FieldAddr:
								walk(x)
							case *ssa.Index, *ssa.Field, *ssa.Extract, *ssa.Range, *ssa.Next, *ssa.Phi:
								// element and field reads of an array value, range iteration
							case *ssa.UnOp:
								if x.Op != token.MUL {
									written = true
								}
							case *ssa.Call:
								if CalleeName(x.Common()) != "builtin.len" {
									written = true
								}
							case *ssa.DebugRef:
							default:
								written = true
							}
						}
					}
					walk(u)
					continue
				}
				written = true
			}
		})
	}
	return written
}

// ruleJSReturnTypes (shared with C10 in the js/wasm configuration): whatever a registered function returns is
// handed to js.ValueOf by the runtime, which panics ("ValueOf: invalid value") on anything but js.Value, js.Func,
// nil, booleans, integers, floats, strings, []any and map[string]any — the Go program then exits and every later
// call of any export throws. Each return statement must therefore box a value of one of these types (a Go error
// returned as it is, for instance, is not one).
func ruleJSReturnTypes(c *Check, w *World, tb *TB, rule string, regs map[string]*ssa.Function) {
	var names []string
	for n := range regs {
		names = append(names, n)
	}
	sort.Strings(names)
	okType := func(t types.Type) bool {
		// js.ValueOf switches on the concrete type: a named type (type Digits int) is not one of its cases
		switch u := types.Unalias(t).(type) {
		case *types.Basic:
			return u.Info()&(types.IsBoolean|types.IsInteger|types.IsFloat|types.IsString) != 0 || u.Kind() == types.UntypedNil || u.Kind() == types.UnsafePointer
		case *types.Slice:
			if it, ok := u.Elem().Underlying().(*types.Interface); ok && it.Empty() {
				return true
			}
		case *types.Map:
			if it, ok := u.Elem().Underlying().(*types.Interface); ok && it.Empty() {
				if k, ok := u.Key().Underlying().(*types.Basic); ok && k.Kind() == types.String {
					return true
				}
			}
		}
		s := t.String()
		return s == "syscall/js.Value" || s == "syscall/js.Func"
	}
	for _, n := range names {
		f := regs[n]
		fn := FuncName(f)
		bad := ""
		var badAt ssa.Instruction
		nret := 0
		var judge func(v ssa.Value, depth int) string
		judge = func(v ssa.Value, depth int) string {
			switch x := v.(type) {
			case *ssa.MakeInterface:
				if okType(x.X.Type()) {
					return ""
				}
				return "a value of type " + x.X.Type().String()
			case *ssa.Const:
				if x.Value == nil {
					return "" // nil → null
				}
			case *ssa.Phi:
				if depth < 4 {
					for _, e := range x.Edges {
						if why := judge(e, depth+1); why != "" {
							return why
						}
					}
					return ""
				}
			case *ssa.ChangeInterface:
				return "a value of interface type " + x.X.Type().String() + " (dynamic type not one js.ValueOf accepts)"
			case *ssa.Call:
				// a helper of the binding returning `any`: judged by its own returns
				if g := x.Call.StaticCallee(); g != nil && g.Blocks != nil && fnPkgPath(g) == WasmPath && depth < 3 {
					for _, r := range Returns(g) {
						if len(r.Results) == 1 {
							if why := judge(r.Results[0], depth+1); why != "" {
								return why
							}
						}
					}
					return ""
				}
			}
			return "a value whose dynamic type is not known (" + v.Type().String() + ")"
		}
		for _, r := range Returns(f) {
			if len(r.Results) != 1 {
				continue
			}
			nret++
			if why := judge(r.Results[0], 0); why != "" && bad == "" {
				bad, badAt = why, r
			}
		}
		pos := w.Pos(f.Pos())
		if badAt != nil {
			pos = w.InstrPos(badAt)
		}
		c.Decide(bad == "" && nret > 0, rule, fn, "js-return-types", fmt.Sprintf("all %d return statements hand back a value js.ValueOf converts", nret), "the function returns "+bad+": js.ValueOf panics, the Go program exits and every later call of any export throws", pos)
	}
}

// bindingCounterKind classifies the counter a binding function works on: "argument #k" — the k-th JavaScript
// argument, parsed as an integer and unchanged but for integer conversions (the label under which it is parsed only
// names it in error messages); "time-step" — the result of the library's time-step function; anything else is
// described.
func bindingCounterKind(t *Term) string {
	for t.Op == "conv" && len(t.Args) == 1 {
		t = t.Args[0]
	}
	if fieldResolver != nil {
		t = fieldResolver(t)
		for t.Op == "conv" && len(t.Args) == 1 {
			t = t.Args[0]
		}
	}
	kinds := map[string]bool{}
	for _, a := range t.Alts() {
		for a.Op == "conv" && len(a.Args) == 1 {
			a = a.Args[0]
		}
		switch {
		case a.Op == "extract" && a.Sym == "0" && len(a.Args) == 1 && a.Args[0].Op == "call" && len(a.Args[0].Args) >= 1 &&
			a.Args[0].Args[0].Op == "index" && len(a.Args[0].Args[0].Args) == 2 && a.Args[0].Args[0].Args[0].Op == "param" && a.Args[0].Args[0].Args[1].IsConst():
			kinds["argument #"+a.Args[0].Args[0].Args[1].Sym] = true
		case a.Op == "calldyn" && len(a.Args) == 3 && a.Args[0].String() == "gval(otp.TimeCounterFunc)":
			kinds["time-step"] = true
		default:
			kinds["another value"] = true
		}
	}
	if len(kinds) == 1 {
		for k := range kinds {
			return k
		}
	}
	return "several different values"
}

// wasmDerivRoles: the parameter positions of the binding's derivation by type (key []byte, counter uint64, digits
// int, algorithm uint8).
func wasmDerivRoles(der *ssa.Function) (derivRoles, bool) {
	roles := derivRoles{-1, -1, -1, -1}
	for i, p := range der.Params {
		switch t := p.Type().Underlying().(type) {
		case *types.Slice:
			roles.Key = i
		case *types.Basic:
			switch {
			case t.Kind() == types.Uint64:
				roles.Counter = i
			case t.Kind() == types.Int:
				roles.Digits = i
			case t.Kind() == types.Uint8:
				roles.Algo = i
			}
		}
	}
	return roles, roles.Key >= 0 && roles.Counter >= 0 && roles.Digits >= 0 && roles.Algo >= 0
}

// wasmCompareCore (shared by C20 and, in the js/wasm configuration, C03/C04): the binding's per-step validator has
// the native compare core — the whole submitted string against the whole first result of the binding's derivation
// called with the validator's own (secret, counter, digits, algorithm), in constant time, after the length test,
// accepted only where the comparison is 1 and the derivation succeeded — and well-formed verdicts.
func wasmCompareCore(c *Check, w *World, tb *TB, pfx string, vw, der *ssa.Function, sent map[string]bool) {
	if vw == nil {
		return
	}
	if der == nil {
		der = w.Func(OtpPath, "DeriveRFC4226Wasm")
	}
	vfn := FuncName(vw)
	codeP := -1
	for i, p := range vw.Params {
		if b, ok := p.Type().Underlying().(*types.Basic); ok && b.Kind() == types.String {
			codeP = i
		}
	}
	checkCompareCore(c, w, tb, pfx, vw, codeP, func(h Hit, exp *Term) string {
		// the derivation may be called through a closure handed to a shared comparing helper (validate(code, n, func…))
		for k := 0; k < 4; k++ {
			if exp.Op == "extract" && exp.Args[0].Op == "call" {
				if cl, ok := exp.Args[0].Val.(*ssa.Call); ok && cl.Call.StaticCallee() == der {
					break
				}
			}
			n := tb.Expand(exp, 1)
			if n == exp {
				break
			}
			exp = n
		}
		if exp.Op == "phi" { // error paths return "" as well
			var calls []*Term
			for _, a := range exp.Alts() {
				if !a.IsConst() {
					calls = append(calls, a)
				}
			}
			if len(calls) == 1 {
				exp = calls[0]
			}
		}
		if exp.Op != "extract" || exp.Sym != "0" || exp.Args[0].Op != "call" {
			return "expected code is not the derivation's first result: " + clip(normT(exp), 160)
		}
		cl, ok := exp.Args[0].Val.(*ssa.Call)
		if !ok || der == nil || cl.Call.StaticCallee() != der {
			return "expected code comes from " + exp.Args[0].Sym
		}
		roles, okR := wasmDerivRoles(der)
		if !okR {
			return "the derivation's key/counter/digits/algorithm parameters cannot be identified"
		}
		a := exp.Args[0].Args
		P := func(i int) string { return fmt.Sprintf("param(%s#%d)", vfn, i) }
		// (secret, counter, digits.Int(), algo) of the validator's own parameters, by type
		var sec, ctr, dig, alg string
		for i, p := range vw.Params {
			switch t := p.Type().Underlying().(type) {
			case *types.Slice:
				sec = P(i)
			case *types.Basic:
				if t.Kind() == types.Uint64 {
					ctr = P(i)
				}
				if t.Kind() == types.Uint8 && strings.HasSuffix(p.Type().String(), "Digits") {
					dig = P(i)
				}
				if t.Kind() == types.Uint8 && strings.HasSuffix(p.Type().String(), "Algorithm") {
					alg = P(i)
				}
			}
		}
		if a[roles.Key].String() != sec || a[roles.Counter].String() != ctr || tb.Norm(a[roles.Digits]).String() != dig || a[roles.Algo].String() != alg {
			return "the derivation is called with arguments other than the validator's own (secret, counter, digits, algorithm)"
		}
		return ""
	})
	for i, r := range Returns(vw) {
		if len(r.Results) != 2 {
			continue
		}
		if why := classifyVerdict(w, tb, r.Results[0], r.Results[1], CondsAt(r.Block()), sent, 0); why != "" {
			c.Bad(pfx, vfn, fmt.Sprintf("verdict#%d", i), why, w.InstrPos(r))
		}
	}
}

// ruleJSNumberCoercion (R20.6; shared with C01–C04 in the js/wasm configuration): JavaScript numbers become Go
// integers through js.Value.Int() only (truncation toward zero, what the contract documents); reading the float and
// converting it by hand rounds or saturates differently.
func ruleJSNumberCoercion(c *Check, w *World, rule string) {
	nInt := 0
	for _, g := range w.ModuleFuncs(WasmPath) {
		EachInstr(g, func(in ssa.Instruction) {
			ci, ok := in.(ssa.CallInstruction)
			if !ok {
				return
			}
			switch CalleeName(ci.Common()) {
			case "(syscall/js.Value).Int":
				nInt++
				v := ci.Value()
				direct := true
				if v != nil && v.Referrers() != nil {
					for _, r := range *v.Referrers() {
						if bo, isB := r.(*ssa.BinOp); isB {
							switch bo.Op {
							case token.ADD, token.SUB, token.MUL, token.QUO, token.REM, token.SHL, token.SHR, token.AND, token.OR, token.XOR:
								direct = false
							}
						}
					}
				}
				c.Decide(direct, rule, FuncName(g), "js-number:Int", "the JavaScript number is truncated toward zero by js.Value.Int() and used as it is", "the truncated JavaScript number is adjusted arithmetically before use", w.InstrPos(in))
			case "(syscall/js.Value).Float":
				c.Bad(rule, FuncName(g), "js-number:Float", "a JavaScript number is read as a float and converted by hand: fractional arguments are no longer truncated toward zero as documented (rounding moves 1.5 to 2)", w.InstrPos(in))
			}
		})
	}
	if nInt == 0 {
		c.Unk(rule, "wasm", "js-number:Int", "no js.Value.Int() conversion found in the binding", "")
	}
}

// ruleWasmKey (shared by C01, C20 and C07's R07.2 in the js/wasm configuration): on every path from a registered
// function to an HMAC, the key is the first result of the library's DecodeSecret — the binding decodes secrets
// exactly like the native operations (no hex attempt first, no second decoder).
func ruleWasmKey(c *Check, w *World, tb *TB, rule string, regs map[string]*ssa.Function, names ...string) {
	for _, n := range names {
		f := regs[n]
		if f == nil {
			continue
		}
		hits := tb.Reach(f, MatchCallee("crypto/hmac.New"), 10)
		if len(hits) == 0 {
			c.Unk(rule, "wasm."+n, "hmac-key", "no HMAC is reached from the function registered as "+n, w.Pos(f.Pos()))
		}
		for _, h := range hits {
			k := h.Args[1]
			isDec := func(t *Term) bool {
				for _, alt := range t.Alts() {
					if !(alt.Op == "extract" && alt.Sym == "0" && alt.Args[0].Op == "call" && alt.Args[0].Sym == "github.com/ja7ad/otp.DecodeSecret") {
						return false
					}
				}
				return true
			}
			ok := isDec(k) || isDec(tb.Norm(k)) // (a wrapper around DecodeSecret is read through)
			c.Decide(ok, rule, "wasm."+n, "hmac-key", "the HMAC key is DecodeSecret(secret)#0", "the HMAC key behind "+n+" is "+clip(normT(k), 200)+": the binding decodes the secret differently from the native operation", w.InstrPos(h.Call))
		}
	}
}

// fieldResolver is set by runC20 to throughResultField with its world and term builder.
var fieldResolver func(t *Term) *Term

// throughResultField: t = field(F; r) where r is the (first) result of a call of a module helper that returns its
// findings in a struct (req, err := parseGenerateArgs(args, "HOTP")): what the helper stores in F on its returns,
// with the call's arguments bound; zero values of error returns are dropped. Other terms are returned unchanged.
func throughResultField(w *World, tb *TB, t *Term) *Term {
	if t.Op != "field" || len(t.Args) != 1 {
		return t
	}
	inner := t.Args[0]
	if inner.Op == "extract" && inner.Sym == "0" && len(inner.Args) == 1 {
		inner = inner.Args[0]
	}
	cl, ok := inner.Val.(*ssa.Call)
	if !ok || inner.Op != "call" {
		return t
	}
	g := cl.Call.StaticCallee()
	if g == nil || !w.InModule(g) || g.Blocks == nil {
		return t
	}
	rs := tb.Results(g, inner.Args, nil, 1)
	if len(rs) == 0 {
		return t
	}
	ft := tb.fieldOf(rs[0], t.Sym, &Env{Fn: g, Params: inner.Args})
	var alts []*Term
	for _, a := range ft.Alts() {
		if a.Op == "zero" || (a.IsConst() && (a.Sym == `""` || a.Sym == "0")) {
			continue
		}
		alts = append(alts, a)
	}
	if len(alts) == 0 {
		return t
	}
	return mkPhi(alts)
}
