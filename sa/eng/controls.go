package eng

import (
	_ "embed"
	"fmt"
	"go/ast"
	"go/importer"
	"go/parser"
	"go/token"
	"go/types"
	"strings"

	"golang.org/x/tools/go/packages"
	"golang.org/x/tools/go/ssa"
	"golang.org/x/tools/go/ssa/ssautil"
)

//go:embed fixture/control.go.txt
var controlSrc string

var controlWorld *World
var controlErr error

// loadControls type-checks the embedded positive-control package and builds its SSA form in process.
func loadControls() (*World, error) {
	if controlWorld != nil || controlErr != nil {
		return controlWorld, controlErr
	}
	fset := token.NewFileSet()
	f, err := parser.ParseFile(fset, "control.go", controlSrc, parser.ParseComments)
	if err != nil {
		controlErr = err
		return nil, err
	}
	pkg := types.NewPackage(OtpPath, "otp")
	info := &types.Info{Types: map[ast.Expr]types.TypeAndValue{}, Defs: map[*ast.Ident]types.Object{}, Uses: map[*ast.Ident]types.Object{}, Implicits: map[ast.Node]types.Object{}, Scopes: map[ast.Node]*types.Scope{}, Selections: map[*ast.SelectorExpr]*types.Selection{}, Instances: map[*ast.Ident]types.Instance{}, FileVersions: map[*ast.File]string{}}
	conf := &types.Config{Importer: importer.ForCompiler(fset, "source", nil)}
	spkg, _, err := ssautil.BuildPackage(conf, fset, pkg, []*ast.File{f}, ssa.InstantiateGenerics)
	if err != nil {
		controlErr = err
		return nil, err
	}
	_ = info
	w := &World{Cfg: Config{Name: "positive-control"}, Fset: fset, Prog: spkg.Prog, Pkgs: map[string]*packages.Package{}, SPkgs: map[string]*ssa.Package{OtpPath: spkg}}
	w.Pkgs[OtpPath] = &packages.Package{PkgPath: OtpPath, Types: pkg, Syntax: []*ast.File{f}, TypesSizes: types.SizesFor("gc", "amd64"), TypesInfo: &types.Info{}}
	w.all = ssautil.AllFunctions(spkg.Prog)
	for fn := range w.all {
		if w.InModule(fn) && fn.Blocks != nil {
			w.mod = append(w.mod, fn)
		}
	}
	sortFuncs(w.mod)
	controlWorld = w
	return w, nil
}

// runControl runs rule on the positive-control package and requires that it reports want (a substring of
// "function|construct"). The verdict becomes an obligation of the real check.
func runControl(c *Check, label string, want []string, rule func(sink *Check, w *World)) {
	w, err := loadControls()
	if err != nil {
		c.Fatal("positive control package cannot be analysed: %v", err)
		return
	}
	sink := NewCheck(c.Property, c.Tier)
	sink.SetConfig("positive-control")
	func() {
		defer func() {
			if r := recover(); r != nil {
				c.Fatal("positive control %s panicked: %v", label, r)
			}
		}()
		rule(sink, w)
	}()
	saved := c.cur
	c.cur = "positive-control"
	for _, wnt := range want {
		found := false
		for _, o := range sink.Obls {
			if o.st != Discharged && strings.Contains(o.Func+"|"+o.Construct, wnt) {
				found = true
			}
		}
		if found {
			c.OK("CONTROL", "fixture", label+":"+wnt, "the rule reports its deliberately wrong control example", "sa/eng/fixture/control.go.txt")
		} else {
			c.Unk("CONTROL", "fixture", label+":"+wnt, fmt.Sprintf("the rule did not report its positive control (%d obligations produced): the rule can no longer fire", len(sink.Obls)), "sa/eng/fixture/control.go.txt")
		}
	}
	c.cur = saved
}
