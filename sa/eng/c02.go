package eng

import (
	"fmt"
	"go/types"

	"golang.org/x/tools/go/ssa"
)

// timeCounterFn: the closure initialising the exported TimeCounterFunc variable.
func timeCounterFn(w *World) *ssa.Function {
	e, _ := w.GlobalInit(OtpPath, "TimeCounterFunc")
	if e == nil {
		return nil
	}
	for _, f := range w.ModuleFuncs(OtpPath) {
		if f.Syntax() != nil && f.Syntax().Pos() == e.Pos() {
			return f
		}
	}
	// initialised with a named function (var TimeCounterFunc = timeCounter): read the initialiser's store
	var out *ssa.Function
	for _, f := range w.ModuleFuncs(OtpPath) {
		if !isInit(f) {
			continue
		}
		EachInstr(f, func(in ssa.Instruction) {
			st, ok := in.(*ssa.Store)
			if !ok {
				return
			}
			g, ok := st.Addr.(*ssa.Global)
			if !ok || g.Name() != "TimeCounterFunc" {
				return
			}
			v := st.Val
			for {
				if ct, isCT := v.(*ssa.ChangeType); isCT {
					v = ct.X
					continue
				}
				break
			}
			switch x := v.(type) {
			case *ssa.Function:
				out = x
			case *ssa.MakeClosure:
				if len(x.Bindings) == 0 {
					out, _ = x.Fn.(*ssa.Function)
				}
			}
		})
	}
	return out
}

func timeParamIndex(f *ssa.Function) int {
	for i, p := range f.Params {
		if n, ok := p.Type().(*types.Named); ok && n.Obj().Pkg() != nil && n.Obj().Pkg().Path() == "time" && n.Obj().Name() == "Time" {
			return i
		}
	}
	return -1
}

// periodTerm: ite(P == 0, 30, P) with P the resolved Period field.
func periodTerm(fn string, pp int, def string) string {
	P := resolvedField(fn, pp, def, "Period")
	return fmt.Sprintf("ite(bin(==; const(0); %s); const(30); %s)", P, P)
}

// ruleCounterFunction (R02.1)
func ruleCounterFunction(c *Check, w *World, tb *TB, ef *Effects, rule string) {
	tf := timeCounterFn(w)
	if tf == nil {
		c.Fatal("anchor not found: initialiser of TimeCounterFunc")
		return
	}
	fn := FuncName(tf)
	r := tb.Results(tf, nil, nil, 0)
	want1 := fmt.Sprintf("bin(/; conv(uint64; call((time.Time).Unix; param(%s#0))); param(%s#1))", fn, fn)
	got := ""
	if len(r) == 1 {
		got = r[0].String()
	}
	c.Decide(got == want1, rule, "otp.TimeCounterFunc", "counter-function", "counter = uint64(t.Unix()) / uint64(period): whole seconds, unsigned integer division (floor), nothing else about the instant", "the time-step function computes "+clip(got, 240)+", not floor(unix seconds / period)", w.Pos(tf.Pos()))
	// the instant has no other use inside the function
	uses := 0
	if len(tf.Params) > 0 {
		if refs := tf.Params[0].Referrers(); refs != nil {
			for _, x := range *refs {
				if _, dbg := x.(*ssa.DebugRef); !dbg {
					uses++
				}
			}
		}
	}
	c.Decide(uses == 1, rule, "otp.TimeCounterFunc", "instant-isolation", "the instant is used only through Unix()", fmt.Sprintf("the instant has %d uses in the counter function", uses), w.Pos(tf.Pos()))
	// nobody in the module replaces the function
	written := false
	for _, f := range w.ModuleFuncs() {
		if isInit(f) {
			continue
		}
		for _, e := range ef.Of(f) {
			if e.Via == "" && (e.Root.Op == "global" || e.Root.Op == "gval") && e.Root.Sym == "otp.TimeCounterFunc" {
				written = true
				c.Bad(rule, FuncName(f), "counter-function-replaced", "the module itself assigns TimeCounterFunc", w.InstrPos(e.In))
			}
		}
	}
	if !written {
		c.OK(rule, "otp.TimeCounterFunc", "counter-function-fixed", "only the initialiser stores the counter function", w.Pos(tf.Pos()))
	}
}

// totpDeriveCall: the call of the shared derivation reached from a TOTP entry point.
func totpDeriveHit(c *Check, w *World, tb *TB, rule string, entry *ssa.Function) (*Hit, derivRoles, *ssa.Function) {
	gen := w.Func(OtpPath, "GenerateHOTP")
	var der *ssa.Function
	if gen != nil {
		if ds := derivationsFrom(w, gen); len(ds) == 1 {
			der = ds[0]
		}
	}
	if der == nil {
		c.Fatal("shared HOTP derivation not found")
		return nil, derivRoles{}, nil
	}
	hits := tb.Reach(entry, func(ci ssa.CallInstruction) bool { return ci.Common().StaticCallee() == der }, 8)
	if len(hits) != 1 {
		c.Bad(rule, FuncName(entry), "shared-derivation", fmt.Sprintf("%d calls of the HOTP derivation (%s) are reached from %s, expected one: TOTP must be HOTP at the time step", len(hits), FuncName(der), FuncName(entry)), w.Pos(entry.Pos()))
		return nil, derivRoles{}, der
	}
	roles, why := rolesFromCall(tb, hits[0], der)
	if why != "" {
		c.Unk(rule, FuncName(entry), "roles", why, w.InstrPos(hits[0].Call))
		return nil, roles, der
	}
	return &hits[0], roles, der
}

func checkTOTPEntry(c *Check, w *World, tb *TB, pfx string, entry *ssa.Function, h *Hit, roles derivRoles) {
	fn := FuncName(entry)
	tp := timeParamIndex(entry)
	pp := paramPtrIndex(entry, "Param")
	secretP, _ := secretAndCodeParams(tb, entry)
	if tp < 0 || pp < 0 || secretP < 0 {
		c.Fatal("%s: cannot identify time/param/secret parameters", fn)
		return
	}
	per := periodTerm(fn, pp, "DefaultTOTPParam")
	wantCtr := fmt.Sprintf("calldyn(gval(otp.TimeCounterFunc); param(%s#%d); %s)", fn, tp, per)
	ct := tb.Norm(h.Args[roles.Counter])
	// in validation the counter is centre + offset (loop counter, window size): compare the centre, i.e. the one
	// time-step call in the linear form of the counter argument
	centre := ct
	lm := &linMaker{w: w, modular: true}
	lf := lm.of(ct)
	for a, k := range lf.coef {
		if t := lm.atomTerms[a]; k == 1 && t != nil && t.Op == "calldyn" {
			centre = t
		}
	}
	ok := centre.String() == wantCtr
	why := ""
	if !ok {
		switch {
		case centre.Op != "calldyn" || centre.Args[0].String() != "gval(otp.TimeCounterFunc)":
			why = "the counter is not the result of the time-step function: " + clip(normT(centre), 200)
		case centre.Args[1].String() != fmt.Sprintf("param(%s#%d)", fn, tp):
			why = "the instant handed to the time-step function is " + clip(normT(centre.Args[1]), 160) + ", not the caller's instant unchanged"
		default:
			why = "the period handed to the time-step function is " + clip(normT(centre.Args[2]), 200) + "; expected param.Period with 0 (and nil) meaning 30 s"
		}
	}
	c.Decide(ok, pfx+".2", fn, "time-step", "counter = TimeCounterFunc(t, period) with t the caller's instant and period = param.Period, 0 → 30 s", why, w.InstrPos(h.Call))
	// the instant flows nowhere else
	uses := 0
	if refs := entry.Params[tp].Referrers(); refs != nil {
		for _, x := range *refs {
			if _, dbg := x.(*ssa.DebugRef); !dbg {
				uses++
			}
		}
	}
	c.Decide(uses == 1, pfx+".2", fn, "instant-isolation", "the instant is used only as the argument of the time-step function", fmt.Sprintf("the instant has %d uses (sub-second part, location or monotonic reading may leak into the code)", uses), w.Pos(entry.Pos()))
	wantKey := fmt.Sprintf("extract(0; call(github.com/ja7ad/otp.DecodeSecret; param(%s#%d)))", fn, secretP)
	c.Decide(tb.EqNorm(h.Args[roles.Key], wantKey), pfx+".2", fn, "key-is-decoded-secret", "the derivation key is DecodeSecret(secret)", "the key is "+clip(normT(h.Args[roles.Key]), 160), w.InstrPos(h.Call))
}

func runC02(c *Check, w *World) {
	if w.Cfg.Name == CfgNative.Name {
		ruleJSExportsDirect(c, "R02.JS", "generateTOTP")
	}
	tb := NewTB(w)
	ef := NewEffects(tb)
	ruleCounterFunction(c, w, tb, ef, "R02.1")
	for _, name := range []string{"GenerateTOTP", "ValidateTOTP"} {
		entry := w.Func(OtpPath, name)
		if entry == nil {
			c.Fatal("anchor not found: %s", name)
			continue
		}
		h, roles, _ := totpDeriveHit(c, w, tb, "R02.2", entry)
		if h == nil {
			continue
		}
		checkTOTPEntry(c, w, tb, "R02", entry, h, roles)
		if name == "GenerateTOTP" {
			checkParamResolution(c, w, tb, "R02.4", entry, *h, roles, "DefaultTOTPParam", 6, 0)
		} else {
			pp := paramPtrIndex(entry, "Param")
			fn := FuncName(entry)
			d := h.Args[roles.Digits]
			wd := resolvedField(fn, pp, "DefaultTOTPParam", "Digits")
			c.Decide(tb.Norm(d).String() == wd, "R02.4", fn, "digits-resolution", "validation resolves digits like generation", "digits handed to the derivation: "+clip(normT(d), 200), w.InstrPos(h.Call))
			c.Decide(tb.EqNorm(h.Args[roles.Algo], resolvedField(fn, pp, "DefaultTOTPParam", "Algorithm")), "R02.4", fn, "algorithm-resolution", "validation resolves the algorithm like generation", "algorithm handed to the derivation: "+clip(normT(h.Args[roles.Algo]), 200), w.InstrPos(h.Call))
		}
	}
	// R02.3 the period default is 30 everywhere
	if lit := defaultsLit(w, "DefaultTOTPParam"); lit != nil && lit.Kind == "struct" {
		d, _ := lit.FieldInt("Digits")
		a, _ := lit.FieldInt("Algorithm")
		p, _ := lit.FieldInt("Period")
		s, _ := lit.FieldInt("Skew")
		c.Decide(d == 6 && a == 0 && p == 30 && s == 0, "R02.4", "otp.DefaultTOTPParam", "default-values", "absent parameters mean 6 digits, SHA-1, 30 s, skew 0", fmt.Sprintf("defaults are digits=%d algorithm=%d period=%d skew=%d", d, a, p, s), "")
	} else {
		c.Unk("R02.4", "otp.DefaultTOTPParam", "default-values", "default parameter set is not a struct literal", "")
	}
	if uf := w.Func(OtpPath, "GenerateTOTPURL"); uf != nil {
		ok, got := urlPeriodDefault(w, tb, uf)
		c.Decide(ok, "R02.3", FuncName(uf), "url-period-default", "provisioning URLs write period 30 for a zero period", "GenerateTOTPURL's period parameter is "+clip(got, 200)+", not Period with 0 → 30", w.Pos(uf.Pos()))
	}
	checkDigitsInt(c, w, tb, "R02.4")
	ruleHistoryIndependence(c, w, tb, ef, "R02.H", w.Funcs(OtpPath, "GenerateTOTP", "ValidateTOTP")...)
	checkRESTEndpoints(c, w, tb, ef, "R02.REST", "/totp/generate", "/totp/validate")
	if w.Cfg.Name == CfgWasm.Name && w.SPkgs[WasmPath] != nil {
		ruleWasmTimeStep(c, w, tb, newIVWithTables(w, tb, ef), "R02.W", jsRegistrations(w, tb))
		ruleWasmKey(c, w, tb, "R02.W", jsRegistrations(w, tb), "generateTOTP")
		ruleJSNumberCoercion(c, w, "R02.W")
	}
	c.Floor("R02.1", 3)
	c.Floor("R02.2", 6)
	c.Floor("R02.3", 1)
	c.Floor("R02.4", 5)
}

func init() {
	register(&propDef{
		id:    "C02",
		level: "other",
		explain: "R02.1 the only value ever stored in TimeCounterFunc is its initialiser, whose result is uint64(t.Unix()) / uint64(period) (resolved method Unix, unsigned integer division) and which uses the instant in no other way; " +
			"R02.2 from GenerateTOTP and ValidateTOTP exactly one call of the same derivation function HOTP uses is reached, its counter is TimeCounterFunc(t, period) (plus the window offset in validation) with t the caller's instant used nowhere else, its key DecodeSecret(secret); " +
			"R02.3 the period operand is in both entry points ite(P==0, 30, P) with P = param.Period (DefaultTOTPParam's when nil), and the URL builder defaults a zero period to 30; R02.4 digits/algorithm resolve identically in generation and validation, DefaultTOTPParam = {6, SHA-1, 30 s, 0}. " +
			"The HOTP value itself is C01's subject. Not decided: instants before the epoch (outside the property), a caller-replaced TimeCounterFunc.",
		assume:   []string{"the caller does not replace TimeCounterFunc (the property excludes it)"},
		quick:    []Config{CfgNative, CfgWasm},
		thorough: []Config{CfgNative, CfgWasm, Cfg386},
		run:      runC02,
	})
}

// decimalOf: the integer term whose decimal rendering t is (fmt.Sprintf("%d", x), strconv.FormatUint/FormatInt(x, 10), strconv.Itoa(x)).
func decimalOf(tb *TB, t *Term) (*Term, bool) {
	if t.Op != "call" {
		return nil, false
	}
	// conversions that survive in a term are the value-changing ones (narrowing or sign change; the
	// value-preserving ones are elided when the term is built), so they are not looked through:
	// Itoa(int(x)) of an unsigned x prints a negative number from 2^(bits-1) on
	switch t.Sym {
	case "fmt.Sprintf":
		if len(t.Args) == 2 && t.Args[0].IsConst() && t.Args[0].Sym == `"%d"` {
			if el := varargsElems(tb, t.Args[1]); len(el) == 1 {
				return el[0], true
			}
		}
	case "strconv.FormatUint", "strconv.FormatInt":
		if len(t.Args) == 2 && t.Args[1].IsConst() && t.Args[1].Sym == "10" {
			return t.Args[0], true
		}
	case "strconv.Itoa":
		if len(t.Args) == 1 {
			return t.Args[0], true
		}
	}
	return nil, false
}

// urlPeriodDefault: the "period" query value of GenerateTOTPURL is the decimal rendering of
// URLParam.Period with exactly the value 0 replaced by 30. Two equivalent shapes are recognised:
// the gated form (x == 0 ? 30 : x, after normalising helper calls) and the in-place form (a store of
// 30 into the local copy's Period field guarded by Period == 0).
func urlPeriodDefault(w *World, tb *TB, uf *ssa.Function) (bool, string) {
	pt := extraQueryParams(tb, uf)["period"]
	if pt == nil {
		return false, "absent"
	}
	x, ok := decimalOf(tb, pt)
	if !ok {
		return false, pt.String()
	}
	return defaultedInt(tb, uf, x, "field(Period; param("+FuncName(uf)+"#0))", "Period", "30")
}

// defaultedInt: the integer term x is the field fieldT with exactly the value 0 replaced by def. Two
// equivalent shapes are recognised: the gated form (x == 0 ? def : x, after normalising helper calls and
// identity accessors) and the in-place form (a store of def into the local copy's field guarded by field == 0).
func defaultedInt(tb *TB, uf *ssa.Function, x *Term, fieldT, fieldName_, def string) (bool, string) {
	isField := func(t *Term) bool {
		n := 0
		for _, a := range t.Alts() {
			switch {
			case a.Op == "cycle":
			case a.String() == fieldT:
				n++
			default:
				return false
			}
		}
		return n > 0
	}
	// no conversion is looked through: those left in a term change the value (narrowing / sign)
	strip := func(x *Term) *Term { return x }
	nx := strip(tb.Norm(x))
	if nx.Op == "ite" && len(nx.Args) == 3 {
		cond, th, el := nx.Args[0], strip(nx.Args[1]), strip(nx.Args[2])
		if cond.Op == "bin" && (cond.Sym == "==" || cond.Sym == "!=") && len(cond.Args) == 2 {
			var v *Term
			switch {
			case cond.Args[0].IsConst() && cond.Args[0].Sym == "0":
				v = strip(cond.Args[1])
			case cond.Args[1].IsConst() && cond.Args[1].Sym == "0":
				v = strip(cond.Args[0])
			}
			if cond.Sym == "!=" {
				th, el = el, th
			}
			if v != nil && isField(v) && th.IsConst() && th.Sym == def && isField(el) {
				return true, ""
			}
		}
		return false, nx.String()
	}
	// in-place form
	hasD, hasF := false, false
	for _, a := range strip(nx).Alts() {
		a = strip(a)
		switch {
		case a.IsConst() && a.Sym == def:
			hasD = true
		case a.String() == fieldT:
			hasF = true
		case a.Op == "cycle":
		default:
			return false, nx.String()
		}
	}
	if !hasD || !hasF {
		return false, nx.String()
	}
	okStore, n := true, 0
	EachInstr(uf, func(in ssa.Instruction) {
		st, isSt := in.(*ssa.Store)
		if !isSt {
			return
		}
		if fa, isFA := st.Addr.(*ssa.FieldAddr); isFA && fieldName(fa.X.Type(), fa.Field) == fieldName_ {
			n++
			k, isK := constInt(st.Val)
			guarded := false
			for _, at := range atomsOf(CondsAt(st.Block())) {
				if kk, isKK := constInt(at.Y); isKK && kk.Sign() == 0 && at.Op.String() == "==" && isField(strip(tb.Of(at.X))) {
					guarded = true
				}
			}
			if !isK || k.String() != def || !guarded {
				okStore = false
			}
		}
	})
	if n == 0 || !okStore {
		return false, nx.String() + " (default store not guarded by " + fieldName_ + " == 0)"
	}
	return true, ""
}
