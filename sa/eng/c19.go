package eng

import (
	"fmt"
	"go/token"
	"go/types"
	"math/big"
	"strings"

	"golang.org/x/tools/go/ssa"
)

func runC19(c *Check, w *World) {
	if w.SPkgs[ApiPath] == nil {
		c.Fatal("package %s not loaded", ApiPath)
		return
	}
	tb := NewTB(w)
	ef := NewEffects(tb)
	iv := newIVWithTables(w, tb, ef)
	routes, rf := routeTable(w, tb)
	if rf == nil {
		c.Fatal("anchor not found: api.routers")
		return
	}
	// ---- R19.2 recovery wraps routing -----------------------------------------------------------------
	// the server constructor: the service function that fills in the Handler of a fasthttp.Server
	var ns *ssa.Function
	for _, f := range w.ModuleFuncs(ApiPath) {
		f := f
		EachInstr(f, func(in ssa.Instruction) {
			if st, ok := in.(*ssa.Store); ok {
				if fa, ok := st.Addr.(*ssa.FieldAddr); ok && strings.HasSuffix(fa.X.Type().String(), "fasthttp.Server") && fieldName(fa.X.Type(), fa.Field) == "Handler" && ns == nil {
					ns = f
				}
			}
		})
	}
	if ns == nil {
		c.Fatal("anchor not found: no function of the service builds a fasthttp.Server with a Handler")
		return
	}
	var handlerStore, srvStores = (*ssa.Store)(nil), map[string]*ssa.Store{}
	EachInstr(ns, func(in ssa.Instruction) {
		st, ok := in.(*ssa.Store)
		if !ok {
			return
		}
		if fa, ok := st.Addr.(*ssa.FieldAddr); ok && strings.HasSuffix(fa.X.Type().String(), "fasthttp.Server") {
			n := fieldName(fa.X.Type(), fa.Field)
			srvStores[n] = st
			if n == "Handler" {
				handlerStore = st
			}
		}
	})
	nsfn := FuncName(ns)
	var chainFn, recFn *ssa.Function
	if handlerStore == nil {
		c.Bad("R19.2", nsfn, "server-handler", "the server literal has no Handler", w.Pos(ns.Pos()))
	} else {
		ht := tb.Of(handlerStore.Val)
		okWrap, okRoute := false, false
		var mws []string
		if ht.Op == "calldyn" && len(ht.Args) == 2 && ht.Args[0].Op == "call" && len(ht.Args[0].Args) == 1 {
			chainFn = apiFuncNamed(w, ht.Args[0].Sym)
			okRoute = ht.Args[1].Op == "fn" && ht.Args[1].Sym == FuncName(rf)
			for _, e := range varargsElems(tb, ht.Args[0].Args[0]) {
				mws = append(mws, e.Op+":"+e.Sym)
				if e.Op != "fn" {
					continue
				}
				// the recovering middleware is the one that defers a recover()
				if f := apiFuncNamed(w, e.Sym); f != nil && chainFn != nil {
					if d, r, _, _ := recoveryShape(w, f); d && r && recFn == nil {
						recFn = f
						okWrap = true
					}
				}
			}
		}
		c.Decide(okWrap, "R19.2", nsfn, "recovery-in-chain", fmt.Sprintf("the served handler is Chain(%s)(routers): panics in any handler are recovered", strings.Join(mws, ", ")), "the Recovery middleware is not in the chain wrapping the router ("+clip(ht.String(), 200)+"): a panicking handler kills the connection without a response", w.InstrPos(handlerStore))
		c.Decide(okRoute, "R19.2", nsfn, "router-served", "the chain ends in the router", "the chain does not end in the router: "+clip(ht.String(), 200), w.InstrPos(handlerStore))
	}
	// Chain applies every middleware it is given
	if ch := chainFn; ch != nil {
		okChain := false
		for _, f := range w.ModuleFuncs(ApiPath) {
			if f.Parent() != ch {
				continue
			}
			EachInstr(f, func(in ssa.Instruction) {
				if cl, ok := in.(*ssa.Call); ok && cl.Call.StaticCallee() == nil && !cl.Call.IsInvoke() {
					t := tb.Of(cl)
					if t.Op == "calldyn" && t.Args[0].Op == "index" && InLoop(cl.Block()) {
						okChain = true
					}
				}
			})
		}
		if !okChain {
			// range-over-func form: for _, mw := range slices.Backward(list) { final = mw(final) } — the loop body is a
			// yield closure whose parameter is called, and the iterator is one of the slices package over Chain's list
			calledParam, overList := false, false
			var nested []*ssa.Function
			var collect func(f *ssa.Function)
			collect = func(f *ssa.Function) {
				for _, a := range f.AnonFuncs {
					nested = append(nested, a)
					collect(a)
				}
			}
			collect(ch)
			for _, f := range nested {
				f := f
				EachInstr(f, func(in ssa.Instruction) {
					cl, ok := in.(*ssa.Call)
					if !ok {
						return
					}
					if p, isP := cl.Call.Value.(*ssa.Parameter); isP && p.Parent() == f && !cl.Call.IsInvoke() {
						if _, isSig := p.Type().Underlying().(*types.Signature); isSig {
							calledParam = true
						}
					}
					n := CalleeName(cl.Common())
					if strings.HasPrefix(n, "slices.Backward") || strings.HasPrefix(n, "slices.All") || strings.HasPrefix(n, "slices.Values") {
						// the list: Chain's only slice of middlewares (its variadic parameter, captured)
						if len(cl.Call.Args) == 1 && len(ch.Params) == 1 && types.Identical(cl.Call.Args[0].Type(), ch.Params[0].Type()) {
							overList = true
						}
					}
				})
			}
			okChain = calledParam && overList
		}
		c.Decide(okChain, "R19.2", FuncName(ch), "chain-applies-all", "Chain wraps the final handler with each middleware of its list in a loop", "Chain does not apply the middlewares of its list", w.Pos(ch.Pos()))
	} else {
		c.Unk("R19.2", nsfn, "chain-applies-all", "the served handler is not built by a middleware chain of the service", w.Pos(ns.Pos()))
	}
	// Recovery: deferred recover() that answers 5xx, then next(ctx)
	if rec := recFn; rec != nil {
		okDefer, okRecover, okStatus, okNext := recoveryShape(w, rec)
		c.Decide(okDefer && okRecover && okStatus && okNext, "R19.2", FuncName(rec), "recovery-shape", "Recovery defers recover(), answers a recovered panic with a 5xx status, then runs the next handler", fmt.Sprintf("Recovery does not have the shape defer{recover → 5xx}; next(ctx) (defer=%v recover=%v 5xx=%v next=%v)", okDefer, okRecover, okStatus, okNext), w.Pos(rec.Pos()))
	} else {
		c.Bad("R19.2", nsfn, "recovery-shape", "no middleware of the served chain defers a recover(): a panicking handler kills the connection without a response", w.Pos(ns.Pos()))
	}
	ruleChainTransparent(c, w, tb, "R19.2")
	// ---- R19.3 limits -------------------------------------------------------------------------------------
	for _, n := range []string{"ReadTimeout", "WriteTimeout", "MaxRequestBodySize"} {
		st := srvStores[n]
		ok := false
		val := "unset"
		if st != nil {
			if k, isK := constInt(st.Val); isK {
				val = k.String()
				ok = k.Sign() > 0
			} else {
				val = tb.Of(st.Val).String()
			}
		}
		c.Decide(ok, "R19.3", nsfn, "limit:"+n, n+" is the positive constant "+val, n+" is "+val+": without this limit a slow or huge request occupies a worker indefinitely", w.Pos(ns.Pos()))
	}
	// ---- R19.4 statuses ---------------------------------------------------------------------------------------
	// the error writer: the named service function taking (ctx, status, …) that the handlers call most
	var we *ssa.Function
	{
		calls := map[*ssa.Function]int{}
		for _, f := range w.ModuleFuncs(ApiPath) {
			EachInstr(f, func(in ssa.Instruction) {
				ci, ok := in.(ssa.CallInstruction)
				if !ok {
					return
				}
				g := ci.Common().StaticCallee()
				if g == nil || fnPkgPath(g) != ApiPath || g.Parent() != nil || g.Signature.Recv() != nil || len(g.Params) < 2 {
					return
				}
				if !strings.HasSuffix(g.Params[0].Type().String(), "fasthttp.RequestCtx") {
					return
				}
				if bt, isB := g.Params[1].Type().Underlying().(*types.Basic); !isB || bt.Kind() != types.Int {
					return
				}
				calls[g]++
			})
		}
		var cands []*ssa.Function
		for g := range calls {
			cands = append(cands, g)
		}
		sortFuncs(cands)
		for _, g := range cands {
			if we == nil || calls[g] > calls[we] {
				we = g
			}
		}
	}
	if we == nil {
		c.Fatal("anchor not found: no service function taking (ctx, status, …) is called by the handlers (the error writer)")
		return
	}
	okWE := false
	EachInstr(we, func(in ssa.Instruction) {
		if cl, ok := in.(*ssa.Call); ok && strings.HasSuffix(CalleeName(cl.Common()), "RequestCtx).SetStatusCode") {
			if p, isP := cl.Call.Args[1].(*ssa.Parameter); isP && p.Parent() == we {
				okWE = true
			}
		}
	})
	c.Decide(okWE, "R19.4", FuncName(we), "sets-status", "writeError sets the status code it is given", "writeError does not set the given status code", w.Pos(we.Pos()))
	nErr, nOK := 0, 0
	doneFn := map[*ssa.Function]bool{}
	// a handler and the service-layer helpers it calls (writeJSON …) are one unit: the exit rules hold in each
	// function of the unit, the 200 may be set in any of them
	unitOf := func(h *ssa.Function) []*ssa.Function {
		seen := map[*ssa.Function]bool{h: true}
		out := []*ssa.Function{h}
		for i := 0; i < len(out) && i < 32; i++ {
			EachInstr(out[i], func(in ssa.Instruction) {
				if ci, ok := in.(ssa.CallInstruction); ok {
					if g := ci.Common().StaticCallee(); g != nil && g != we && g.Blocks != nil && fnPkgPath(g) == ApiPath && !seen[g] {
						seen[g] = true
						out = append(out, g)
					}
				}
			})
		}
		return out
	}
	for _, r := range routes {
		if r.handler == nil {
			continue
		}
		unit := unitOf(r.handler)
		set200 := false
		for _, h := range unit {
			EachInstr(h, func(in ssa.Instruction) {
				if cl, ok := in.(*ssa.Call); ok && strings.HasSuffix(CalleeName(cl.Common()), "RequestCtx).SetStatusCode") {
					if k, isK := constInt(cl.Call.Args[1]); isK && k.Int64() == 200 {
						set200 = true
					}
				}
			})
		}
		c.Decide(set200, "R19.4", FuncName(r.handler), "success-status", "the success path sets 200", "the success path sets no 200 status", w.Pos(r.handler.Pos()))
		for _, h := range unit {
			if doneFn[h] {
				continue
			}
			doneFn[h] = true
			hfn := FuncName(h)
			// every writeError has a constant status >= 400 and is followed by return
			EachInstr(h, func(in ssa.Instruction) {
				cl, ok := in.(*ssa.Call)
				if !ok {
					return
				}
				if cl.Call.StaticCallee() == we {
					nErr++
					k, isK := constInt(cl.Call.Args[1])
					okS := isK && k.Int64() >= 400 && k.Int64() < 600
					_, ret := cl.Block().Instrs[len(cl.Block().Instrs)-1].(*ssa.Return)
					c.Decide(okS && ret, "R19.4", hfn, fmt.Sprintf("error-exit@%s", statusOf(k)), "an error exit answers with a constant 4xx/5xx status and returns", "an error exit does not set a constant 4xx/5xx status and return at once", w.InstrPos(in))
				}
				if strings.HasSuffix(CalleeName(cl.Common()), "RequestCtx).SetStatusCode") {
					if k, isK := constInt(cl.Call.Args[1]); isK && k.Int64() == 200 {
						nOK++
					}
				}
			})
			// every tested error leads to writeError
			for _, b := range h.Blocks {
				iff, ok := b.Instrs[len(b.Instrs)-1].(*ssa.If)
				if !ok {
					continue
				}
				bo, ok := iff.Cond.(*ssa.BinOp)
				if !ok || !(isNilConst(bo.Y) || isNilConst(bo.X)) || !(bo.Op == token.NEQ || bo.Op == token.EQL) {
					continue
				}
				v := bo.X
				if isNilConst(bo.X) {
					v = bo.Y
				}
				if !isErrorType(v.Type()) {
					continue
				}
				eb := b.Succs[0]
				if bo.Op == token.EQL {
					eb = b.Succs[1]
				}
				has := false
				for _, in := range eb.Instrs {
					if cl, ok := in.(*ssa.Call); ok && cl.Call.StaticCallee() == we {
						has = true
					}
				}
				// a service-layer helper that itself returns an error hands the failure to its caller, who answers
				if res := h.Signature.Results(); !has && res.Len() > 0 && isErrorType(res.At(res.Len()-1).Type()) {
					if _, isRet := eb.Instrs[len(eb.Instrs)-1].(*ssa.Return); isRet {
						has = true
					}
				}
				c.Decide(has, "R19.4", hfn, "error-branch:"+clip(shortVal(v), 60), "the error branch answers through writeError", "an error is detected but its branch does not answer with an error status", w.InstrPos(iff))
			}
		}
	}
	// the request body is decoded as a whole: json.Unmarshal(ctx.PostBody(), …) rejects trailing data, a second
	// value, an unbalanced bracket; a stream decoder (json.NewDecoder(...).Decode) stops after the first value and
	// answers 200 to a syntactically broken body
	nBody := 0
	for _, f := range w.ModuleFuncs(ApiPath) {
		EachInstr(f, func(in ssa.Instruction) {
			cl, ok := in.(*ssa.Call)
			if !ok || !strings.HasSuffix(CalleeName(cl.Common()), "RequestCtx).PostBody") {
				return
			}
			nBody++
			okUse := true
			var other string
			if refs := cl.Referrers(); refs != nil {
				for _, r := range *refs {
					switch x := r.(type) {
					case *ssa.DebugRef:
					case ssa.CallInstruction:
						if n := CalleeName(x.Common()); !(n == "encoding/json.Unmarshal" && len(x.Common().Args) == 2 && x.Common().Args[0] == ssa.Value(cl)) {
							okUse, other = false, n
						}
					default:
						okUse, other = false, fmt.Sprintf("%T", r)
					}
				}
			}
			c.Decide(okUse, "R19.4", FuncName(f), "body-decoded-whole", "the request body goes to json.Unmarshal as a whole", "the request body is handed to "+other+" instead of json.Unmarshal: a body that is not one complete JSON value can be accepted", w.InstrPos(in))
		})
	}
	if nBody == 0 {
		c.Unk("R19.4", "api", "body-decoded-whole", "no handler reads the request body", "")
	}
	// router default 404
	def404 := false
	EachInstr(rf, func(in ssa.Instruction) {
		if cl, ok := in.(*ssa.Call); ok && strings.HasSuffix(CalleeName(cl.Common()), "RequestCtx).SetStatusCode") {
			if k, isK := constInt(cl.Call.Args[1]); isK && k.Int64() == 404 {
				def404 = true
			}
		}
	})
	c.Decide(def404, "R19.4", FuncName(rf), "default-404", "unknown paths are answered with 404", "unknown paths get no 404", w.Pos(rf.Pos()))
	c.Count("error_exits", nErr)

	// ---- R19.1 no unbounded work in a request parameter ------------------------------------------------------
	x := &c10ctx{c: c, w: w, tb: tb, iv: iv, ef: ef, scope: map[*ssa.Function]bool{}, costRule: true}
	var roots []*ssa.Function
	for _, r := range routes {
		if r.handler != nil {
			roots = append(roots, r.handler)
		}
	}
	roots = append(roots, rf)
	for f := range w.Reachable(roots...) {
		if f.Blocks != nil && w.InModule(f) {
			x.scope[f] = true
		}
	}
	exported := map[*ssa.Function]bool{}
	for _, f := range w.ExportedAPI() {
		exported[f] = true // request fields reach the exported API unconstrained
	}
	for f := range x.scope {
		if fnPkgPath(f) == ApiPath {
			exported[f] = true
		}
	}
	if f := w.Func(OtpPath, "LeftPadHex"); f != nil && len(f.Params) == 2 {
		iv.Assume[tb.Of(f.Params[1]).String()] = Itv{bi(0), bi(1 << 20)}
	}
	x.assumeSuiteContract()
	x.liftPreconditions(exported)
	var fns []*ssa.Function
	for f := range x.scope {
		fns = append(fns, f)
	}
	sortFuncs(fns)
	for _, f := range fns {
		x.checkLoops(f, "R19.1")
	}
	ruleNoFormatRecursion(c, w, "R19.1", append(append([]*ssa.Function(nil), w.ModuleFuncs(OtpPath)...), w.ModuleFuncs(ApiPath)...))
	// code that runs outside the recovering middleware — the handlers of the middlewares listed before it — has
	// nobody to catch a panic (fasthttp does not recover): every index and slice expression there is in bounds
	if handlerStore != nil && recFn != nil {
		ht := tb.Of(handlerStore.Val)
		if ht.Op == "calldyn" && len(ht.Args) == 2 && ht.Args[0].Op == "call" && len(ht.Args[0].Args) == 1 {
			nOut := 0
			for _, e := range varargsElems(tb, ht.Args[0].Args[0]) {
				mw, _ := e.Val.(*ssa.Function)
				if e.Op != "fn" || mw == nil {
					continue
				}
				if mw == recFn {
					break
				}
				var inner []*ssa.Function
				var collect func(f *ssa.Function)
				collect = func(f *ssa.Function) {
					for _, a := range f.AnonFuncs {
						inner = append(inner, a)
						collect(a)
					}
				}
				collect(mw)
				for _, f := range inner {
					f := f
					nOut++
					sites := 0
					EachInstr(f, func(in ssa.Instruction) {
						switch y := in.(type) {
						case *ssa.IndexAddr:
							if y.Pos().IsValid() {
								sites++
								x.checkIndexSite(f, in, y.X, y.Index, "R19.2")
							}
						case *ssa.Index:
							if y.Pos().IsValid() {
								sites++
								x.checkIndexSite(f, in, y.X, y.Index, "R19.2")
							}
						case *ssa.Slice:
							if y.Pos().IsValid() {
								sites++
								x.checkSliceSite(f, y, "R19.2")
							}
						case *ssa.TypeAssert:
							if !y.CommaOk {
								sites++
								c.Unk("R19.2", FuncName(f), "outside-recovery:type-assertion", "a type assertion without ok outside the recovering middleware can panic with nobody to catch it", w.InstrPos(in))
							}
						}
					})
					c.OK("R19.2", FuncName(f), "outside-recovery", fmt.Sprintf("handler of a middleware outside the recovering one: %d index/slice/assertion site(s) examined", sites), w.Pos(f.Pos()))
				}
			}
			_ = nOut
		}
	}
	// the panic-recovery helper walks a fixed 32-entry stack buffer: its loop ends on Frames.Next's "more" flag
	var cs *ssa.Function
	for _, f := range w.ModuleFuncs(ApiPath) {
		f := f
		EachInstr(f, func(in ssa.Instruction) {
			if cl, ok := in.(*ssa.Call); ok && CalleeName(cl.Common()) == "runtime.Callers" && cs == nil {
				cs = f
			}
		})
	}
	if cs != nil {
		fixed := false
		EachInstr(cs, func(in ssa.Instruction) {
			if a, ok := in.(*ssa.Alloc); ok && strings.HasPrefix(a.Type().String(), "*[") && strings.HasSuffix(a.Type().String(), "]uintptr") {
				fixed = true
			}
		})
		c.Decide(fixed, "R19.1", FuncName(cs), "stack-walk-bounded", "the stack trace is collected into a fixed-size array", "the stack trace buffer is not of fixed size", w.Pos(cs.Pos()))
	}
	// explicit: window sizes forwarded from the request are gated by the library
	for _, name := range []string{"ValidateHOTP", "ValidateTOTP"} {
		f := w.Func(OtpPath, name)
		if f == nil {
			continue
		}
		// the window analysis of C03/C04 is run into a scratch sink: only the gate matters here
		sink := NewCheck(c.Property, c.Tier)
		sink.SetConfig(w.Cfg.Name)
		wr := analyseWindow(sink, w, tb, iv, "R19.1", f, isStepValidator(w), "", name == "ValidateHOTP")
		if wr == nil || wr.sizeItv.Hi == nil && wr.sizeItv.Lo == nil {
			why := "the window loop of " + name + " was not found"
			for _, o := range sink.Obls {
				if o.st != Discharged {
					why = o.Reason
					break
				}
			}
			c.Unk("R19.1", FuncName(f), "window-bounded", "the client-chosen window cannot be bounded: "+why, w.Pos(f.Pos()))
			continue
		}
		it := wr.sizeItv
		c.Decide(it.Hi != nil && it.Hi.Cmp(big.NewInt(10)) <= 0, "R19.1", FuncName(f), "window-bounded", "the client-chosen window is at most 10 at the loop", "the client-chosen window can be "+it.String()+" at the loop: one request occupies a worker for an unbounded time", wr.firstPos)
	}
	// ---- R19.5 request goroutines share no writable state --------------------------------------------------------
	// every request runs on its own goroutine: a package-level variable (map, default parameter set, cache) written
	// on the request path is an unsynchronised concurrent write — for maps a fatal runtime error no Recovery catches
	var reqFns []*ssa.Function
	for f := range x.scope {
		reqFns = append(reqFns, f)
	}
	sortFuncs(reqFns)
	ruleNoPkgState(c, w, tb, ef, "R19.5", reqFns)
	c.Count("request_path_functions", len(reqFns))
	// ---- R19.6 an answer does not depend on earlier requests: per-request decode targets, no pooled request objects
	ruleRESTStateless(c, w, tb, ef, "R19.6", true)
	c.Floor("R19.1", 5) // two windows, the stack walk, and loops (whose number a refactoring may legitimately reduce)
	c.Require("R19.1", "window-bounded", 2)
	c.Require("R19.1", "stack-walk-bounded", 1)
	c.Floor("R19.2", 4)
	c.Floor("R19.5", 30)
	c.Floor("R19.3", 3)
	c.Floor("R19.4", 40)
}

func statusOf(k *big.Int) string {
	if k == nil {
		return "?"
	}
	return k.String()
}

func init() {
	register(&propDef{
		id:    "C19",
		level: "other",
		explain: "R19.1 every loop of every function reachable from the router and its handlers (service layer and library) is a counted loop with a bound ≤ 2^24 derived from constants, dominating gates or container lengths — request fields reach the exported library functions unconstrained — or a range / constant-growth loop; in particular the client-chosen HOTP/TOTP windows are ≤ 10 at their loops; " +
			"R19.2 the server's Handler is Chain(..., Recovery, ...)(routers), Chain applies every middleware of its list, and Recovery has the shape defer{recover() → 5xx status}; next(ctx); R19.3 ReadTimeout, WriteTimeout and MaxRequestBodySize are positive constants; " +
			"R19.6 the service layer keeps no request state (requests decoded into per-request locals, no pooled request objects, no package variable written, no locks), so a well-formed request is answered the same after any history; R19.5 no function on the request path (handlers, service layer, library) writes a package-level variable: request goroutines share no writable state (a concurrent map write is a fatal error that Recovery cannot catch); R19.4 every error test in every handler leads to writeError with a constant 4xx/5xx status followed by return, writeError sets the status it is given, success paths set 200, unknown paths 404. " +
			"The loop inside the panic-recovery stack walk (runtime.Frames.Next over a fixed 32-entry buffer) is whitelisted by the callee it polls. A string carried round a loop over request data and rebuilt by concatenation with itself or a slice of itself (quadratic work) is reported. The router, server constructor, middleware chain, recovering middleware, error writer and stack-walk helper are identified by what they do, not by name. Not decided: actual latency, other cost classes beyond loop bounds, fasthttp internals, OS limits. " +
			"R19.2 every middleware of the served chain is transparent (its handler calls next itself, with its ctx, on every path to a normal return, and uses it for nothing else), and in the handlers of the middlewares listed before the recovering one every index and slice expression is proved in bounds (a panic there has nobody to catch it).",
		trusted:  []string{"fasthttp enforces ReadTimeout/WriteTimeout/MaxRequestBodySize", "runtime.Frames.Next terminates over a fixed-size pc buffer"},
		quick:    []Config{CfgNative},
		thorough: []Config{CfgNative, Cfg386},
		run:      runC19,
	})
}

// apiFuncNamed: the service-package function with this FuncName.
func apiFuncNamed(w *World, name string) *ssa.Function {
	for _, f := range w.ModuleFuncs(ApiPath) {
		if FuncName(f) == name || f.String() == name {
			return f
		}
	}
	return nil
}

// recoveryShape: does the middleware rec have the shape  defer{ recover() → 5xx under r != nil }; next(ctx) ?
func recoveryShape(w *World, rec *ssa.Function) (okDefer, okRecover, okStatus, okNext bool) {
	for _, f := range w.ModuleFuncs(ApiPath) {
		if f.Parent() != rec {
			continue
		}
		EachInstr(f, func(in ssa.Instruction) {
			switch x := in.(type) {
			case *ssa.Defer:
				var df *ssa.Function
				switch v := x.Call.Value.(type) {
				case *ssa.MakeClosure:
					df = v.Fn.(*ssa.Function)
				case *ssa.Function:
					df = v
				}
				if df == nil {
					return
				}
				okDefer = true
				EachInstr(df, func(in2 ssa.Instruction) {
					if cl, ok := in2.(*ssa.Call); ok {
						n := CalleeName(cl.Common())
						if n == "builtin.recover" {
							okRecover = true
						}
						if strings.HasSuffix(n, "RequestCtx).SetStatusCode") {
							if k, ok := constInt(cl.Call.Args[1]); ok && k.Int64() >= 500 && k.Int64() < 600 {
								// only under r != nil
								for _, at := range atomsOf(CondsAt(cl.Block())) {
									if at.Op == token.NEQ && isNilConst(at.Y) {
										okStatus = true
									}
								}
							}
						}
					}
				})
			case *ssa.Call:
				if x.Call.StaticCallee() == nil && !x.Call.IsInvoke() && okDefer {
					okNext = true
				}
			}
		})
	}
	return
}

// ruleChainTransparent (R19.2 / R18.1): every middleware of the served chain is transparent — the handler it
// returns calls the next handler itself (same goroutine, so a panic below is still under the chain's recover), with
// its own ctx, on every path (it refuses no request on its own), and does nothing else with it. A middleware that
// hands `next` to another function (fasthttp.TimeoutWithCodeHandler runs it on a new goroutine, outside Recovery) or
// answers some requests itself (a Content-Type filter) changes which requests reach the handlers and what happens
// when one panics.
func ruleChainTransparent(c *Check, w *World, tb *TB, rule string) {
	var store *ssa.Store
	var ns *ssa.Function
	for _, f := range w.ModuleFuncs(ApiPath) {
		f := f
		EachInstr(f, func(in ssa.Instruction) {
			if st, ok := in.(*ssa.Store); ok && store == nil {
				if fa, ok := st.Addr.(*ssa.FieldAddr); ok && strings.HasSuffix(fa.X.Type().String(), "fasthttp.Server") && fieldName(fa.X.Type(), fa.Field) == "Handler" {
					store, ns = st, f
				}
			}
		})
	}
	if store == nil {
		c.Unk(rule, "api", "middleware-chain", "no function of the service builds a fasthttp.Server with a Handler", "")
		return
	}
	ht := tb.Of(store.Val)
	if !(ht.Op == "calldyn" && len(ht.Args) == 2 && ht.Args[0].Op == "call" && len(ht.Args[0].Args) == 1) {
		if ht.Op == "fn" {
			return // the router is served directly: no middleware to judge (the recovery rule reports its absence)
		}
		c.Unk(rule, FuncName(ns), "middleware-chain", "the served handler is not a middleware list applied to the router: "+clip(ht.String(), 160), w.InstrPos(store))
		return
	}
	for i, e := range varargsElems(tb, ht.Args[0].Args[0]) {
		construct := fmt.Sprintf("middleware#%d", i)
		// the middleware function: named directly, or returned by a configuring constructor (Timeout(5*time.Second))
		var mw *ssa.Function
		switch {
		case e.Op == "fn":
			mw, _ = e.Val.(*ssa.Function)
		case e.Op == "closure":
			if mc, ok := e.Val.(*ssa.MakeClosure); ok {
				mw, _ = mc.Fn.(*ssa.Function)
			}
		case e.Op == "call":
			if cl, ok := e.Val.(*ssa.Call); ok {
				if g := cl.Call.StaticCallee(); g != nil && w.InModule(g) {
					for _, r := range tb.Results(g, nil, nil, 0) {
						for _, a := range r.Alts() {
							switch v := a.Val.(type) {
							case *ssa.MakeClosure:
								mw, _ = v.Fn.(*ssa.Function)
							case *ssa.Function:
								mw = v
							}
						}
					}
				}
			}
		}
		if mw == nil || len(mw.Params) != 1 {
			c.Unk(rule, FuncName(ns), construct, "element of the middleware list is not a function of the next handler: "+clip(e.String(), 120), w.InstrPos(store))
			continue
		}
		next := mw.Params[0]
		why := ""
		var inner *ssa.Function
		var cell *ssa.Alloc // a captured parameter lives in a heap cell the closure binds
		noteUse := func(r ssa.Instruction, isCellUser bool) {
			switch x := r.(type) {
			case *ssa.MakeClosure:
				fn := x.Fn.(*ssa.Function)
				if inner != nil && inner != fn {
					why = "the next handler is captured by several closures"
				}
				inner = fn
			case *ssa.DebugRef:
			case *ssa.Store:
				if al, ok := x.Addr.(*ssa.Alloc); ok && x.Val == ssa.Value(next) && !isCellUser && cell == nil {
					cell = al
				} else if !(isCellUser && x.Addr == ssa.Value(cell) && x.Val == ssa.Value(next)) {
					why = "the next handler is stored"
				}
			case ssa.CallInstruction:
				why = "the next handler is handed to " + CalleeName(x.Common()) + ": whether it runs on the request's goroutine, under the chain's recover, is not this code's decision"
			default:
				why = "the next handler is used other than by calling it"
			}
		}
		if refs := next.Referrers(); refs != nil {
			for _, r := range *refs {
				noteUse(r, false)
			}
		}
		if cell != nil && cell.Referrers() != nil {
			for _, r := range *cell.Referrers() {
				if ld, ok := r.(*ssa.UnOp); ok && ld.Op == token.MUL {
					// a load of the cell in the middleware itself: what is loaded is next again
					if ld.Referrers() != nil {
						for _, r2 := range *ld.Referrers() {
							noteUse(r2, true)
						}
					}
					continue
				}
				noteUse(r, true)
			}
		}
		if why == "" && inner == nil {
			why = "the middleware does not build a handler around the next one"
		}
		if why == "" {
			// inside the returned handler: the captured next is called directly, with the handler's ctx, and its
			// call dominates every return
			var fv *ssa.FreeVar
			for _, b := range inner.FreeVars {
				if b.Name() == next.Name() {
					fv = b
				}
			}
			isNext := func(v ssa.Value) bool {
				if fv == nil {
					return false
				}
				if v == ssa.Value(fv) {
					return true
				}
				if ld, ok := v.(*ssa.UnOp); ok && ld.Op == token.MUL && ld.X == ssa.Value(fv) {
					return true
				}
				return false
			}
			var calls []*ssa.Call
			EachInstr(inner, func(in ssa.Instruction) {
				switch x := in.(type) {
				case *ssa.Call:
					if isNext(x.Call.Value) {
						if len(x.Call.Args) == 1 && len(inner.Params) == 1 && isParamOrItsCell(x.Call.Args[0], inner.Params[0]) {
							calls = append(calls, x)
						} else {
							why = "the next handler is called with something other than the request's ctx"
						}
					}
					for _, a := range x.Call.Args {
						if isNext(a) {
							why = "the next handler is handed to " + CalleeName(x.Common())
						}
					}
				case *ssa.Go:
					if isNext(x.Call.Value) {
						why = "the next handler is started on a new goroutine: a panic below is outside the chain's recover"
					}
					for _, a := range x.Call.Args {
						if isNext(a) {
							why = "the next handler is handed to a new goroutine"
						}
					}
				case *ssa.Defer:
					if isNext(x.Call.Value) {
						why = "the next handler is deferred"
					}
				case *ssa.MakeClosure:
					for _, bnd := range x.Bindings {
						if isNext(bnd) {
							why = "the next handler is captured by a nested closure (it may run on another goroutine or later)"
						}
					}
				case *ssa.Store:
					if isNext(x.Val) {
						why = "the next handler is stored"
					}
				}
			})
			if why == "" {
				switch {
				case len(calls) == 0:
					why = "the returned handler never calls the next handler"
				default:
					for _, r := range Returns(inner) {
						if inner.Recover != nil && r.Block() == inner.Recover {
							continue // the exit taken after a recovered panic
						}
						covered := false
						for _, cl := range calls {
							if dominatesInstr(cl, r) {
								covered = true
							}
						}
						if !covered {
							why = "the returned handler answers some requests without calling the next handler"
						}
					}
				}
			}
		}
		c.Decide(why == "", rule, FuncName(mw), construct, "the middleware's handler calls the next handler itself, with its ctx, on every path", why, w.Pos(mw.Pos()))
	}
}

// isParamOrItsCell: v is the parameter p, or a load from the cell p was spilled into because a closure captures
// it (the cell is stored to exactly once, with p).
func isParamOrItsCell(v ssa.Value, p *ssa.Parameter) bool {
	if v == ssa.Value(p) {
		return true
	}
	ld, ok := v.(*ssa.UnOp)
	if !ok || ld.Op != token.MUL {
		return false
	}
	al, ok := ld.X.(*ssa.Alloc)
	if !ok || al.Referrers() == nil {
		return false
	}
	stores := 0
	for _, r := range *al.Referrers() {
		if st, isSt := r.(*ssa.Store); isSt && st.Addr == ssa.Value(al) {
			stores++
			if st.Val != ssa.Value(p) {
				return false
			}
		}
	}
	return stores == 1
}
