package eng

import (
	"fmt"
	"go/ast"
	"go/constant"
	"go/token"
	"go/types"
	"math/big"
	"os/exec"
	"regexp"
	"sort"
	"strconv"
	"strings"

	"golang.org/x/tools/go/ssa"
)

// ---- the compiler's prove pass as first filter --------------------------------------------

var reBCE = regexp.MustCompile(`^\./([^:]+):(\d+):(\d+): Found (IsInBounds|IsSliceInBounds)`)

// compilerResidualBounds runs the Go compiler's bounds-check-elimination diagnostics (a static
// pass of the compiler; no code of /repo is executed) and returns the unproven sites "file:line:col".
func compilerResidualBounds(cfg Config) (map[string]string, error) {
	cmd := exec.Command("go", "build", "-gcflags="+OtpPath+"=-l -d=ssa/check_bce/debug=1", ".")
	cmd.Dir = RepoDir
	cmd.Env = cleanEnv(cfg.Env)
	out, err := cmd.CombinedOutput()
	res := map[string]string{}
	n := 0
	for _, line := range strings.Split(string(out), "\n") {
		if m := reBCE.FindStringSubmatch(line); m != nil {
			res[m[1]+":"+m[2]+":"+m[3]] = m[4]
			n++
		}
	}
	if err != nil && n == 0 {
		return nil, fmt.Errorf("compiler diagnostics failed: %v: %s", err, clip(string(out), 300))
	}
	return res, nil
}

// ---- length facts ------------------------------------------------------------------------------

var hashSizes = map[string]int64{"crypto/sha1.New": 20, "crypto/sha256.New": 32, "crypto/sha512.New": 64, "crypto/sha256.New224": 28, "crypto/sha512.New384": 48, "crypto/sha512.New512_224": 28, "crypto/sha512.New512_256": 32, "crypto/md5.New": 16}

type c10ctx struct {
	c        *Check
	w        *World
	tb       *TB
	iv       *IV
	ef       *Effects
	scope    map[*ssa.Function]bool
	exported map[*ssa.Function]bool
	sumLo    *big.Int
	sumHi    *big.Int
	// costRule: also flag loops bounded only by the length of their input that accumulate a string by
	// concatenation (work quadratic in a request field)
	costRule bool
}

// LenAt: bounds of len(x) at block b.
func (x *c10ctx) LenAt(v ssa.Value, b *ssa.BasicBlock) Itv {
	iv := x.iv
	lo, hi := iv.lenBounds(v, b, 0)
	r := Itv{bi(0), nil}
	if lo != nil {
		r.Lo = lo
	}
	if hi != nil {
		r.Hi = hi
	}
	t := x.tb.Of(v)
	ts := t.String()
	if a, ok := iv.Assume["len("+ts+")"]; ok {
		r = r.Meet(a)
	}
	// results of known callees
	switch {
	case t.Op == "invoke" && t.Sym == "(hash.Hash).Sum" && x.sumLo != nil:
		r = r.Meet(Itv{x.sumLo, x.sumHi})
	case t.Op == "call" && (t.Sym == "strings.Split" || t.Sym == "strings.SplitN"):
		r = r.Meet(Itv{bi(1), nil})
	}
	if b == nil {
		return r
	}
	for _, cd := range CondsAt(b) {
		// prefix facts
		if cl, ok := cd.V.(*ssa.Call); ok && cd.Pos {
			n := CalleeName(cl.Common())
			if (n == "strings.HasPrefix" || n == "strings.HasSuffix") && len(cl.Call.Args) == 2 {
				if k, ok := cl.Call.Args[1].(*ssa.Const); ok && k.Value != nil && k.Value.Kind() == constant.String {
					lit := constant.StringVal(k.Value)
					at := x.tb.Of(cl.Call.Args[0])
					ascii := true
					for i := 0; i < len(lit); i++ {
						if lit[i] >= 0x80 {
							ascii = false
						}
					}
					if at.String() == ts || (ascii && at.Op == "call" && (at.Sym == "strings.ToUpper" || at.Sym == "strings.ToLower") && at.Args[0].String() == ts) {
						// rune count is preserved by case mapping and every rune has at least one byte
						r = r.Meet(Itv{bi(int64(len(lit))), nil})
					}
				}
			}
		}
	}
	for _, at := range atomsOf(CondsAt(b)) {
		if x.tb.Of(at.X).String() == "len("+ts+")" {
			r = refine(r, at.Op, iv.with(at.Y, b, nil, 3))
		} else if x.tb.Of(at.Y).String() == "len("+ts+")" {
			r = refine(r, flipOp(at.Op), iv.with(at.X, b, nil, 3))
		}
	}
	return r
}

// guardHolds: a dominating condition "a OP b" (by term) holds at block.
func (x *c10ctx) guardHolds(b *ssa.BasicBlock, lhs string, op token.Token, rhs string) bool {
	for _, at := range atomsOf(CondsAt(b)) {
		l, r := x.tb.Of(at.X).String(), x.tb.Of(at.Y).String()
		if l == lhs && r == rhs && at.Op == op {
			return true
		}
		if l == rhs && r == lhs && flipOp(at.Op) == op {
			return true
		}
	}
	return false
}

func fitsIdx(ii, ln Itv) bool {
	return ii.Lo != nil && ii.Lo.Sign() >= 0 && ii.Hi != nil && ln.Lo != nil && ii.Hi.Cmp(ln.Lo) < 0
}

func (x *c10ctx) checkIndexSite(f *ssa.Function, in ssa.Instruction, coll, idx ssa.Value, rule string) {
	fn := FuncName(f)
	b := in.Block()
	ct := x.tb.Of(coll)
	construct := "index:" + clip(normT(ct), 60) + "[" + clip(normT(x.tb.Of(idx)), 60) + "]"
	if _, isMap := coll.Type().Underlying().(*types.Map); isMap {
		return
	}
	ii := x.iv.At(idx, b)
	ln := x.LenAt(coll, b)
	if fitsIdx(ii, ln) {
		x.c.OK(rule, fn, construct, fmt.Sprintf("index in %s, length at least %s", ii, ln.Lo), x.w.InstrPos(in))
		return
	}
	nonNeg := ii.Lo != nil && ii.Lo.Sign() >= 0
	// symbolic: idx <= base+c, len == base+d, c < d
	su, ls := x.iv.SymUpperAt(idx, b, 0), x.iv.LenSym(coll)
	if nonNeg && su.OK && ls.OK && su.Base == ls.Base && su.Off < ls.Off {
		x.c.OK(rule, fn, construct, fmt.Sprintf("0 <= index <= %s%+d < len = %s%+d", clip(su.Base, 40), su.Off, clip(ls.Base, 40), ls.Off), x.w.InstrPos(in))
		return
	}
	// relational: idx = len(coll) - k, len(coll) >= k
	it := x.tb.Of(idx)
	if it.Op == "bin" && it.Sym == "-" && it.Args[0].String() == "len("+ct.String()+")" && it.Args[1].IsConst() {
		if k, ok := new(big.Int).SetString(it.Args[1].Sym, 10); ok && k.Sign() >= 1 && ln.Lo != nil && ln.Lo.Cmp(k) >= 0 {
			x.c.OK(rule, fn, construct, fmt.Sprintf("index = len-%s with len >= %s", k, ln.Lo), x.w.InstrPos(in))
			return
		}
	}
	// relational precondition: coll is a slice parameter P, idx <= Q+off for an integer parameter Q, and every
	// call site of this (unexported, statically called) function passes len(argP) >= argQ+off+1
	if nonNeg && su.OK {
		if why, ok := x.relationalPre(f, coll, su); ok {
			x.c.OK(rule, fn, construct, why, x.w.InstrPos(in))
			return
		}
	}
	why := fmt.Sprintf("the index can be %s while the length is only known to be %s", ii, ln)
	x.c.Bad(rule, fn, construct, "possible index out of range: "+why, x.w.InstrPos(in))
}

// relationalPre proves idx < len(P) from the callers: idx <= Q+off (su) with P, Q parameters of f.
func (x *c10ctx) relationalPre(f *ssa.Function, coll ssa.Value, su SymBound) (string, bool) {
	P, isP := coll.(*ssa.Parameter)
	if !isP || x.exported[f] {
		return "", false
	}
	if _, isSl := P.Type().Underlying().(*types.Slice); !isSl {
		return "", false
	}
	pi, qi := -1, -1
	for i, p := range f.Params {
		if p == P {
			pi = i
		}
		if x.tb.Of(p).String() == su.Base {
			qi = i
		}
	}
	if pi < 0 || qi < 0 {
		return "", false
	}
	sites := x.w.CallSites(f)
	if len(sites) == 0 {
		return "", false
	}
	for _, s := range sites {
		if !x.w.InModule(s.Parent()) || s.Common().StaticCallee() != f {
			return "", false
		}
		args := s.Common().Args
		ap, aq := args[pi], args[qi]
		// symbolic: len(ap) == base+d, aq <= base+c, c+off < d
		ls, sq := x.iv.LenSym(ap), x.iv.SymUpper(aq, 0)
		if ls.OK && sq.OK && ls.Base == sq.Base && sq.Off+su.Off < ls.Off {
			continue
		}
		lt, qt := x.LenAt(ap, s.Block()), x.iv.At(aq, s.Block())
		if lt.Lo != nil && qt.Hi != nil && new(big.Int).Add(qt.Hi, big.NewInt(su.Off)).Cmp(lt.Lo) < 0 {
			continue
		}
		return "", false
	}
	return fmt.Sprintf("0 <= index <= %s%+d and every one of the %d call sites passes a slice longer than that", clip(su.Base, 40), su.Off, len(sites)), true
}

func (x *c10ctx) checkSliceSite(f *ssa.Function, s *ssa.Slice, rule string) {
	fn := FuncName(f)
	b := s.Block()
	ct := x.tb.Of(s.X)
	construct := "slice:" + clip(normT(ct), 60) + "[" + clip(normT(x.tb.optVal(s.Low, nil)), 40) + ":" + clip(normT(x.tb.optVal(s.High, nil)), 40) + "]"
	var ln Itv
	base := s.X
	if p, ok := s.X.Type().Underlying().(*types.Pointer); ok {
		if arr, ok := p.Elem().Underlying().(*types.Array); ok {
			ln = Itv{bi(arr.Len()), bi(arr.Len())}
		}
	}
	if ln.Lo == nil {
		ln = x.LenAt(base, b)
	}
	lenT := "len(" + ct.String() + ")"
	okBound := func(v ssa.Value, what string) (bool, string) {
		if v == nil {
			return true, ""
		}
		it := x.iv.At(v, b)
		if it.Lo != nil && it.Lo.Sign() >= 0 && it.Hi != nil && ln.Lo != nil && it.Hi.Cmp(ln.Lo) <= 0 {
			return true, ""
		}
		vt := x.tb.Of(v)
		nonNeg := it.Lo != nil && it.Lo.Sign() >= 0
		// guarded: len(x) >= v
		if nonNeg && (x.guardHolds(b, lenT, token.GEQ, vt.String()) || x.guardHolds(b, lenT, token.GTR, vt.String())) {
			return true, ""
		}
		// v = len(x) - w with 0 <= w <= len(x)
		if vt.Op == "bin" && vt.Sym == "-" && vt.Args[0].String() == lenT {
			wT := vt.Args[1]
			var wI Itv
			if bo, ok := v.(*ssa.BinOp); ok {
				wI = x.iv.At(bo.Y, b)
			}
			if wI.Lo != nil && wI.Lo.Sign() >= 0 && (x.guardHolds(b, lenT, token.GEQ, wT.String()) || (wI.Hi != nil && ln.Lo != nil && wI.Hi.Cmp(ln.Lo) <= 0)) {
				return true, ""
			}
		}
		return false, fmt.Sprintf("%s bound can be %s while the length is only known to be %s", what, it, ln)
	}
	okL, whyL := okBound(s.Low, "low")
	okH, whyH := okBound(s.High, "high")
	okLH := true
	if s.Low != nil && s.High != nil {
		l, h := x.iv.At(s.Low, b), x.iv.At(s.High, b)
		okLH = l.Hi != nil && h.Lo != nil && l.Hi.Cmp(h.Lo) <= 0
	}
	if okL && okH && okLH {
		x.c.OK(rule, fn, construct, "slice bounds within the operand ("+ln.String()+")", x.w.InstrPos(s))
		return
	}
	x.c.Bad(rule, fn, construct, "possible slice bounds out of range: "+whyL+whyH, x.w.InstrPos(s))
}

// assumeSuiteContract: Config() fields after Validate()==nil on the same receiver are within the
// ranges that the decision-table rule R14.2 (re-run here) proves for every in-module implementer.
func (x *c10ctx) assumeSuiteContract() {
	c, w, tb, iv := x.c, x.w, x.tb, x.iv
	ruleSuiteAdmission(c, w, tb)
	for f := range x.scope {
		EachInstr(f, func(in ssa.Instruction) {
			if cl, ok := in.(*ssa.Call); ok && cl.Call.IsInvoke() && cl.Call.Method.Name() == "Config" {
				recv := tb.Of(cl.Call.Value).String()
				gated := false
				for _, at := range atomsOf(CondsAt(cl.Block())) {
					t := tb.Of(at.X)
					if at.Op == token.EQL && isNilConst(at.Y) && t.Op == "invoke" && strings.HasSuffix(t.Sym, ".Validate") && t.Args[0].String() == recv {
						gated = true
					}
				}
				if gated {
					ct := tb.Of(cl).String()
					iv.Assume["field(Digits; "+ct+")"] = Itv{bi(4), bi(10)}
					iv.Assume["field(Hash; "+ct+")"] = Itv{bi(0), bi(2)}
				}
			}
		})
	}
}

// ---- preconditions of unexported functions (lifting) ---------------------------------------------

func (x *c10ctx) liftPreconditions(exported map[*ssa.Function]bool) {
	var fns []*ssa.Function
	for f := range x.scope {
		fns = append(fns, f)
	}
	sortFuncs(fns)
	for pass := 0; pass < 4; pass++ {
		for _, f := range fns {
			if exported[f] {
				continue
			}
			sites := x.w.CallSites(f)
			if len(sites) == 0 {
				continue
			}
			for i, p := range f.Params {
				key := x.tb.Of(p).String()
				var hull Itv
				var lhull Itv
				first := true
				isInt := false
				if _, ok, _ := intInfoOK(p.Type(), x.w); ok {
					isInt = true
				}
				hasLen := false
				switch p.Type().Underlying().(type) {
				case *types.Slice:
					hasLen = true
				case *types.Basic:
					hasLen = p.Type().Underlying().(*types.Basic).Kind() == types.String
				}
				if !isInt && !hasLen {
					continue
				}
				for _, s := range sites {
					if !x.w.InModule(s.Parent()) {
						continue
					}
					args := s.Common().Args
					if i >= len(args) {
						continue
					}
					var it, lt Itv
					if isInt {
						it = x.iv.At(args[i], s.Block())
					}
					if hasLen {
						lt = x.LenAt(args[i], s.Block())
					}
					if first {
						hull, lhull, first = it, lt, false
					} else {
						hull, lhull = hull.Hull(it), lhull.Hull(lt)
					}
				}
				if first {
					continue
				}
				if isInt {
					x.iv.Assume[key] = hull
				}
				if hasLen {
					x.iv.Assume["len("+key+")"] = lhull
				}
			}
		}
	}
}

// ---- nil-ness of pointers ----------------------------------------------------------------------

func (x *c10ctx) nonNilPtr(v ssa.Value, b *ssa.BasicBlock, conds []Cond, depth int) bool {
	if depth > 6 {
		return false
	}
	switch y := v.(type) {
	case *ssa.Alloc, *ssa.MakeClosure, *ssa.Function, *ssa.MakeSlice, *ssa.MakeMap, *ssa.FieldAddr, *ssa.IndexAddr, *ssa.Global:
		return true
	case *ssa.Phi:
		for i, e := range y.Edges {
			if !x.nonNilPtr(e, y.Block().Preds[i], EdgeConds(y.Block().Preds[i], y.Block()), depth+1) {
				return false
			}
		}
		return true
	case *ssa.UnOp:
		if y.Op == token.MUL {
			if g, ok := y.X.(*ssa.Global); ok {
				return x.globalPtrNonNil(g)
			}
		}
	case *ssa.Call:
		// results of constructors we know
		n := CalleeName(y.Common())
		if n == "crypto/hmac.New" || strings.HasPrefix(n, "(encoding/base32.Encoding).WithPadding") {
			return true
		}
	case *ssa.TypeAssert:
		return !y.CommaOk && x.nonNilAssert(y)
	}
	for _, at := range atomsOf(conds) {
		if at.Op == token.NEQ && ((at.X == v && isNilConst(at.Y)) || (at.Y == v && isNilConst(at.X))) {
			return true
		}
	}
	return false
}

func (x *c10ctx) nonNilAssert(ta *ssa.TypeAssert) bool {
	// value from a pool whose New never returns nil and where only non-nil values are Put (checked by the assertion rule)
	if cl, ok := ta.X.(*ssa.Call); ok && CalleeName(cl.Common()) == "(*sync.Pool).Get" {
		return true
	}
	return false
}

func (x *c10ctx) globalPtrNonNil(g *ssa.Global) bool {
	if g.Pkg == nil {
		return false
	}
	e, _ := x.w.GlobalInit(g.Pkg.Pkg.Path(), g.Name())
	if e == nil {
		return false
	}
	u, ok := ast.Unparen(e).(*ast.UnaryExpr)
	if !ok || u.Op != token.AND {
		return false
	}
	for _, f := range x.w.ModuleFuncs() {
		if isInit(f) {
			continue
		}
		for _, ef := range x.ef.Of(f) {
			if ef.Via == "" && ef.Kind == "store" && ef.Root.Op == "global" && ef.Root.Sym == valID(g) {
				return false
			}
		}
	}
	return true
}

// ---- loops ---------------------------------------------------------------------------------------

func naturalLoop(h *ssa.BasicBlock) map[*ssa.BasicBlock]bool {
	body := map[*ssa.BasicBlock]bool{h: true}
	var stack []*ssa.BasicBlock
	for _, p := range h.Preds {
		if h.Dominates(p) {
			stack = append(stack, p)
		}
	}
	for len(stack) > 0 {
		b := stack[len(stack)-1]
		stack = stack[:len(stack)-1]
		if body[b] {
			continue
		}
		body[b] = true
		stack = append(stack, b.Preds...)
	}
	return body
}

const loopCap = 1 << 24

func (x *c10ctx) checkLoops(f *ssa.Function, rule string) {
	fn := FuncName(f)
	for _, h := range f.Blocks {
		isHeader := false
		for _, p := range h.Preds {
			if h.Dominates(p) {
				isHeader = true
			}
		}
		if !isHeader {
			continue
		}
		body := naturalLoop(h)
		construct := fmt.Sprintf("loop@b%d", h.Index)
		pos := x.w.InstrPos(h.Instrs[len(h.Instrs)-1])
		// exits: Ifs inside the loop with a successor outside
		bounded, why := false, "no recognised bounded exit"
		for b := range body {
			iff, ok := b.Instrs[len(b.Instrs)-1].(*ssa.If)
			if !ok {
				// range loops
				continue
			}
			outT, outF := !body[b.Succs[0]], !body[b.Succs[1]]
			if outT == outF {
				continue
			}
			// the exit test must be evaluated on every iteration: its block dominates all back-edge sources
			every := true
			for _, p := range h.Preds {
				if h.Dominates(p) && !b.Dominates(p) {
					every = false
				}
			}
			if !every {
				continue
			}
			// (ii) range iteration: the condition is the ok flag of a Next
			if ex, ok := iff.Cond.(*ssa.Extract); ok {
				if _, isNext := ex.Tuple.(*ssa.Next); isNext {
					bounded, why = true, "range over a finite container"
					break
				}
				// the "more" flag of runtime.Frames.Next: the frames of a pc buffer (whose fixed size is a separate obligation)
				if cl, isCall := ex.Tuple.(*ssa.Call); isCall && CalleeName(cl.Common()) == "(*runtime.Frames).Next" && ex.Index == 1 {
					bounded, why = true, "polls runtime.Frames.Next until it reports no more frames"
					break
				}
			}
			bo, ok := iff.Cond.(*ssa.BinOp)
			if !ok {
				continue
			}
			op := bo.Op
			if outT { // exits when cond true: continue while !cond
				op = negOp(op)
			}
			// (i) induction against an invariant bound
			for _, side := range []struct {
				i, bnd ssa.Value
				op     token.Token
			}{{bo.X, bo.Y, op}, {bo.Y, bo.X, flipOp(op)}} {
				iv0 := side.i
				if bo2, ok := iv0.(*ssa.BinOp); ok && (bo2.Op == token.ADD || bo2.Op == token.SUB) {
					if _, isC := constInt(bo2.Y); isC {
						iv0 = bo2.X // the updated counter i±c is tested (range-lowered loops)
					}
				}
				ph, ok := iv0.(*ssa.Phi)
				if !ok || ph.Block() != h {
					continue
				}
				ind := InductionOf(ph)
				if ind == nil {
					continue
				}
				// bound must be loop-invariant
				if !loopInvariant(side.bnd, body, 0) {
					continue
				}
				bnd := x.iv.At(side.bnd, h)
				if cl, ok := side.bnd.(*ssa.Call); ok {
					if bu, ok := cl.Call.Value.(*ssa.Builtin); ok && bu.Name() == "len" {
						bnd = Itv{bi(0), bi(loopCap)} // container lengths are finite (inputs are bounded by memory)
					}
				}
				var init Itv
				for k, iv0 := range ind.Inits {
					e := x.iv.with(iv0, ind.InitP[k], EdgeConds(ind.InitP[k], h), 1)
					if k == 0 {
						init = e
					} else {
						init = init.Hull(e)
					}
				}
				cap := bi(loopCap)
				ncap := new(big.Int).Neg(cap)
				switch {
				case ind.Mono > 0 && (side.op == token.LSS || side.op == token.LEQ || side.op == token.NEQ):
					if bnd.Hi != nil && bnd.Hi.Cmp(cap) <= 0 && init.Lo != nil && init.Lo.Cmp(ncap) >= 0 && (side.op != token.NEQ || ind.Step == 1) {
						bounded, why = true, fmt.Sprintf("counter from %s up to a bound in %s", init, bnd)
					} else {
						why = fmt.Sprintf("the loop counter runs from %s up to a bound in %s: the number of iterations is not bounded by a small constant (a caller-chosen value drives the loop)", init, bnd)
					}
				case ind.Mono < 0 && (side.op == token.GTR || side.op == token.GEQ || side.op == token.NEQ):
					if bnd.Lo != nil && bnd.Lo.Cmp(ncap) >= 0 && init.Hi != nil && init.Hi.Cmp(cap) <= 0 {
						bounded, why = true, fmt.Sprintf("counter from %s down to a bound in %s", init, bnd)
					} else {
						why = fmt.Sprintf("the loop counter runs from %s down to a bound in %s: the number of iterations is not bounded by a small constant", init, bnd)
					}
				}
			}
			if bounded {
				break
			}
			// (iii) growth: len(S) < const with S growing by a non-empty constant each iteration
			lt := x.tb.Of(side0(bo))
			if lt.Op == "len" && (op == token.LSS || op == token.LEQ) {
				if k, ok := constInt(bo.Y); ok && k.IsInt64() && k.Int64() <= loopCap {
					s := lt.Args[0]
					grows := s.Op == "phi"
					if grows {
						for _, a := range s.Alts() {
							if a.Op == "bin" && a.Sym == "+" {
								g := false
								for _, q := range a.Args {
									if q.IsConst() && len(q.Sym) > 2 {
										g = true
									}
								}
								if !g {
									grows = false
								}
							}
						}
					}
					if grows {
						bounded, why = true, "the string grows by a non-empty constant until it reaches a constant length"
						break
					}
				}
			}
		}
		if bounded && x.costRule && (strings.HasPrefix(why, "range over") || strings.Contains(why, "[0,16777216]")) {
			for _, in := range h.Instrs {
				ph, ok := in.(*ssa.Phi)
				if !ok {
					break
				}
				if b, isB := ph.Type().Underlying().(*types.Basic); !isB || b.Kind() != types.String {
					continue
				}
				for i, e := range ph.Edges {
					if !h.Dominates(h.Preds[i]) {
						continue
					}
					// the value carried round the loop is a concatenation one of whose pieces is the carried string
					// itself or a slice of it (s += x; s = s[:i] + x + s[i+1:]), possibly only on some iterations
					var concat *ssa.BinOp
					seenV := map[ssa.Value]bool{}
					var uses func(v ssa.Value, inConcat bool) bool
					uses = func(v ssa.Value, inConcat bool) bool {
						if seenV[v] && !inConcat {
							return false
						}
						seenV[v] = true
						switch y := v.(type) {
						case *ssa.Phi:
							if y == ph {
								return inConcat
							}
							if !body[y.Block()] {
								return false
							}
							for _, e2 := range y.Edges {
								if uses(e2, inConcat) {
									return true
								}
							}
						case *ssa.BinOp:
							if y.Op == token.ADD {
								if uses(y.X, true) || uses(y.Y, true) {
									if concat == nil {
										concat = y
									}
									return true
								}
							}
						case *ssa.Slice:
							return inConcat && uses(y.X, true)
						}
						return false
					}
					if uses(e, false) && concat != nil {
						x.c.Bad(rule, fn, construct+":quadratic", "a string is built by repeated concatenation inside a loop that runs once per element of its input: the work is quadratic in the input length (minutes for a 1 MiB request field)", x.w.InstrPos(concat))
					}
				}
			}
		}
		if bounded {
			x.c.OK(rule, fn, construct, "bounded loop: "+why, pos)
		} else {
			x.c.Bad(rule, fn, construct, "loop without a provable small bound: "+why, pos)
		}
	}
}

func side0(bo *ssa.BinOp) ssa.Value { return bo.X }

// loopInvariant: v is defined outside the loop or is a pure operation on loop-invariant operands.
func loopInvariant(v ssa.Value, body map[*ssa.BasicBlock]bool, depth int) bool {
	if depth > 6 {
		return false
	}
	in, ok := v.(ssa.Instruction)
	if !ok || !body[in.Block()] {
		return true
	}
	switch y := v.(type) {
	case *ssa.Convert:
		return loopInvariant(y.X, body, depth+1)
	case *ssa.ChangeType:
		return loopInvariant(y.X, body, depth+1)
	case *ssa.BinOp:
		return loopInvariant(y.X, body, depth+1) && loopInvariant(y.Y, body, depth+1)
	case *ssa.UnOp:
		return y.Op != token.MUL && y.Op != token.ARROW && loopInvariant(y.X, body, depth+1)
	case *ssa.Call:
		if bu, ok := y.Call.Value.(*ssa.Builtin); ok && (bu.Name() == "len" || bu.Name() == "cap") {
			return true // the length of a container not grown inside these loops; bounded by memory anyway
		}
	}
	return false
}

// ---- the check -------------------------------------------------------------------------------------

func runC10(c *Check, w *World) {
	tb := NewTB(w)
	ef := NewEffects(tb)
	if w.Cfg.Name == CfgNative.Name {
		// the service layer's use of the excluded Must* helper: the name it instantiates is the name it tested
		ruleRawSuiteConsistency(c, w, tb, "R10.REST")
	}
	iv := newIVWithTables(w, tb, ef)
	x := &c10ctx{c: c, w: w, tb: tb, iv: iv, ef: ef, scope: map[*ssa.Function]bool{}}
	api := w.ExportedAPI()
	exported := map[*ssa.Function]bool{}
	var roots []*ssa.Function
	excluded := map[string]bool{"MustRawSuite": true, "MustHexPadLeft": true}
	for _, f := range api {
		if excluded[f.Name()] {
			continue
		}
		exported[f] = true
		roots = append(roots, f)
	}
	if tf := timeCounterFn(w); tf != nil {
		roots = append(roots, tf)
	}
	for f := range w.Reachable(roots...) {
		if fnPkgPath(f) == OtpPath && f.Blocks != nil {
			x.scope[f] = true
		}
	}
	c.Count("functions_in_scope", len(x.scope))
	{
		var ms []*ssa.Function
		for _, f := range w.ModuleFuncs(OtpPath) {
			ms = append(ms, f)
		}
		sortFuncs(ms)
		ruleNoFormatRecursion(c, w, "recursion", ms)
	}
	// HMAC output length: every Sum call in scope is traced to its hash constructors — a table of constructors
	// indexed by the algorithm, or hmac.New applied to one of several hash constructors
	{
		var fs []*ssa.Function
		for f := range x.scope {
			fs = append(fs, f)
		}
		sortFuncs(fs)
		note := func(sz int64, known bool) {
			if !known {
				x.sumLo = bi(0)
				return
			}
			if x.sumLo == nil || bi(sz).Cmp(x.sumLo) < 0 {
				x.sumLo = bi(sz)
			}
			if x.sumHi == nil || bi(sz).Cmp(x.sumHi) > 0 {
				x.sumHi = bi(sz)
			}
		}
		unknown := false
		for _, f := range fs {
			for _, sum := range sumCallsIn(f) {
				st := tb.Of(sum)
				if len(st.Args) == 0 {
					unknown = true
					continue
				}
				for _, macT := range st.Args[0].Alts() {
					switch {
					case macT.Op == "calldyn" && len(macT.Args) == 2 && macT.Args[0].Op == "field" && macT.Args[0].Args[0].Op == "index" && macT.Args[0].Args[0].Args[0].Op == "gval":
						table, _, err := hashTableOf(w, tb, macT.Args[0].Args[0].Args[0].Sym, macT.Args[0].Sym)
						if err != nil || len(table) == 0 {
							unknown = true
							continue
						}
						for _, name := range table {
							sz, ok := hashSizes[name]
							note(sz, ok)
							if !ok {
								unknown = true
							}
						}
					case macT.Op == "call" && macT.Sym == "crypto/hmac.New" && len(macT.Args) == 2 && macT.Args[0].Op == "index":
						// a local array literal of hash constructors indexed by the algorithm
						lt, _ := localFuncArray(tb, f, macT.Args[0])
						if len(lt) == 0 {
							lt, _ = globalFuncArray(w, macT.Args[0])
						}
						if len(lt) == 0 {
							unknown = true
						}
						for _, name := range lt {
							sz, ok := hashSizes[name]
							note(sz, ok)
							if !ok {
								unknown = true
							}
						}
					case macT.Op == "call" && macT.Sym == "crypto/hmac.New" && len(macT.Args) == 2:
						for _, h := range macT.Args[0].Alts() {
							sz, ok := hashSizes[h.Sym]
							if h.Op != "fn" || !ok {
								unknown = true
								continue
							}
							note(sz, true)
						}
					default:
						unknown = true
					}
				}
			}
		}
		if unknown {
			x.sumLo, x.sumHi = nil, nil
		}
	}
	// documented exclusions as assumptions
	if f := w.Func(OtpPath, "LeftPadHex"); f != nil && len(f.Params) == 2 {
		iv.Assume[tb.Of(f.Params[1]).String()] = Itv{bi(0), bi(1 << 20)}
	}
	// verified summaries: a function proved to compute 10^n (checkPow10) returns [10^lo, 10^hi]
	pow10 := map[*ssa.Function]bool{}
	iv.CallSummary = func(cl *ssa.Call, arg func(ssa.Value) Itv) (Itv, bool) {
		f := cl.Call.StaticCallee()
		if f == nil || !w.InModule(f) || len(cl.Call.Args) != 1 {
			return Itv{}, false
		}
		ok, seen := pow10[f]
		if !seen {
			ok = f.Signature.Results().Len() == 1 && checkPow10(tb, f) == ""
			pow10[f] = ok
		}
		if !ok {
			return Itv{}, false
		}
		a := arg(cl.Call.Args[0])
		if a.Lo == nil || a.Hi == nil || a.Lo.Sign() < 0 || a.Hi.Cmp(bi(19)) > 0 {
			return Itv{}, false
		}
		return Itv{new(big.Int).Exp(bi(10), a.Lo, nil), new(big.Int).Exp(bi(10), a.Hi, nil)}, true
	}
	x.assumeSuiteContract()
	x.exported = exported
	x.liftPreconditions(exported)

	// --- bounds: compiler residuals, each discharged by the interval engine ---
	resid, err := compilerResidualBounds(w.Cfg)
	if err != nil {
		c.Fatal("%v", err)
	}
	c.Count("compiler_residual_bounds", len(resid))
	matched := map[string]bool{}
	var fns []*ssa.Function
	for f := range x.scope {
		fns = append(fns, f)
	}
	sortFuncs(fns)
	nIdx := 0
	for _, f := range fns {
		EachInstr(f, func(in ssa.Instruction) {
			var p token.Pos
			switch y := in.(type) {
			case *ssa.IndexAddr:
				p = y.Pos()
			case *ssa.Index:
				p = y.Pos()
			case *ssa.Slice:
				p = y.Pos()
			default:
				return
			}
			nIdx++
			key := ""
			if p.IsValid() {
				ps := w.Fset.Position(p)
				key = fmt.Sprintf("%s:%d:%d", strings.TrimPrefix(strings.TrimPrefix(ps.Filename, RepoDir), "/"), ps.Line, ps.Column)
			}
			if _, isResid := resid[key]; !isResid && p.IsValid() {
				return // proven safe by the compiler's prove pass
			}
			if !p.IsValid() {
				// synthetic (range-lowered) accesses are generated in-bounds
				return
			}
			matched[key] = true
			switch y := in.(type) {
			case *ssa.IndexAddr:
				x.checkIndexSite(f, in, y.X, y.Index, "bounds")
			case *ssa.Index:
				x.checkIndexSite(f, in, y.X, y.Index, "bounds")
			case *ssa.Slice:
				x.checkSliceSite(f, y, "bounds")
			}
		})
	}
	c.Count("index_and_slice_sites", nIdx)
	// completeness cross-check: every compiler residual maps to a site we enumerated (in scope or not)
	all := map[string]bool{}
	for _, f := range w.ModuleFuncs(OtpPath) {
		EachInstr(f, func(in ssa.Instruction) {
			var p token.Pos
			switch y := in.(type) {
			case *ssa.IndexAddr:
				p = y.Pos()
			case *ssa.Index:
				p = y.Pos()
			case *ssa.Slice:
				p = y.Pos()
			case *ssa.Lookup:
				p = y.Pos()
			case *ssa.MakeSlice:
				p = y.Pos() // make() length checks are covered by the make-len obligation
			default:
				return
			}
			if p.IsValid() {
				ps := w.Fset.Position(p)
				all[fmt.Sprintf("%s:%d:%d", strings.TrimPrefix(strings.TrimPrefix(ps.Filename, RepoDir), "/"), ps.Line, ps.Column)] = true
			}
		})
	}
	var rk []string
	for k := range resid {
		rk = append(rk, k)
	}
	sort.Strings(rk)
	for _, k := range rk {
		if !all[k] {
			c.Unk("bounds", "otp", "compiler-residual:"+k, "the compiler reports an unproven bounds check here that the checker's enumeration of index/slice sites does not contain", k)
		}
	}

	for _, f := range fns {
		fn := FuncName(f)
		EachInstr(f, func(in ssa.Instruction) {
			switch y := in.(type) {
			case *ssa.BinOp:
				// --- division ---
				if y.Op != token.QUO && y.Op != token.REM {
					return
				}
				if _, isInt, _ := intInfoOK(y.Type(), w); !isInt {
					return
				}
				if k, ok := constInt(y.Y); ok {
					if k.Sign() == 0 {
						c.Bad("division", fn, "divisor:const0", "division by the constant zero", w.InstrPos(in))
					}
					return
				}
				d := iv.At(y.Y, y.Block())
				construct := "divisor:" + clip(normT(tb.Of(y.Y)), 80)
				c.Decide(!d.ContainsInt(0), "division", fn, construct, "the divisor is in "+d.String()+", never zero", "the divisor can be zero ("+d.String()+"): integer divide by zero panic", w.InstrPos(in))
			case *ssa.TypeAssert:
				if y.CommaOk {
					return
				}
				x.checkAssertion(f, y)
			case *ssa.Panic:
				c.Bad("panic", fn, "explicit-panic", "an explicit panic is reachable from a public operation other than the documented Must* helpers", w.InstrPos(in))
			case *ssa.MakeSlice:
				l := iv.At(y.Len, y.Block())
				// length = A - B under the dominating guard B < A
				if bo, isB := y.Len.(*ssa.BinOp); isB && bo.Op == token.SUB && (l.Lo == nil || l.Lo.Sign() < 0) {
					if x.guardHolds(y.Block(), tb.Of(bo.Y).String(), token.LSS, tb.Of(bo.X).String()) {
						a, b2 := iv.At(bo.X, y.Block()), iv.At(bo.Y, y.Block())
						l.Lo = bi(1)
						if a.Hi != nil && b2.Lo != nil {
							l.Hi = new(big.Int).Sub(a.Hi, b2.Lo)
						}
					}
				}
				ok := l.Lo != nil && l.Lo.Sign() >= 0 && l.Hi != nil && l.Hi.Cmp(bi(loopCap)) <= 0
				if cl, isLen := y.Cap.(*ssa.Call); isLen && !ok {
					_ = cl
				}
				c.Decide(ok, "stdlib", fn, "make-len:"+clip(normT(tb.Of(y.Len)), 60), "make length in "+l.String(), "make is called with a length that can be "+l.String()+" (negative or unbounded): panic or exhaustion", w.InstrPos(in))
			case ssa.CallInstruction:
				x.checkCallPreconditions(f, y)
			}
		})
		// --- nil dereference of pointer parameters ---
		if exported[f] {
			for _, p := range f.Params {
				if _, isPtr := p.Type().Underlying().(*types.Pointer); !isPtr {
					continue
				}
				x.checkNilParam(f, p)
			}
		}
		x.checkLoops(f, "termination")
	}
	// --- Must* helpers are not called from the library ---
	for _, f := range fns {
		EachInstr(f, func(in ssa.Instruction) {
			if ci, ok := in.(ssa.CallInstruction); ok {
				if cal := ci.Common().StaticCallee(); cal != nil && fnPkgPath(cal) == OtpPath && excluded[cal.Name()] {
					c.Bad("panic", FuncName(f), "calls:"+cal.Name(), "a public operation calls the panicking helper "+cal.Name(), w.InstrPos(in))
				}
			}
		})
	}
	// --- recursion ---
	color := map[*ssa.Function]int{}
	var cyc func(f *ssa.Function) bool
	cyc = func(f *ssa.Function) bool {
		color[f] = 1
		if n := w.CG().Nodes[f]; n != nil {
			for _, e := range n.Out {
				g := e.Callee.Func
				if !x.scope[g] {
					continue
				}
				if color[g] == 1 || (color[g] == 0 && cyc(g)) {
					return true
				}
			}
		}
		color[f] = 2
		return false
	}
	rec := false
	for _, f := range fns {
		if color[f] == 0 && cyc(f) {
			rec = true
			c.Unk("termination", FuncName(f), "recursion", "the call graph below the public API has a cycle through this function", w.Pos(f.Pos()))
		}
	}
	if !rec {
		c.OK("termination", "otp", "no-recursion", fmt.Sprintf("the call graph of the %d functions in scope is acyclic", len(fns)), "")
	}
	c.Floor("bounds", 10)
	c.Floor("division", 2)
	c.Floor("termination", 8)
	c.Floor("stdlib", 6)
	c.Floor("assertion", 2)
	c.Floor("nil", 3)
}

func (x *c10ctx) checkAssertion(f *ssa.Function, ta *ssa.TypeAssert) {
	c, w, tb := x.c, x.w, x.tb
	fn := FuncName(f)
	construct := "assert:" + types.TypeString(ta.AssertedType, relQual)
	cl, ok := ta.X.(*ssa.Call)
	if !ok || CalleeName(cl.Common()) != "(*sync.Pool).Get" {
		c.Bad("assertion", fn, construct, "a type assertion without the comma-ok form on a value that is not a pool object of known type: a mismatch panics", w.InstrPos(ta))
		return
	}
	pool := tb.Of(cl.Call.Args[0]).String()
	// every Put on this pool supplies the asserted type; New returns it
	okAll, n := true, 0
	for _, g := range w.ModuleFuncs(OtpPath) {
		EachInstr(g, func(in ssa.Instruction) {
			ci, ok := in.(ssa.CallInstruction)
			if !ok || CalleeName(ci.Common()) != "(*sync.Pool).Put" || tb.Of(ci.Common().Args[0]).String() != pool {
				return
			}
			n++
			arg := ci.Common().Args[1]
			if mi, ok := arg.(*ssa.MakeInterface); ok {
				if !types.Identical(mi.X.Type(), ta.AssertedType) {
					okAll = false
					c.Bad("assertion", FuncName(g), "put-type:"+pool, "a value of type "+mi.X.Type().String()+" is put into a pool whose users assert "+ta.AssertedType.String(), w.InstrPos(in))
				}
				// … and never a nil pointer of that type: a typed nil is stored like any other value, the assertion of
				// the next user succeeds and its first use dereferences nil
				if _, isPtr := mi.X.Type().Underlying().(*types.Pointer); isPtr {
					vt := tb.Of(mi.X)
					if par := g.Parent(); par != nil {
						// a Put inside a (deferred) closure: what it captured, as the enclosing function leaves it
						EachInstr(par, func(pin ssa.Instruction) {
							if mc, isMC := pin.(*ssa.MakeClosure); isMC && mc.Fn == ssa.Value(g) {
								var free []*Term
								for _, b := range mc.Bindings {
									free = append(free, tb.Of(b))
								}
								vt = tb.Val(mi.X, &Env{Fn: g, Free: free})
							}
						})
					}
					// a captured variable that is still unset when the closure is deferred and that some exit can be
					// reached from there without a store to it is nil at the Put
					if par := g.Parent(); par != nil {
						EachInstr(par, func(pin ssa.Instruction) {
							df, isDefer := pin.(*ssa.Defer)
							if !isDefer {
								return
							}
							mc, isMC := df.Call.Value.(*ssa.MakeClosure)
							if !isMC || mc.Fn != ssa.Value(g) {
								return
							}
							ld, isLd := mi.X.(*ssa.UnOp)
							if !isLd {
								return
							}
							fv, isFV := ld.X.(*ssa.FreeVar)
							if !isFV {
								return
							}
							for k, fvk := range g.FreeVars {
								if fvk != fv || k >= len(mc.Bindings) {
									continue
								}
								al, isAl := mc.Bindings[k].(*ssa.Alloc)
								if !isAl || al.Referrers() == nil {
									continue
								}
								killers := map[ssa.Instruction]bool{}
								storedBefore := false
								for _, r := range *al.Referrers() {
									if st, isSt := r.(*ssa.Store); isSt && st.Addr == ssa.Value(al) {
										if kc, isK := st.Val.(*ssa.Const); isK && kc.Value == nil {
											continue // a store of nil does not help
										}
										killers[st] = true
										if dominatesInstr(st, df) {
											storedBefore = true
										}
									}
								}
								if storedBefore {
									continue
								}
								for _, ret := range Returns(par) {
									if reachesAvoiding(df, ret, killers) {
										vt = mkPhi([]*Term{vt, mk("zero", "unset "+al.Name())})
									}
								}
							}
						})
					}
					for _, a := range vt.Alts() {
						if a.Op == "zero" || (a.IsConst() && a.Sym == "nil") {
							okAll = false
							c.Bad("assertion", FuncName(g), "put-nil:"+pool, "a nil "+mi.X.Type().String()+" can be put into the pool (the variable is still unset on some path to this Put): the next Get hands it to a user that dereferences it", w.InstrPos(in))
							break
						}
					}
				}
			} else {
				okAll = false
				c.Unk("assertion", FuncName(g), "put-type:"+pool, "a value of unknown dynamic type is put into the pool", w.InstrPos(in))
			}
		})
	}
	// New function of the pool literal
	newOK := false
	if strings.HasPrefix(pool, "global(otp.") {
		name := strings.TrimSuffix(strings.TrimPrefix(pool, "global(otp."), ")")
		if e, info := w.GlobalInit(OtpPath, name); e != nil {
			lit := EvalLit(e, info)
			if lit != nil && lit.Kind == "struct" {
				if g := litFunc(w, OtpPath, lit.Field("New")); g != nil {
					newOK = true
					for _, r := range Returns(g) {
						mi, ok := r.Results[0].(*ssa.MakeInterface)
						if !ok || !types.Identical(mi.X.Type(), ta.AssertedType) {
							newOK = false
						}
					}
				}
			}
		}
	}
	c.Decide(okAll && newOK, "assertion", fn, construct, fmt.Sprintf("the pool's New and all %d Put sites supply exactly the asserted type", n), "the pool's New function or a Put site does not supply the asserted type "+ta.AssertedType.String(), w.InstrPos(ta))
}

func (x *c10ctx) checkCallPreconditions(f *ssa.Function, ci ssa.CallInstruction) {
	c, w, tb, iv := x.c, x.w, x.tb, x.iv
	fn := FuncName(f)
	cc := ci.Common()
	n := CalleeName(cc)
	b := ci.Block()
	constArg := func(i int, allowed ...int64) bool {
		k, ok := constInt(cc.Args[i])
		if !ok {
			return false
		}
		for _, a := range allowed {
			if k.Int64() == a {
				return true
			}
		}
		return len(allowed) == 0
	}
	switch n {
	case "strings.Repeat":
		cnt := cc.Args[1]
		it := iv.At(cnt, b)
		ok := it.Lo != nil && it.Lo.Sign() >= 0
		if !ok {
			// count = W - len(S) under the dominating guard len(S) < W
			t := tb.Of(cnt)
			if t.Op == "bin" && t.Sym == "-" && t.Args[1].Op == "len" {
				if x.guardHolds(b, t.Args[1].String(), token.LSS, t.Args[0].String()) || x.guardHolds(b, t.Args[1].String(), token.LEQ, t.Args[0].String()) {
					ok = true
				}
			}
		}
		c.Decide(ok, "stdlib", fn, "strings.Repeat-count", "the repeat count is never negative", "strings.Repeat can be called with a negative count ("+it.String()+"): panic", w.InstrPos(ci))
	case "(encoding/binary.bigEndian).PutUint64", "(encoding/binary.littleEndian).PutUint64":
		bufArg := cc.Args[len(cc.Args)-2]
		okBuf := wholeArray8(bufArg)
		if !okBuf {
			if l := x.LenAt(bufArg, b); l.Lo != nil && l.Lo.Cmp(bi(8)) >= 0 {
				okBuf = true
			}
		}
		c.Decide(okBuf, "stdlib", fn, "PutUint64-buffer", "the buffer holds at least 8 bytes", "PutUint64 is given a buffer not known to hold 8 bytes: panic", w.InstrPos(ci))
	case "(*math/big.Int).SetString":
		c.Decide(constArg(2, 0, 2, 8, 10, 16), "stdlib", fn, "SetString-base", "constant legal base", "SetString base is not a constant legal base", w.InstrPos(ci))
	case "(*math/big.Int).Text":
		ok := false
		if k, isC := constInt(cc.Args[1]); isC && k.Int64() >= 2 && k.Int64() <= 62 {
			ok = true
		}
		// the receiver must be non-nil: result of SetString is nil on failure; must be guarded by ok
		c.Decide(ok, "stdlib", fn, "Text-base", "constant base within 2..62", "big.Int.Text base is not a constant in 2..62: panic", w.InstrPos(ci))
	case "strconv.ParseUint", "strconv.ParseInt":
		// illegal base/bitSize yield errors, not panics: nothing to prove
	case "(encoding/base32.Encoding).WithPadding", "(*encoding/base32.Encoding).WithPadding":
		c.Decide(constArg(1, -1, '='), "stdlib", fn, "WithPadding-char", "constant padding: NoPadding or '='", "WithPadding is given a padding character that is not the constant NoPadding or '=': it panics for characters of the alphabet", w.InstrPos(ci))
	}
}

func (x *c10ctx) checkNilParam(f *ssa.Function, p *ssa.Parameter) {
	c, w := x.c, x.w
	fn := FuncName(f)
	// all values that may be p: p itself and phis containing it
	vals := map[ssa.Value]bool{p: true}
	changed := true
	for changed {
		changed = false
		for v := range vals {
			if refs := v.Referrers(); refs != nil {
				for _, r := range *refs {
					if ph, ok := r.(*ssa.Phi); ok && !vals[ph] {
						vals[ph] = true
						changed = true
					}
				}
			}
		}
	}
	ok := true
	n := 0
	for v := range vals {
		refs := v.Referrers()
		if refs == nil {
			continue
		}
		for _, r := range *refs {
			deref := false
			switch y := r.(type) {
			case *ssa.FieldAddr:
				deref = y.X == v
			case *ssa.UnOp:
				deref = y.Op == token.MUL && y.X == v
			case *ssa.IndexAddr:
				deref = y.X == v
			case ssa.CallInstruction:
				cc := y.Common()
				if len(cc.Args) > 0 && cc.Args[0] == v && cc.StaticCallee() != nil && cc.StaticCallee().Signature.Recv() != nil {
					deref = true // method with pointer receiver from another package dereferences it
				}
			}
			if !deref {
				continue
			}
			n++
			in := r.(ssa.Instruction)
			if !x.nonNilPtr(v, in.Block(), CondsAt(in.Block()), 0) {
				ok = false
				c.Bad("nil", fn, "deref:"+p.Name(), "the pointer argument "+p.Name()+" is dereferenced where it may be nil: nil pointer dereference panic instead of an error or the documented default", w.InstrPos(in))
			}
		}
	}
	if ok {
		c.OK("nil", fn, "deref:"+p.Name(), fmt.Sprintf("all %d dereferences of %s are dominated by a nil test or a replacement", n, p.Name()), w.Pos(f.Pos()))
	}
}

var _ = strconv.Itoa

func init() {
	register(&propDef{
		id:    "C10",
		level: "other",
		explain: "Panic- and hang-freedom as enumerated obligations over every function of otp reachable from an exported function other than MustRawSuite/MustHexPadLeft, exported parameters ranging over their whole type (LeftPadHex width in 0..2^20 as the property states): " +
			"bounds — the Go compiler's own prove pass (-d=ssa/check_bce, a static compiler pass on the current tree) lists the bounds checks it cannot eliminate; each such index/slice site is discharged by the interval engine (dominating guards, induction variables, symbolic index<len, prefix facts HasPrefix(ToUpper(x),ascii) ⇒ len(x) ≥ len(ascii), HMAC output length from the resolved constructor table, preconditions of unexported functions lifted to every call site, the Suite contract proved by the decision-table engine); every compiler residual must map to an enumerated site; " +
			"division — every non-constant divisor excludes 0; assertions — non-comma-ok assertions only on pool objects whose New and every Put supply the asserted type; nil — every dereference of a pointer parameter of an exported function is dominated by a nil test or replacement; explicit panic — none in scope, Must* not called from the library; " +
			"stdlib preconditions — strings.Repeat count ≥ 0, make length within [0, 2^24], PutUint64 buffer of 8 bytes, constant legal bases, constant padding; termination — every loop is a counted loop with a bound ≤ 2^24 from constants/gates/container lengths, a range loop or a constant-growth loop, and the call graph in scope is acyclic. " +
			"Not decided: out-of-memory, stack exhaustion, panics inside the standard library on inputs meeting its documented preconditions.",
		trusted:  []string{"the Go compiler's bounds-check elimination (prove pass)", "documented preconditions of the standard library functions used"},
		assume:   []string{"nil Suite values and user-defined Suite implementations are excluded by the property", "LeftPadHex width is within 0..2^20 (property)", "TimeCounterFunc is not replaced and not called directly with period 0"},
		quick:    []Config{CfgNative, CfgWasm},
		thorough: []Config{CfgNative, CfgWasm, Cfg386},
		run:      runC10,
	})
}

// ruleNoFormatRecursion: a String() / Error() / Format / GoString method that hands its own receiver — or a value
// whose method set still contains this very method, such as a struct that embeds the receiver's type — to a fmt
// formatting function is called back by fmt for that argument: unbounded recursion, a stack overflow no recover()
// catches. (go vet reports only the receiver itself.)
func ruleNoFormatRecursion(c *Check, w *World, rule string, fns []*ssa.Function) {
	n := 0
	for _, f := range fns {
		recv := f.Signature.Recv()
		if recv == nil || f.Blocks == nil {
			continue
		}
		name := f.Name()
		if name != "String" && name != "Error" && name != "GoString" && name != "Format" {
			continue
		}
		self, _ := f.Object().(*types.Func)
		if self == nil {
			continue
		}
		n++
		bad := ""
		var at ssa.Instruction
		EachInstr(f, func(in ssa.Instruction) {
			ci, ok := in.(ssa.CallInstruction)
			if !ok || !strings.HasPrefix(CalleeName(ci.Common()), "fmt.") {
				return
			}
			var vals []ssa.Value
			for _, a := range ci.Common().Args {
				vals = append(vals, a)
				if sl, ok := a.(*ssa.Slice); ok {
					vals = append(vals, variadicElems(sl)...)
				}
			}
			for _, v := range vals {
				mi, ok := v.(*ssa.MakeInterface)
				if !ok {
					continue
				}
				t := mi.X.Type()
				for _, tt := range []types.Type{t, types.NewPointer(t)} {
					ms := types.NewMethodSet(tt)
					for i := 0; i < ms.Len(); i++ {
						if ms.At(i).Obj() == types.Object(self) && tt == t {
							bad, at = "a value of type "+t.String(), in
						}
					}
				}
			}
		})
		c.Decide(bad == "", rule, FuncName(f), "format-recursion", "the method formats nothing whose method set contains the method itself", "the method hands "+bad+" to a fmt function: fmt calls this method again for it, without end (stack overflow; not recoverable)", func() string {
			if at != nil {
				return w.InstrPos(at)
			}
			return w.Pos(f.Pos())
		}())
	}
	if n == 0 {
		c.OK(rule, "otp", "format-recursion", "no String/Error/Format methods among the functions examined", "")
	}
}
