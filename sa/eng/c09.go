package eng

import (
	"fmt"
	"go/token"
	"go/types"
	"strings"

	"golang.org/x/tools/go/ssa"
)

const (
	LH Label = 1 // HMAC-derived
	LK Label = 2 // secret / key material
	LB Label = 4 // caller-supplied data (arguments, request fields, JS arguments)
)

func isHMACSource(ci ssa.CallInstruction) Label {
	n := CalleeName(ci.Common())
	switch {
	case n == "(hash.Hash).Sum":
		return LH
	case strings.HasPrefix(n, "crypto/sha1.Sum"), strings.HasPrefix(n, "crypto/sha256.Sum"), strings.HasPrefix(n, "crypto/sha512.Sum"), strings.HasPrefix(n, "crypto/md5.Sum"):
		return LH
	}
	return 0
}

var constantTimeComparators = map[string]bool{
	"crypto/subtle.ConstantTimeCompare": true, "crypto/hmac.Equal": true, "crypto/subtle.ConstantTimeEq": true,
	"crypto/subtle.ConstantTimeByteEq": true, "crypto/subtle.ConstantTimeLessOrEq": true,
}

var earlyExitComparators = map[string]bool{
	"bytes.Equal": true, "bytes.Compare": true, "bytes.HasPrefix": true, "bytes.HasSuffix": true, "bytes.Contains": true, "bytes.Index": true, "bytes.EqualFold": true,
	"strings.Compare": true, "strings.EqualFold": true, "strings.HasPrefix": true, "strings.HasSuffix": true, "strings.Contains": true, "strings.Index": true,
	"strings.ContainsAny": true, "strings.Count": true, "strings.Cut": true, "strings.TrimPrefix": true, "strings.TrimSuffix": true,
	"slices.Equal": true, "slices.Compare": true, "reflect.DeepEqual": true, "cmp.Compare": true, "slices.Contains": true, "slices.Index": true,
}

func fasthttpReader(name string) (Label, bool) {
	if !strings.Contains(name, "github.com/valyala/fasthttp.") {
		return 0, false
	}
	for _, m := range []string{").PostBody", ").QueryArgs", ").Peek", ").Path", ").Method", ").IsPost", ").IsGet", ").URI", ").RequestURI", ").Host", ").UserValue", ").PostArgs", ").FormValue", ").Request", ").RemoteAddr", ").String"} {
		if strings.HasSuffix(name, m) {
			return LB, true
		}
	}
	return 0, false
}

func fasthttpSink(name string) bool {
	if strings.Contains(name, "github.com/valyala/fasthttp.") || strings.Contains(name, "github.com/swaggo/") {
		for _, m := range []string{").SetBody", ").SetBodyString", ").SetStatusCode", ").SetContentType", ").Redirect", ").SetUserValue", ").Write", ").WriteString", ").StatusCode", ").ListenAndServe", ").Shutdown", ".WrapHandler", ").Error", ").Response"} {
			if strings.HasSuffix(name, m) {
				return true
			}
		}
	}
	return strings.HasPrefix(name, "log/slog.") || strings.HasPrefix(name, "(*log/slog.") || name == "builtin.println" || name == "builtin.print"
}

// entryFuncs: exported API plus module functions without module callers (called by frameworks/JS).
func entryFuncs(w *World, fns []*ssa.Function) []*ssa.Function {
	api := map[*ssa.Function]bool{}
	for _, f := range w.ExportedAPI() {
		api[f] = true
	}
	var out []*ssa.Function
	for _, f := range fns {
		if api[f] {
			out = append(out, f)
			continue
		}
		if isInit(f) {
			continue
		}
		has := false
		for _, s := range w.CallSites(f) {
			if w.InModule(s.Parent()) {
				has = true
			}
		}
		if !has {
			out = append(out, f)
		}
	}
	return out
}

// labelEntries puts label l on every parameter of the entry functions (value and pointee).
func labelEntries(t *Taint, entries []*ssa.Function, l Label) {
	for _, f := range entries {
		for i, p := range f.Params {
			n := t.N(p)
			t.AddLabel(n, l)
			if isRefLike(p.Type()) {
				o := t.Obj(fmt.Sprintf("param:%s#%d", FuncName(f), i))
				t.AddLabel(o, l)
				t.addPts(n, o)
			}
		}
	}
}

func newOtpTaint(w *World) (*Taint, []*ssa.Function) {
	fns := w.ModuleFuncs()
	t := NewTaint(w, fns)
	t.Source = isHMACSource
	t.Declass = func(n string) bool { return constantTimeComparators[n] }
	t.ExtReader = fasthttpReader
	t.ExtSink = fasthttpSink
	return t, fns
}

func isCompare(op token.Token) bool {
	switch op {
	case token.EQL, token.NEQ, token.LSS, token.LEQ, token.GTR, token.GEQ:
		return true
	}
	return false
}

func runC09(c *Check, w *World) {
	if w.Cfg.Name == CfgNative.Name {
		ruleJSExportsDirect(c, "JS", "validateHOTP", "validateTOTP")
	}
	runC09on(c, w)
	if w.Cfg.Name == CfgNative.Name {
		runControl(c, "S1", []string{"ControlEarlyExit|compare"}, func(sink *Check, cw *World) { runC09on(sink, cw) })
	}
}

func runC09on(c *Check, w *World) {
	t, fns := newOtpTaint(w)
	entries := entryFuncs(w, fns)
	labelEntries(t, entries, LB)
	t.Build()
	rounds := t.Solve()
	c.Count("functions", len(fns))
	c.Count("entry_functions", len(entries))
	c.Count("taint_nodes", len(t.nodes))
	c.Count("solver_steps", rounds)
	strict := c.Tier == "thorough"

	ctSites := 0
	hmacSources := 0
	siteFns := map[*ssa.Function]bool{}
	for _, f := range fns {
		fname := FuncName(f)
		EachInstr(f, func(in ssa.Instruction) {
			switch x := in.(type) {
			case *ssa.BinOp:
				if !isCompare(x.Op) {
					return
				}
				lx, ly := t.Eff(x.X), t.Eff(x.Y)
				if lx&LH == 0 && ly&LH == 0 {
					return
				}
				_, cx := x.X.(*ssa.Const)
				_, cy := x.Y.(*ssa.Const)
				construct := fmt.Sprintf("compare:%s %s %s", shortVal(x.X), x.Op, shortVal(x.Y))
				switch {
				case lx&LH != 0 && !cy && ly&LB != 0, ly&LH != 0 && !cx && lx&LB != 0:
					c.Bad("S1", fname, construct, "an HMAC-derived value is compared with caller-supplied data by an ordinary (early-exit) comparison "+x.Op.String()+": rejection time depends on how many leading characters are correct", w.InstrPos(in))
				case isNumeric(x.X.Type()) && (cx || cy) && lx&LB != 0 && lx&LH != 0 && InLoop(x.Block()), isNumeric(x.X.Type()) && (cx || cy) && ly&LB != 0 && ly&LH != 0 && InLoop(x.Block()):
					c.Bad("S2", fname, construct, "a value combining HMAC-derived data and caller data is tested inside a loop (hand-written early-exit comparison)", w.InstrPos(in))
				case cx || cy:
					c.OK("S1", fname, construct, "HMAC-derived value compared with a constant only", w.InstrPos(in))
				case strict && (lx&LH != 0) != (ly&LH != 0):
					c.OK("S1", fname, construct, "HMAC-derived value compared with a value that carries no caller data (strict mode: recorded)", w.InstrPos(in))
				default:
					c.OK("S1", fname, construct, "comparison between HMAC-derived values / values without caller data", w.InstrPos(in))
				}
			case *ssa.Lookup:
				if _, isMap := x.X.Type().Underlying().(*types.Map); isMap && t.Eff(x.Index)&LH != 0 {
					c.Bad("S4", fname, "map-index:"+shortVal(x.Index), "an HMAC-derived value is used as a map key (data-dependent hashing/compare)", w.InstrPos(in))
				}
			case ssa.CallInstruction:
				cc := x.Common()
				name := CalleeName(cc)
				if isHMACSource(x) != 0 {
					hmacSources++
					c.OK("SRC", fname, "hmac-source:"+name, "HMAC output labelled H", w.InstrPos(in))
					return
				}
				if _, isB := cc.Value.(*ssa.Builtin); isB {
					return
				}
				callees := w.Callees(x)
				for _, cal := range callees {
					if w.InModule(cal) {
						return // flows into the module are followed, not sinks
					}
				}
				args := cc.Args
				if cc.IsInvoke() {
					args = append([]ssa.Value{cc.Value}, cc.Args...)
				}
				hArg, bArg := -1, -1
				for i, a := range args {
					if t.Eff(a)&LH != 0 {
						hArg = i
					}
				}
				if hArg < 0 {
					return
				}
				for i, a := range args {
					if i != hArg && t.Eff(a)&LB != 0 {
						if _, isC := a.(*ssa.Const); !isC {
							bArg = i
						}
					}
				}
				// also the symmetric case (first H arg vs. a later B arg is covered; check earlier H args)
				if bArg < 0 {
					for i, a := range args {
						if t.Eff(a)&LH != 0 {
							for j, b := range args {
								if j != i && t.Eff(b)&LB != 0 {
									if _, isC := b.(*ssa.Const); !isC {
										hArg, bArg = i, j
									}
								}
							}
						}
					}
				}
				if name == "" {
					name = "dynamic"
				}
				construct := "call:" + name
				switch {
				case constantTimeComparators[name]:
					if bArg >= 0 {
						ctSites++
						siteFns[f] = true
						// S7: the HMAC-derived operand reaches the comparator whole: ConstantTimeCompare returns at once when
						// the lengths differ, so an operand whose length depends on its content (trimmed, cut at a
						// separator) turns the length test into an early exit on the secret code
						var lenDep func(v ssa.Value, depth int) string
						lenDep = func(v ssa.Value, depth int) string {
							if depth > 6 || v == nil {
								return ""
							}
							switch y := v.(type) {
							case *ssa.Convert:
								return lenDep(y.X, depth+1)
							case *ssa.ChangeType:
								return lenDep(y.X, depth+1)
							case *ssa.Slice:
								if y.Low != nil || y.High != nil {
									if _, lc := y.Low.(*ssa.Const); y.Low != nil && !lc {
										return "a slice with a computed bound"
									}
									if _, hc := y.High.(*ssa.Const); y.High != nil && !hc {
										return "a slice with a computed bound"
									}
								}
								return lenDep(y.X, depth+1)
							case *ssa.Call:
								n := CalleeName(y.Common())
								if strings.HasPrefix(n, "strings.") || strings.HasPrefix(n, "bytes.") || strings.HasPrefix(n, "regexp.") || strings.HasPrefix(n, "(*regexp.") {
									return n
								}
							case *ssa.Phi:
								for _, e := range y.Edges {
									if why := lenDep(e, depth+1); why != "" {
										return why
									}
								}
							}
							return ""
						}
						if why := lenDep(args[bArg], 0); why != "" && hArg != bArg {
							// the same holds for the submitted operand: cut at a position computed from the expected code
							// (its number of leading zeros, say), the part left out is compared elsewhere, early-exit
							c.Bad("S7", fname, construct+"@whole-code", "the submitted operand of the constant-time comparison went through "+why+": only a part of the code chosen at run time is compared in constant time", w.InstrPos(in))
						}
						if why := lenDep(args[hArg], 0); why != "" {
							c.Bad("S7", fname, construct+"@whole-operand", "the HMAC-derived operand of the constant-time comparison went through "+why+": its length depends on its content, and the comparator's length test is an early exit", w.InstrPos(in))
						} else {
							c.OK("S7", fname, construct+"@whole-operand", "the HMAC-derived operand is handed over whole (no content-dependent length)", w.InstrPos(in))
						}
						// S6: the comparison is not itself conditional on the verdict of another comparison of the code
						// (two partial comparisons joined by && leak which part failed through the work done)
						var dep ssa.Value
						var find func(v ssa.Value, depth int)
						find = func(v ssa.Value, depth int) {
							if dep != nil || depth > 4 || v == nil {
								return
							}
							if cl, isCall := v.(*ssa.Call); isCall {
								if constantTimeComparators[CalleeName(cl.Common())] && cl != in {
									dep = cl
								}
								return
							}
							if bo, isB := v.(*ssa.BinOp); isB {
								find(bo.X, depth+1)
								find(bo.Y, depth+1)
							}
							if ph, isP := v.(*ssa.Phi); isP {
								for _, e := range ph.Edges {
									find(e, depth+1)
								}
							}
						}
						for _, cd := range CondsAt(in.Block()) {
							find(cd.V, 0)
						}
						if dep != nil {
							c.Bad("S6", fname, construct+"@conditional", "this comparison of the code runs only if another comparison of part of the code succeeded: the work done reveals which part of a wrong code is correct", w.InstrPos(in))
						} else {
							c.OK("S6", fname, construct+"@unconditional", "the comparison does not depend on the verdict of another comparison", w.InstrPos(in))
						}
						c.OK("S3", fname, construct, "HMAC-derived value meets caller data inside a constant-time comparator", w.InstrPos(in))
					} else {
						c.OK("S3", fname, construct, "constant-time comparator on HMAC-derived values", w.InstrPos(in))
					}
				case bArg < 0:
					c.OK("S3", fname, construct, "external call receives HMAC-derived data but no caller data in another argument", w.InstrPos(in))
				case earlyExitComparators[name]:
					c.Bad("S3", fname, construct, "HMAC-derived data and caller data are handed to the early-exit comparator "+name, w.InstrPos(in))
				case fasthttpSink(name) || extFormatting(name):
					c.OK("S3", fname, construct, "formatting/output sink: no comparison of its arguments with each other", w.InstrPos(in))
				default:
					c.Unk("S3", fname, construct, "HMAC-derived data (argument "+fmt.Sprint(hArg)+") and caller data (argument "+fmt.Sprint(bArg)+") reach "+name+", which is not known to be constant-time or comparison-free", w.InstrPos(in))
				}
			}
		})
	}
	// unsummarised framework methods would silently lose flows: require all fasthttp methods to be classified
	for _, f := range fns {
		EachInstr(f, func(in ssa.Instruction) {
			ci, ok := in.(ssa.CallInstruction)
			if !ok {
				return
			}
			n := CalleeName(ci.Common())
			if strings.Contains(n, "github.com/valyala/fasthttp.") && strings.HasPrefix(n, "(") {
				if _, isR := fasthttpReader(n); !isR && !fasthttpSink(n) {
					c.Unk("FW", FuncName(f), "framework-method:"+n, "method of the request/response object without a flow summary", w.InstrPos(in))
				}
			}
		})
	}
	// S5: the comparison path is memoryless. Implicit flows are not tracked, so a verdict or code remembered
	// across calls (which is known to equal the expected code once a comparison succeeded) would be
	// consulted by ordinary comparisons without the explicit-flow rules seeing an H label on it.
	var roots []*ssa.Function
	for _, f := range fns {
		if p := fnPkgPath(f); p != OtpPath && p != WasmPath {
			continue
		}
		for g := range w.Reachable(f) {
			if siteFns[g] {
				roots = append(roots, f)
				break
			}
		}
	}
	if len(roots) > 0 {
		var scope []*ssa.Function
		for g := range w.Reachable(roots...) {
			if p := fnPkgPath(g); g.Blocks != nil && (p == OtpPath || p == WasmPath) {
				scope = append(scope, g)
			}
		}
		sortFuncs(scope)
		tb := NewTB(w)
		ef := NewEffects(tb)
		ruleNoPkgState(c, w, tb, ef, "S5", scope)
		ruleNoConcurrencyPrimitives(c, w, "S5", scope)
		c.Count("memoryless_scope_functions", len(scope))
	}
	if ctSites == 0 {
		c.Unk("S3", "-", "no-constant-time-site", "no constant-time comparator receives both the HMAC-derived code and caller data in this configuration: sources or entry labels were not found", "")
	}
	if hmacSources == 0 {
		c.Unk("SRC", "-", "no-hmac-source", "no HMAC output site found", "")
	}
	c.Count("constant_time_sites", ctSites)
	c.Count("hmac_sources", hmacSources)
}

func isNumeric(t types.Type) bool {
	b, ok := t.Underlying().(*types.Basic)
	return ok && b.Info()&types.IsNumeric != 0
}

func extFormatting(name string) bool {
	for _, p := range []string{"fmt.", "encoding/json.", "(*encoding/json.", "syscall/js.ValueOf", "strconv.", "encoding/hex.", "(*encoding/base32."} {
		if strings.HasPrefix(name, p) {
			return true
		}
	}
	return false
}

func shortVal(v ssa.Value) string {
	if c, ok := v.(*ssa.Const); ok {
		if c.Value == nil {
			return "nil"
		}
		return c.Value.String()
	}
	s := v.Name()
	if p := v.Parent(); p != nil {
		// stable-ish: use the origin of the value rather than its register name where simple
		switch x := v.(type) {
		case *ssa.Parameter:
			return "param " + x.Name()
		case *ssa.Call:
			if n := CalleeName(x.Common()); n != "" {
				return "result of " + n
			}
		case *ssa.Extract:
			if cl, ok := x.Tuple.(*ssa.Call); ok {
				return fmt.Sprintf("result#%d of %s", x.Index, CalleeName(cl.Common()))
			}
		case *ssa.Phi:
			return "phi " + x.Comment
		case *ssa.UnOp:
			return "load " + shortVal(x.X)
		case *ssa.Alloc:
			return "local " + x.Comment
		case *ssa.FreeVar:
			return "captured " + x.Name()
		}
	}
	return s
}

func init() {
	register(&propDef{
		id:    "C09",
		level: "proof",
		explain: "Whole-program explicit information flow over the SSA form of packages otp, wasm and internal/app (every function, every path), per build configuration. " +
			"Sources H: every hash.Hash Sum / digest result. Caller data B: every parameter of every exported otp function and of every module function without module callers (JS-registered functions, framework-called closures), and the request readers of fasthttp. " +
			"Memory: inclusion-based field-insensitive points-to over allocation sites, globals and call results; module calls bind arguments, results per index and closure captures through the VTA call graph; calls out of the module use 'result depends on all arguments, reference arguments of non-read-only callees may be written with all arguments'. " +
			"Obligations: every comparison (== != < <= > >=, hence string equality and switch) with an H operand, every map lookup with an H key, every external call receiving H. Discharged when the other operand is a constant or carries no caller data, or the callee is crypto/subtle.ConstantTimeCompare / hmac.Equal / ConstantTimeEq or a formatting/output sink; violated for ordinary comparisons and known early-exit comparators; undecided for unknown callees. " +
			"S5: every function of otp/wasm on a path to a constant-time comparison site writes no package-level variable and uses no lock/atomic/goroutine (a remembered verdict or accepted code equals the expected code and would be compared by ordinary means). Floor: in each configuration at least one constant-time comparator must receive H and caller data. Over-approximate (flow- and context-insensitive), so absence of a report means no explicit flow exists. " +
			"S7 also covers the submitted operand: it reaches the comparator whole, not cut at a position computed at run time.",
		trusted:  []string{"crypto/subtle.ConstantTimeCompare, crypto/hmac.Equal are constant-time", "stdlib summaries: result depends on all arguments", "no reflection in the three packages"},
		assume:   []string{"micro-architectural timing (table index by HMAC nibble, division latency) is outside the statement", "implicit flows are not tracked: the branches on labelled data are themselves the sinks; S5 closes the one implicit channel that survives a call (state remembered between calls on the comparison path)"},
		quick:    []Config{CfgNative, CfgWasm},
		thorough: []Config{CfgNative, CfgWasm, Cfg386},
		run:      runC09,
	})
}
