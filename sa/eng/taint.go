package eng

// Engine C: whole-program explicit information flow over SSA with an inclusion-based,
// field-insensitive points-to abstraction for memory. Context-insensitive, flow-insensitive on
// the heap: an over-approximation, so every real flow is seen.

import (
	"go/token"
	"go/types"
	"strings"

	"golang.org/x/tools/go/ssa"
)

type Label uint64

type tnode struct {
	lab     Label
	flow    []int        // label flows to these nodes
	pts     map[int]bool // objects this (reference) value may point to; for objects: what their content may point to
	ptsFlow []int        // pts flows to these nodes
	desc    string
}

type Taint struct {
	W     *World
	Fns   []*ssa.Function
	inSet map[*ssa.Function]bool
	nodes []*tnode
	valN  map[ssa.Value]int
	objN  map[string]int
	retN  map[*ssa.Function][]int
	work  []int
	inW   map[int]bool

	// complex constraints re-evaluated when pts of a node grows
	onPts map[int][]func()

	Source      func(call ssa.CallInstruction) Label // label put on the result of a call (sources)
	Declass     func(name string) bool               // callee whose result carries no label
	ExtReader   func(name string) (Label, bool)      // framework request readers: result label
	ExtSink     func(name string) bool               // framework sinks: no write-back, no result
	ExtErrClean func(name string) bool               // external callees whose error result does not echo their input
	// ExtOverride: exact label of an external call's result (no inflow from the arguments) when ok
	ExtOverride func(call ssa.CallInstruction) (Label, bool)
}

func NewTaint(w *World, fns []*ssa.Function) *Taint {
	t := &Taint{W: w, Fns: fns, inSet: map[*ssa.Function]bool{}, valN: map[ssa.Value]int{}, objN: map[string]int{}, retN: map[*ssa.Function][]int{}, inW: map[int]bool{}, onPts: map[int][]func(){}}
	for _, f := range fns {
		t.inSet[f] = true
	}
	return t
}

func (t *Taint) newNode(desc string) int {
	t.nodes = append(t.nodes, &tnode{desc: desc})
	return len(t.nodes) - 1
}

func (t *Taint) N(v ssa.Value) int {
	if n, ok := t.valN[v]; ok {
		return n
	}
	n := t.newNode(valID(v))
	t.valN[v] = n
	switch x := v.(type) {
	case *ssa.Global:
		o := t.Obj("global:" + valID(x))
		t.addPts(n, o)
	case *ssa.Function:
		// function values carry no data
	}
	return n
}

func (t *Taint) Obj(key string) int {
	if n, ok := t.objN[key]; ok {
		return n
	}
	n := t.newNode("obj:" + key)
	t.objN[key] = n
	return n
}

func (t *Taint) push(n int) {
	if !t.inW[n] {
		t.inW[n] = true
		t.work = append(t.work, n)
	}
}

func (t *Taint) AddLabel(n int, l Label) {
	if l == 0 {
		return
	}
	nd := t.nodes[n]
	if nd.lab|l != nd.lab {
		nd.lab |= l
		t.push(n)
	}
}

func (t *Taint) addPts(n, o int) {
	nd := t.nodes[n]
	if nd.pts == nil {
		nd.pts = map[int]bool{}
	}
	if !nd.pts[o] {
		nd.pts[o] = true
		t.push(n)
	}
}

func (t *Taint) flow(from, to int) {
	if from == to {
		return
	}
	f := t.nodes[from]
	for _, x := range f.flow {
		if x == to {
			return
		}
	}
	f.flow = append(f.flow, to)
	t.AddLabel(to, f.lab)
}

func (t *Taint) ptsFlow(from, to int) {
	if from == to {
		return
	}
	f := t.nodes[from]
	for _, x := range f.ptsFlow {
		if x == to {
			return
		}
	}
	f.ptsFlow = append(f.ptsFlow, to)
	for o := range f.pts {
		t.addPts(to, o)
	}
}

// copyRef: value-level assignment of a (possibly reference) value.
func (t *Taint) copyRef(from, to int) {
	t.flow(from, to)
	t.ptsFlow(from, to)
}

// whenPts registers fn to run for every object (current and future) in pts(n).
func (t *Taint) whenPts(n int, fn func(o int)) {
	seen := map[int]bool{}
	run := func() {
		for o := range t.nodes[n].pts {
			if !seen[o] {
				seen[o] = true
				fn(o)
			}
		}
	}
	t.onPts[n] = append(t.onPts[n], run)
	run()
}

// Eff: the label of a value including the content of what it points to (3 levels).
func (t *Taint) Eff(v ssa.Value) Label {
	if _, ok := v.(*ssa.Const); ok {
		return 0
	}
	n, ok := t.valN[v]
	if !ok {
		return 0
	}
	return t.effN(n, 3, map[int]bool{})
}

func (t *Taint) effN(n, depth int, seen map[int]bool) Label {
	if seen[n] {
		return 0
	}
	seen[n] = true
	nd := t.nodes[n]
	l := nd.lab
	if depth > 0 {
		for o := range nd.pts {
			l |= t.effN(o, depth-1, seen)
		}
	}
	return l
}

// effFlow: make `to` include the effective label of `from` (value + pointees, 2 levels).
func (t *Taint) effFlow(from, to int) {
	t.flow(from, to)
	t.whenPts(from, func(o int) {
		t.flow(o, to)
		t.whenPts(o, func(o2 int) { t.flow(o2, to) })
	})
}

func isRefLike(tp types.Type) bool {
	switch u := tp.Underlying().(type) {
	case *types.Pointer, *types.Slice, *types.Map, *types.Chan, *types.Interface, *types.Signature:
		return true
	case *types.Basic:
		return u.Kind() == types.UnsafePointer
	case *types.Struct:
		for i := 0; i < u.NumFields(); i++ {
			if isRefLike(u.Field(i).Type()) {
				return true
			}
		}
	case *types.Array:
		return isRefLike(u.Elem())
	case *types.Tuple:
		for i := 0; i < u.Len(); i++ {
			if isRefLike(u.At(i).Type()) {
				return true
			}
		}
	}
	return false
}

func (t *Taint) ret(f *ssa.Function) []int {
	if r, ok := t.retN[f]; ok {
		return r
	}
	n := f.Signature.Results().Len()
	r := make([]int, n)
	for i := range r {
		r[i] = t.newNode("ret:" + FuncName(f))
	}
	t.retN[f] = r
	return r
}

// Build generates constraints for all functions.
func (t *Taint) Build() {
	for _, f := range t.Fns {
		t.buildFn(f)
	}
}

func (t *Taint) buildFn(f *ssa.Function) {
	for _, b := range f.Blocks {
		for _, in := range b.Instrs {
			t.instr(f, in)
		}
	}
}

func (t *Taint) instr(f *ssa.Function, in ssa.Instruction) {
	switch x := in.(type) {
	case *ssa.Alloc:
		t.addPts(t.N(x), t.Obj("alloc:"+valID(x)))
	case *ssa.MakeSlice:
		t.addPts(t.N(x), t.Obj("make:"+valID(x)))
	case *ssa.MakeMap:
		t.addPts(t.N(x), t.Obj("make:"+valID(x)))
	case *ssa.MakeChan:
		t.addPts(t.N(x), t.Obj("make:"+valID(x)))
	case *ssa.Store:
		a, v := t.N(x.Addr), t.N(x.Val)
		t.whenPts(a, func(o int) {
			t.effFlow(v, o)
			t.ptsFlow(v, o)
		})
	case *ssa.UnOp:
		r := t.N(x)
		switch x.Op {
		case token.MUL:
			a := t.N(x.X)
			t.whenPts(a, func(o int) {
				t.flow(o, r)
				t.ptsFlow(o, r)
			})
		case token.ARROW:
			a := t.N(x.X)
			t.whenPts(a, func(o int) { t.flow(o, r); t.ptsFlow(o, r) })
		default:
			t.flow(t.N(x.X), r)
		}
	case *ssa.BinOp:
		r := t.N(x)
		t.flow(t.N(x.X), r)
		t.flow(t.N(x.Y), r)
	case *ssa.Phi:
		r := t.N(x)
		for _, e := range x.Edges {
			if _, isC := e.(*ssa.Const); isC {
				continue
			}
			t.copyRef(t.N(e), r)
		}
	case *ssa.Convert:
		r := t.N(x)
		src := t.N(x.X)
		_, fromStr := x.X.Type().Underlying().(*types.Basic)
		_, toSlice := x.Type().Underlying().(*types.Slice)
		_, fromSlice := x.X.Type().Underlying().(*types.Slice)
		switch {
		case fromStr && toSlice: // []byte(s): fresh copy
			o := t.Obj("conv:" + valID(x))
			t.addPts(r, o)
			t.flow(src, o)
			t.flow(src, r)
		case fromSlice: // string(b): copy of the content
			t.effFlow(src, r)
		default:
			t.copyRef(src, r)
		}
	case *ssa.ChangeType:
		t.copyRef(t.N(x.X), t.N(x))
	case *ssa.ChangeInterface:
		t.copyRef(t.N(x.X), t.N(x))
	case *ssa.MakeInterface:
		t.copyRef(t.N(x.X), t.N(x))
	case *ssa.SliceToArrayPointer:
		t.copyRef(t.N(x.X), t.N(x))
	case *ssa.MultiConvert:
		t.copyRef(t.N(x.X), t.N(x))
	case *ssa.TypeAssert:
		t.copyRef(t.N(x.X), t.N(x))
	case *ssa.Extract:
		if c, ok := x.Tuple.(*ssa.Call); ok {
			t.extract(f, c, x)
		} else {
			t.copyRef(t.N(x.Tuple), t.N(x))
		}
	case *ssa.Field:
		t.copyRef(t.N(x.X), t.N(x))
	case *ssa.FieldAddr:
		t.copyRef(t.N(x.X), t.N(x))
	case *ssa.IndexAddr:
		t.copyRef(t.N(x.X), t.N(x))
		// the index does not taint the address
	case *ssa.Index:
		t.copyRef(t.N(x.X), t.N(x))
		if _, isArr := x.X.Type().Underlying().(*types.Basic); isArr { // string index
			t.flow(t.N(x.X), t.N(x))
		}
	case *ssa.Slice:
		r := t.N(x)
		t.copyRef(t.N(x.X), r)
		if _, isStr := x.X.Type().Underlying().(*types.Basic); isStr {
			t.flow(t.N(x.X), r)
		}
	case *ssa.Lookup:
		r, m := t.N(x), t.N(x.X)
		if _, isStr := x.X.Type().Underlying().(*types.Basic); isStr {
			t.flow(m, r)
		} else {
			t.whenPts(m, func(o int) { t.flow(o, r); t.ptsFlow(o, r) })
		}
	case *ssa.MapUpdate:
		m, k, v := t.N(x.Map), t.N(x.Key), t.N(x.Value)
		t.whenPts(m, func(o int) {
			t.effFlow(k, o)
			t.effFlow(v, o)
			t.ptsFlow(v, o)
		})
	case *ssa.Range:
		t.copyRef(t.N(x.X), t.N(x))
	case *ssa.Next:
		r, it := t.N(x), t.N(x.Iter)
		t.flow(it, r)
		t.whenPts(it, func(o int) { t.flow(o, r); t.ptsFlow(o, r) })
	case *ssa.MakeClosure:
		fn := x.Fn.(*ssa.Function)
		for i, b := range x.Bindings {
			if i < len(fn.FreeVars) {
				t.copyRef(t.N(b), t.N(fn.FreeVars[i]))
			}
		}
	case *ssa.Return:
		rs := t.ret(f)
		for i, v := range x.Results {
			if _, isC := v.(*ssa.Const); isC {
				continue
			}
			t.copyRef(t.N(v), rs[i])
		}
	case *ssa.Send:
		ch, v := t.N(x.Chan), t.N(x.X)
		t.whenPts(ch, func(o int) { t.effFlow(v, o); t.ptsFlow(v, o) })
	case ssa.CallInstruction:
		t.call(f, x)
	}
}

// result node(s) of a call: for single results the call value itself; tuples via extract().
func (t *Taint) extract(f *ssa.Function, c *ssa.Call, ex *ssa.Extract) {
	r := t.N(ex)
	// module callees: index-sensitive
	callees := t.W.Callees(c)
	inMod := false
	for _, cal := range callees {
		if t.inSet[cal] {
			inMod = true
			t.copyRef(t.ret(cal)[ex.Index], r)
		}
	}
	if !inMod || len(callees) == 0 {
		if t.ExtErrClean != nil && isErrorType(ex.Type()) && t.ExtErrClean(CalleeName(c.Common())) {
			return
		}
		t.copyRef(t.N(c), r) // external: tuple node holds the joined result
	}
}

func (t *Taint) call(f *ssa.Function, ci ssa.CallInstruction) {
	cc := ci.Common()
	var res int = -1
	if v := ci.Value(); v != nil {
		res = t.N(v)
	}
	name := CalleeName(cc)
	args := cc.Args
	if cc.IsInvoke() {
		args = append([]ssa.Value{cc.Value}, cc.Args...)
	}
	// builtins
	if bu, ok := cc.Value.(*ssa.Builtin); ok {
		switch bu.Name() {
		case "len", "cap":
			return // declassified: lengths are public
		case "append":
			if res >= 0 && len(args) >= 1 {
				o := t.Obj("append:" + valID(ci.Value()))
				t.addPts(res, o)
				a0 := t.N(args[0])
				t.copyRef(a0, res)
				t.effFlow(a0, o)
				if len(args) > 1 {
					a1 := t.N(args[1])
					t.effFlow(a1, o)
					t.effFlow(a1, res)
					t.whenPts(a0, func(ob int) { t.effFlow(a1, ob) })
				}
			}
		case "copy":
			if len(args) == 2 {
				d, s := t.N(args[0]), t.N(args[1])
				t.whenPts(d, func(o int) { t.effFlow(s, o) })
			}
		case "min", "max":
			for _, a := range args {
				if res >= 0 {
					t.flow(t.N(a), res)
				}
			}
		case "String", "Slice", "StringData", "SliceData": // unsafe.*
			if res >= 0 && len(args) > 0 {
				t.copyRef(t.N(args[0]), res)
				t.effFlow(t.N(args[0]), res)
			}
		}
		return
	}
	if t.ExtOverride != nil {
		if l, ok := t.ExtOverride(ci); ok {
			if res >= 0 {
				o := t.Obj("ovr:" + valID(ci.Value()))
				t.addPts(res, o)
				if l != 0 {
					t.AddLabel(o, l)
					t.AddLabel(res, l)
				}
			}
			return
		}
	}
	if t.Source != nil {
		if l := t.Source(ci); l != 0 && res >= 0 {
			o := t.Obj("src:" + valID(ci.Value()))
			t.AddLabel(o, l)
			t.AddLabel(res, l)
			t.addPts(res, o)
			return
		}
	}
	// module callees
	callees := t.W.Callees(ci)
	handled := false
	for _, cal := range callees {
		if !t.inSet[cal] {
			continue
		}
		handled = true
		if len(cal.Params) == len(args) {
			for i, a := range args {
				if _, isC := a.(*ssa.Const); isC {
					continue
				}
				t.copyRef(t.N(a), t.N(cal.Params[i]))
			}
		}
		if res >= 0 && cal.Signature.Results().Len() == 1 {
			t.copyRef(t.ret(cal)[0], res)
		}
		if mc, ok := cc.Value.(*ssa.MakeClosure); ok && mc.Fn == cal {
			_ = mc // bindings handled at MakeClosure
		}
	}
	if handled {
		return
	}
	if name == "" {
		name = "dynamic"
	}
	if t.Declass != nil && t.Declass(name) {
		return
	}
	if t.ExtSink != nil && t.ExtSink(name) {
		return
	}
	if t.ExtReader != nil {
		if l, ok := t.ExtReader(name); ok {
			if res >= 0 {
				o := t.Obj("ext:" + valID(ci.Value()))
				t.AddLabel(o, l)
				t.AddLabel(res, l)
				t.addPts(res, o)
			}
			return
		}
	}
	// default transfer for calls out of the module
	var o = -1
	if res >= 0 {
		if isRefLike(ci.Value().Type()) {
			o = t.Obj("ext:" + valID(ci.Value()))
			t.addPts(res, o)
		}
		for _, a := range args {
			if _, isC := a.(*ssa.Const); isC {
				continue
			}
			an := t.N(a)
			t.effFlow(an, res)
			if o >= 0 {
				t.effFlow(an, o)
			}
		}
	}
	readonly := DefaultReadOnly(name) || extPure(name)
	if !readonly {
		for i, a := range args {
			if !isRefLike(a.Type()) {
				continue
			}
			if _, isC := a.(*ssa.Const); isC {
				continue
			}
			an := t.N(a)
			for j, b := range args {
				if i == j {
					continue
				}
				if _, isC := b.(*ssa.Const); isC {
					continue
				}
				bn := t.N(b)
				t.whenPts(an, func(ob int) { t.effFlow(bn, ob) })
			}
		}
	} else if cc.IsInvoke() || strings.HasPrefix(name, "(") {
		// a receiver absorbs what is written into it (hash.Write etc.)
		if len(args) > 0 && isRefLike(args[0].Type()) && (strings.HasSuffix(name, ".Write") || strings.HasSuffix(name, ".WriteString")) {
			rn := t.N(args[0])
			for _, b := range args[1:] {
				if _, isC := b.(*ssa.Const); isC {
					continue
				}
				bn := t.N(b)
				t.whenPts(rn, func(ob int) { t.effFlow(bn, ob) })
			}
		}
	}
}

// Solve runs the fix-point.
func (t *Taint) Solve() int {
	rounds := 0
	for len(t.work) > 0 {
		rounds++
		n := t.work[len(t.work)-1]
		t.work = t.work[:len(t.work)-1]
		t.inW[n] = false
		nd := t.nodes[n]
		for _, to := range nd.flow {
			t.AddLabel(to, nd.lab)
		}
		for _, to := range nd.ptsFlow {
			for o := range nd.pts {
				t.addPts(to, o)
			}
		}
		for _, fn := range t.onPts[n] {
			fn()
		}
	}
	return rounds
}
