package eng

// Rules shared by C01 (native HOTP derivation), C05 (OCRA derivation tail) and C20 (js/wasm
// derivation): the RFC 4226 pipeline as a composition of trusted primitives.

import (
	"fmt"
	"go/token"
	"go/types"
	"math/big"
	"strings"

	"golang.org/x/tools/go/ssa"
)

// ---- byte lanes (engine K) -----------------------------------------------------------------

type lane struct {
	zero bool
	src  string // term of the byte source (collection)
	idx  *Term  // index term
	top  bool   // unknown
}

type laneVal struct {
	l       [8]lane // l[0] = least significant byte
	bit31z  bool    // bit 31 known zero
	unknown bool
}

func zeroLanes() laneVal {
	var v laneVal
	for i := range v.l {
		v.l[i].zero = true
	}
	return v
}

func lanesOf(t *Term, depth int) laneVal {
	if depth > 40 {
		return laneVal{unknown: true}
	}
	switch t.Op {
	case "const":
		if x, ok := new(big.Int).SetString(t.Sym, 10); ok && x.Sign() == 0 {
			return zeroLanes()
		}
		return laneVal{unknown: true}
	case "index":
		v := zeroLanes()
		v.l[0] = lane{src: t.Args[0].String(), idx: t.Args[1]}
		return v
	case "conv":
		// widening handled as transparent by the term builder; a remaining conv narrows or changes sign
		in := lanesOf(t.Args[0], depth+1)
		if in.unknown {
			return in
		}
		n := 8
		switch t.Sym {
		case "uint32", "int32":
			n = 4
		case "uint16", "int16":
			n = 2
		case "uint8", "byte", "int8":
			n = 1
		case "uint64", "int64", "uint", "int":
			n = 8
		default:
			return laneVal{unknown: true}
		}
		for i := n; i < 8; i++ {
			in.l[i] = lane{zero: true}
		}
		return in
	case "bin":
		switch t.Sym {
		case "<<", ">>":
			k, ok := new(big.Int).SetString(t.Args[1].Sym, 10)
			if !t.Args[1].IsConst() || !ok || k.Int64()%8 != 0 || k.Int64() < 0 || k.Int64() > 56 {
				return laneVal{unknown: true}
			}
			in := lanesOf(t.Args[0], depth+1)
			if in.unknown {
				return in
			}
			sh := int(k.Int64() / 8)
			out := zeroLanes()
			for i := 0; i < 8; i++ {
				var j int
				if t.Sym == "<<" {
					j = i - sh
				} else {
					j = i + sh
				}
				if j >= 0 && j < 8 {
					out.l[i] = in.l[j]
				}
			}
			return out
		case "|", "+", "^":
			a, b := lanesOf(t.Args[0], depth+1), lanesOf(t.Args[1], depth+1)
			if a.unknown || b.unknown {
				return laneVal{unknown: true}
			}
			out := zeroLanes()
			for i := 0; i < 8; i++ {
				switch {
				case a.l[i].zero:
					out.l[i] = b.l[i]
				case b.l[i].zero:
					out.l[i] = a.l[i]
				default:
					return laneVal{unknown: true}
				}
			}
			return out
		case "&":
			var c, x *Term
			if t.Args[0].IsConst() {
				c, x = t.Args[0], t.Args[1]
			} else if t.Args[1].IsConst() {
				c, x = t.Args[1], t.Args[0]
			} else {
				return laneVal{unknown: true}
			}
			m, ok := new(big.Int).SetString(c.Sym, 10)
			if !ok {
				return laneVal{unknown: true}
			}
			in := lanesOf(x, depth+1)
			if in.unknown {
				return in
			}
			for i := 0; i < 8; i++ {
				byteMask := new(big.Int).And(new(big.Int).Rsh(m, uint(8*i)), big.NewInt(255)).Int64()
				switch byteMask {
				case 255:
				case 0:
					in.l[i] = lane{zero: true}
				case 127:
					if i == 3 {
						in.bit31z = true
					} else if !in.l[i].zero {
						in.l[i].top = true
					}
				default:
					if !in.l[i].zero {
						in.l[i].top = true
					}
				}
			}
			return in
		}
	case "call":
		if (t.Sym == "(encoding/binary.bigEndian).Uint32" || t.Sym == "(encoding/binary.bigEndian).Uint64") && len(t.Args) == 2 && t.Args[1].Op == "slice" {
			sl := t.Args[1]
			n := 4
			if strings.HasSuffix(t.Sym, "Uint64") {
				n = 8
			}
			out := zeroLanes()
			for i := 0; i < n; i++ {
				off := sl.Args[1]
				var idx *Term
				if off.Op == "none" {
					idx = mk("const", fmt.Sprint(i))
				} else if i == 0 {
					idx = off
				} else {
					idx = mk("bin", "+", off, mk("const", fmt.Sprint(i)))
				}
				out.l[n-1-i] = lane{src: sl.Args[0].String(), idx: idx}
			}
			return out
		}
	}
	return laneVal{unknown: true}
}

func termPlus(base *Term, k int) []string {
	if k == 0 {
		return []string{base.String()}
	}
	kc := mk("const", fmt.Sprint(k))
	return []string{mk("bin", "+", base, kc).String(), mk("bin", "+", kc, base).String()}
}

func inStrs(s string, xs []string) bool {
	for _, x := range xs {
		if x == s {
			return true
		}
	}
	return false
}

// ---- the derivation pipeline ---------------------------------------------------------------

type derivRoles struct {
	Key, Counter, Digits, Algo int // parameter indices in the derivation function (-1: n/a)
}

// roleTerms: the same roles as origin-term strings in the derivation's namespace ("" = not applicable).
type roleTerms struct {
	Key, Counter, Digits, Algo string
	CounterParam               *ssa.Parameter
	// AltCode recognises a returned code that is not produced by a module renderer f(number, digits):
	// it returns the number term and the length term.
	AltCode func(alt *Term) (num, digits *Term, ok bool)
	// ModOK judges a modulus term that is not simply the table entry ("" = acceptable).
	ModOK func(mod, table *Term) string
}

func (r derivRoles) terms(der *ssa.Function) roleTerms {
	P := func(i int) string {
		if i < 0 {
			return ""
		}
		return fmt.Sprintf("param(%s#%d)", FuncName(der), i)
	}
	rt := roleTerms{Key: P(r.Key), Counter: P(r.Counter), Digits: P(r.Digits), Algo: P(r.Algo)}
	if r.Counter >= 0 {
		rt.CounterParam = der.Params[r.Counter]
	}
	return rt
}

// sumCallIn finds the hash.Hash Sum invoke in f.
func sumCallsIn(f *ssa.Function) []*ssa.Call {
	var out []*ssa.Call
	EachInstr(f, func(in ssa.Instruction) {
		if c, ok := in.(*ssa.Call); ok && CalleeName(c.Common()) == "(hash.Hash).Sum" {
			out = append(out, c)
		}
	})
	return out
}

// hashTable evaluates the constructor table: index -> name of the hash constructor handed to hmac.New.
// The table is a package-level array of structs whose function-valued field is called with the key.
func hashTableOf(w *World, tb *TB, tableSym, field string) (map[int]string, map[int]bool, error) {
	res := map[int]string{}
	keyOK := map[int]bool{}
	e, info := w.GlobalInit(OtpPath, strings.TrimPrefix(tableSym, "otp."))
	if e == nil {
		return nil, nil, fmt.Errorf("no initialiser")
	}
	lit := EvalLit(e, info)
	if lit == nil || lit.Kind != "list" {
		return nil, nil, fmt.Errorf("not an array literal")
	}
	for i, el := range lit.Elems {
		if el == nil || el.Kind != "struct" {
			// the element is built by a helper (newHMACPool(sha1.New)): read the package initialiser's store
			res[i] = "?"
			if name, key, ok := hashEntryFromInit(w, tb, tableSym, field, i); ok {
				res[i] = name
				keyOK[i] = key
			}
			continue
		}
		fl := el.Field(field)
		fn := litFunc(w, OtpPath, fl)
		if fn == nil {
			res[i] = "?"
			continue
		}
		r := tb.Results(fn, nil, nil, 0)
		if len(r) != 1 {
			res[i] = "?"
			continue
		}
		t := r[0]
		if t.Op == "call" && t.Sym == "crypto/hmac.New" && len(t.Args) == 2 && t.Args[0].Op == "fn" {
			res[i] = t.Args[0].Sym
			keyOK[i] = t.Args[1].String() == fmt.Sprintf("param(%s#0)", FuncName(fn))
		} else {
			res[i] = "?" + t.String()
		}
	}
	return res, keyOK, nil
}

// hashEntryFromInit: element i of the constructor table as the package initialiser stores it: the value stored at
// table[i] (whole struct, helper calls expanded) or table[i].field; its constructor closure, with captures bound,
// must return hmac.New(<hash constructor>, key).
func hashEntryFromInit(w *World, tb *TB, tableSym, field string, i int) (string, bool, bool) {
	var ft *Term
	// the initialiser may fill a local array and store it into the table as a whole
	tmp := map[ssa.Value]bool{}
	for _, f := range w.ModuleFuncs(OtpPath) {
		if !isInit(f) {
			continue
		}
		EachInstr(f, func(in ssa.Instruction) {
			if st, ok := in.(*ssa.Store); ok {
				if g, isG := st.Addr.(*ssa.Global); isG && valID(g) == tableSym {
					if ld, isLd := st.Val.(*ssa.UnOp); isLd && ld.Op == token.MUL {
						if a, isA := ld.X.(*ssa.Alloc); isA {
							tmp[a] = true
						}
					}
				}
			}
		})
	}
	for _, f := range w.ModuleFuncs(OtpPath) {
		if !isInit(f) {
			continue
		}
		EachInstr(f, func(in ssa.Instruction) {
			st, ok := in.(*ssa.Store)
			if !ok {
				return
			}
			at := tb.Of(st.Addr)
			// iaddr(table; const(i))   or   faddr(field; iaddr(table; const(i))), table = the global or the local array stored into it
			isElem := func(x *Term) bool {
				if x.Op != "iaddr" || len(x.Args) != 2 || !x.Args[1].IsConst() || x.Args[1].Sym != fmt.Sprint(i) {
					return false
				}
				r := x.Args[0]
				return (r.Op == "global" && r.Sym == tableSym) || (r.Op == "alloc" && r.Val != nil && tmp[r.Val])
			}
			switch {
			case isElem(at):
				v := tb.Expand(tb.Of(st.Val), 2)
				if v.Op == "struct" || v.Op == "structover" {
					ft = tb.fieldOf(v, field, nil)
				}
			case at.Op == "faddr" && at.Sym == field && len(at.Args) == 1 && isElem(at.Args[0]):
				ft = tb.Of(st.Val)
			}
		})
	}
	if ft == nil {
		return "", false, false
	}
	var fn *ssa.Function
	var free []*Term
	switch ft.Op {
	case "closure":
		if mc, ok := ft.Val.(*ssa.MakeClosure); ok {
			fn, _ = mc.Fn.(*ssa.Function)
			free = ft.Args
		}
	case "fn":
		fn, _ = ft.Val.(*ssa.Function)
	}
	if fn == nil || len(fn.Params) != 1 {
		return "", false, false
	}
	key := mk("param", fmt.Sprintf("%s#0", FuncName(fn)))
	r := tb.Results(fn, []*Term{key}, free, 0)
	if len(r) != 1 {
		return "", false, false
	}
	t := r[0]
	if t.Op == "call" && t.Sym == "crypto/hmac.New" && len(t.Args) == 2 && t.Args[0].Op == "fn" {
		return t.Args[0].Sym, t.Args[1].String() == key.String(), true
	}
	return "?" + clip(t.String(), 80), false, true
}

var wantHash = map[int64]string{0: "crypto/sha1.New", 1: "crypto/sha256.New", 2: "crypto/sha512.New"}

// checkModTable (R.1): the modulus table entry d is 10^d for d<=9 and >= 2^31 for d = 10.
func checkModTable(c *Check, w *World, rule, tableName string, lo, hi int) []*big.Int {
	tab, err := w.IntTable(OtpPath, tableName)
	if err != nil {
		c.Unk(rule, "otp."+tableName, "table", "modulus table cannot be evaluated: "+err.Error(), "")
		return nil
	}
	two31 := new(big.Int).Lsh(bi(1), 31)
	for d := lo; d <= hi; d++ {
		construct := fmt.Sprintf("%s[%d]", tableName, d)
		if d >= len(tab) {
			c.Bad(rule, "otp."+tableName, construct, "table has no entry for this code length", "")
			continue
		}
		want := new(big.Int).Exp(bi(10), bi(int64(d)), nil)
		got := tab[d]
		ok := got.Cmp(want) == 0
		if want.Cmp(two31) >= 0 && got.Cmp(two31) >= 0 {
			ok = true // every modulus >= 2^31 is the identity on a 31-bit value
		}
		c.Decide(ok, rule, "otp."+tableName, construct, fmt.Sprintf("entry is 10^%d (or >= 2^31, the identity on a 31-bit value)", d), fmt.Sprintf("entry is %s, not 10^%d = %s: every %d-digit code whose truncated value is >= %s is wrong", got, d, want, d, minB(got, want)), "")
	}
	return tab
}

// checkTruncation (R.7): the code number is (sum[o..o+3] big-endian) & 0x7fffffff with o = sum[len-1] & 0x0f,
// reduced modulo the modulus without narrowing.
// numT is the term of the number handed to the renderer, expressed over sumT (term of the HMAC output) and modT.
func checkTruncation(c *Check, w *World, rule, fn string, numT, sumT, modT *Term, pos string, modOK func(mod, table *Term) string) {
	t := numT
	// strip value-changing-free outer conversion to uint32 (the value is < 2^31 after the modulo)
	if t.Op == "conv" && (t.Sym == "uint32" || t.Sym == "uint64" || t.Sym == "int" || t.Sym == "int64") {
		t = t.Args[0]
	}
	if t.Op != "bin" || t.Sym != "%" {
		c.Unk(rule, fn, "reduction", "the code number is not of the form (value %% modulus): "+clip(t.String(), 200), pos)
		return
	}
	val, mod := t.Args[0], t.Args[1]
	if mod.String() != modT.String() && modOK != nil {
		if why := modOK(mod, modT); why != "" {
			c.Bad(rule, fn, "reduction-modulus", why, pos)
		} else {
			c.OK(rule, fn, "reduction-modulus", "reduced modulo the table entry or an equivalent power of ten, unnarrowed", pos)
		}
	} else if mod.String() != modT.String() {
		if mod.ContainsStr(modT.String()) && mod.Op == "conv" {
			c.Bad(rule, fn, "reduction-modulus", "the modulus passes through a narrowing conversion ("+mod.Sym+") before the reduction: 10^10 does not fit and 10-digit codes are reduced by a wrong modulus", pos)
		} else {
			c.Bad(rule, fn, "reduction-modulus", "the reduction does not use the per-length modulus unchanged: "+clip(mod.String(), 160), pos)
		}
	} else {
		c.OK(rule, fn, "reduction-modulus", "reduced modulo the per-length table entry, unmodified, in 64-bit arithmetic", pos)
	}
	val = beAccumLoops(val)
	lv := lanesOf(val, 0)
	if lv.unknown {
		c.Unk(rule, fn, "dynamic-truncation", "the 31-bit value is not a recognised composition of four HMAC bytes: "+clip(val.String(), 200), pos)
		return
	}
	off := mk("bin", "&", mk("const", "15"), mk("index", "", sumT, mk("bin", "-", mk("len", "", sumT), mk("const", "1"))))
	offAlt := lenOf(sumT)
	_ = offAlt
	offStrs := []string{off.String()}
	// accept len(sum)-1 written with the operands in either order of the commutative '&'
	okAll := lv.bit31z
	why := ""
	if !lv.bit31z {
		why = "bit 31 is not cleared (mask 0x7fffffff missing or different)"
	}
	for i := 0; i < 4; i++ {
		ln := lv.l[3-i]
		if ln.zero || ln.top || ln.src != sumT.String() {
			okAll = false
			why = fmt.Sprintf("byte %d of the value does not come from the HMAC output unmodified", i)
			break
		}
		match := false
		for _, o := range offStrs {
			_ = o
		}
		for _, s := range termPlus(off, i) {
			if ln.idx.String() == s {
				match = true
			}
		}
		if !match {
			okAll = false
			why = fmt.Sprintf("byte %d (from the most significant) is sum[%s], expected sum[(sum[len-1] & 0x0f) + %d]", i, clip(ln.idx.String(), 120), i)
			break
		}
	}
	for i := 4; i < 8; i++ {
		if !lv.l[i].zero {
			okAll = false
			why = "more than four bytes enter the value"
		}
	}
	c.Decide(okAll, rule, fn, "dynamic-truncation", "value = sum[o]<<24 | sum[o+1]<<16 | sum[o+2]<<8 | sum[o+3], o = sum[len-1] & 0x0f, bit 31 cleared", "dynamic truncation differs from RFC 4226 §5.3: "+why, pos)
}

// beAccumLoops rewrites the big-endian accumulation loop
//
//	var w uintN; for i := start; i < start+k; i++ { w = w<<8 | uintN(src[i]) }
//
// (k a constant 1..8, the loop's only exit the counted test) into the unrolled term
// src[start]<<8(k-1) | … | src[start+k-1], which the byte-lane abstraction reads. Recognised structurally on the loop's
// SSA form (accumulator phi 0 / w<<8|byte, index phi start / +1, test i < start+k); nothing is executed.
func beAccumLoops(t *Term) *Term {
	if t == nil {
		return t
	}
	if t.Op == "phi" {
		if r := beAccumLoop(t); r != nil {
			return r
		}
	}
	changed := false
	args := make([]*Term, len(t.Args))
	for i, a := range t.Args {
		args[i] = beAccumLoops(a)
		if args[i] != a {
			changed = true
		}
	}
	if !changed {
		return t
	}
	return &Term{Op: t.Op, Sym: t.Sym, Args: args, Val: t.Val, Typ: t.Typ, Env: t.Env}
}

func beAccumLoop(t *Term) *Term {
	ph, ok := t.Val.(*ssa.Phi)
	if !ok || len(ph.Edges) != 2 || len(t.Args) != 2 {
		return nil
	}
	h := ph.Block()
	// SSA shape: edges (init 0, back w<<8|conv(load src[i]))
	var back *ssa.BinOp
	for i, e := range ph.Edges {
		if h.Dominates(h.Preds[i]) {
			back, _ = e.(*ssa.BinOp)
		} else if !isConstInt(e, 0) {
			return nil
		}
	}
	if back == nil || back.Op != token.OR {
		return nil
	}
	var shl *ssa.BinOp
	var byteV ssa.Value
	for k := 0; k < 2; k++ {
		x, y := back.X, back.Y
		if k == 1 {
			x, y = y, x
		}
		if s, ok := x.(*ssa.BinOp); ok && s.Op == token.SHL && s.X == ssa.Value(ph) && isConstInt(s.Y, 8) {
			shl, byteV = s, y
		}
	}
	if shl == nil {
		return nil
	}
	// the index: an induction variable of the same loop, step +1, test i < init + k
	iff, ok := h.Instrs[len(h.Instrs)-1].(*ssa.If)
	if !ok {
		return nil
	}
	cond, ok := iff.Cond.(*ssa.BinOp)
	if !ok || cond.Op != token.LSS {
		return nil
	}
	iv, ok := cond.X.(*ssa.Phi)
	if !ok || iv.Block() != h {
		return nil
	}
	ind := InductionOf(iv)
	if ind == nil || ind.Step != 1 || len(ind.Inits) != 1 {
		return nil
	}
	bnd, ok := cond.Y.(*ssa.BinOp)
	if !ok || bnd.Op != token.ADD {
		return nil
	}
	var kc *big.Int
	switch {
	case bnd.X == ind.Inits[0]:
		kc, _ = constInt(bnd.Y)
	case bnd.Y == ind.Inits[0]:
		kc, _ = constInt(bnd.X)
	}
	if kc == nil || kc.Sign() <= 0 || kc.Int64() > 8 {
		return nil
	}
	// the loop has no other exit and the accumulator no other update
	body := naturalLoop(h)
	for b := range body {
		if b == h {
			continue
		}
		for _, sc := range b.Succs {
			if !body[sc] {
				return nil
			}
		}
	}
	// term side: the alternative that is not 0 is bin(|; bin(<<; cycle; 8); E) with E reading src at the index term
	var upd *Term
	for _, a := range t.Args {
		if !(a.IsConst() && a.Sym == "0") {
			upd = a
		}
	}
	if upd == nil || upd.Op != "bin" || upd.Sym != "|" {
		return nil
	}
	var e *Term
	for k := 0; k < 2; k++ {
		x, y := upd.Args[k], upd.Args[1-k]
		if x.Op == "bin" && x.Sym == "<<" && x.Args[0].Op == "cycle" && x.Args[1].IsConst() && x.Args[1].Sym == "8" {
			e = y
		}
	}
	if e == nil {
		return nil
	}
	// find index(src; I) inside e and the induction term I = phi(start; cycle+1)
	var idxNode *Term
	e.Walk(func(x *Term) bool {
		if x.Op == "index" && len(x.Args) == 2 && idxNode == nil {
			idxNode = x
		}
		return idxNode == nil
	})
	if idxNode == nil || idxNode.Args[1].Op != "phi" {
		return nil
	}
	_ = byteV
	var start *Term
	for _, a := range idxNode.Args[1].Args {
		if !a.ContainsStr("cycle(") {
			start = a
		}
	}
	if start == nil {
		return nil
	}
	k := int(kc.Int64())
	var out *Term
	for j := 0; j < k; j++ {
		idx := start
		if j > 0 {
			idx = mk("bin", "+", start, mk("const", fmt.Sprint(j)))
		}
		// e with its index replaced by start+j
		bj := substIndex(e, idxNode, mk("index", "", idxNode.Args[0], idx))
		term := bj
		if sh := 8 * (k - 1 - j); sh > 0 {
			term = mk("bin", "<<", bj, mk("const", fmt.Sprint(sh)))
		}
		if out == nil {
			out = term
		} else {
			out = mk("bin", "|", out, term)
		}
	}
	return out
}

func substIndex(t, from, to *Term) *Term {
	if t == from {
		return to
	}
	changed := false
	args := make([]*Term, len(t.Args))
	for i, a := range t.Args {
		args[i] = substIndex(a, from, to)
		if args[i] != a {
			changed = true
		}
	}
	if !changed {
		return t
	}
	return &Term{Op: t.Op, Sym: t.Sym, Args: args, Val: t.Val, Typ: t.Typ, Env: t.Env}
}

func clip(s string, n int) string {
	if len(s) > n {
		return s[:n] + "…"
	}
	return s
}

// ---- decimal rendering (R.8) ---------------------------------------------------------------

// checkRenderer verifies that f(number, digits) returns exactly `digits` characters: the decimal
// digits of number, most significant first, left-padded with '0'.
func checkRenderer(c *Check, w *World, tb *TB, iv *IV, rule string, f *ssa.Function) {
	checkRendererSeen(c, w, tb, iv, rule, f, map[*ssa.Function]bool{})
}

func checkRendererSeen(c *Check, w *World, tb *TB, iv *IV, rule string, f *ssa.Function, seen map[*ssa.Function]bool) {
	if seen[f] {
		return
	}
	seen[f] = true
	fn := FuncName(f)
	pos := w.Pos(f.Pos())
	if len(f.Params) != 2 {
		c.Unk(rule, fn, "renderer-shape", "renderer does not take (number, digits)", pos)
		return
	}
	numP, digP := f.Params[0], f.Params[1]
	if _, isInt, _ := intInfoOK(numP.Type(), w); !isInt {
		c.Unk(rule, fn, "renderer-shape", "first parameter is not an integer", pos)
		return
	}
	digT := tb.Of(digP)
	// 1. result length
	res := tb.Results(f, nil, nil, 0)
	if len(res) != 1 {
		c.Unk(rule, fn, "renderer-shape", "renderer does not return one value", pos)
		return
	}
	rt := res[0]
	// pure delegation: return g(number, digits) with g another module renderer
	if cl, ok := rt.Val.(*ssa.Call); ok && rt.Op == "call" && len(rt.Args) == 2 && cl.Call.StaticCallee() != nil && w.InModule(cl.Call.StaticCallee()) &&
		rt.Args[0].String() == tb.Of(numP).String() && rt.Args[1].String() == digT.String() && len(seen) < 4 {
		g := cl.Call.StaticCallee()
		c.OK(rule, fn, "length", "delegates to "+FuncName(g)+"(number, digits), which is checked as the renderer", pos)
		checkRendererSeen(c, w, tb, iv, rule, g, seen)
		return
	}
	for rt.Op == "conv" || (rt.Op == "call" && len(rt.Args) == 1) {
		if rt.Op == "call" {
			// in-module view helper (unsafeString): must be the identity on content
			if cl, ok := rt.Val.(*ssa.Call); !ok || cl.Call.StaticCallee() == nil || !w.InModule(cl.Call.StaticCallee()) {
				break
			}
		}
		rt = rt.Args[0]
	}
	var buf ssa.Value
	lenOK := false
	switch rt.Op {
	case "makeslice":
		lenOK = rt.Args[0].String() == digT.String()
		buf = rt.Val
	case "slice":
		lo, hi := rt.Args[1], rt.Args[2]
		lenOK = (lo.Op == "none" || (lo.IsConst() && lo.Sym == "0")) && hi.String() == digT.String()
		if rt.Args[0].Op == "alloc" {
			buf = rt.Args[0].Val
		}
	}
	c.Decide(lenOK && buf != nil, rule, fn, "length", "the result is the whole buffer of exactly `digits` bytes", "the result is not a buffer of exactly `digits` bytes: "+clip(rt.String(), 160), pos)
	if buf == nil {
		return
	}
	// the digits may be written by one module helper handed the whole buffer, the digits and the number
	D0 := DerivedSet([]ssa.Value{buf})
	direct := 0
	var helpers []*ssa.Call
	EachInstr(f, func(in ssa.Instruction) {
		if st, ok := in.(*ssa.Store); ok && D0[st.Addr] {
			direct++
		}
		if cl, ok := in.(*ssa.Call); ok && cl.Call.StaticCallee() != nil && w.InModule(cl.Call.StaticCallee()) {
			for i, a := range cl.Call.Args {
				if D0[a] && tb.WritesParam != nil && tb.WritesParam(cl.Call.StaticCallee(), i) {
					helpers = append(helpers, cl)
				}
			}
		}
	})
	if len(helpers) > 0 {
		if direct > 0 || len(helpers) != 1 {
			c.Unk(rule, fn, "buffer-store", "the digit buffer is written both directly and by helpers, or by several helpers", pos)
			return
		}
		cl := helpers[0]
		g := cl.Call.StaticCallee()
		var gbuf, gnum, gdig *ssa.Parameter
		for i, a := range cl.Call.Args {
			at := tb.Of(a)
			switch {
			case D0[a]:
				whole := a == buf
				if at.Op == "slice" && at.Args[1].Op == "none" && at.Args[2].Op == "none" {
					whole = true
				}
				if whole && gbuf == nil {
					gbuf = g.Params[i]
				} else {
					gbuf = nil
					c.Unk(rule, fn, "buffer-store", "the helper is handed a part of the digit buffer: "+clip(at.String(), 100), w.InstrPos(cl))
					return
				}
			case at.String() == digT.String():
				gdig = g.Params[i]
			case at.String() == tb.Of(numP).String():
				gnum = g.Params[i]
			}
		}
		if gbuf == nil || gnum == nil || gdig == nil || g.Signature.Results().Len() != 0 {
			c.Unk(rule, fn, "buffer-store", "the digit-writing helper "+FuncName(g)+" is not handed (buffer, digits, number)", w.InstrPos(cl))
			return
		}
		// the helper runs on every path to the return of the buffer
		okDom := true
		for _, r := range Returns(f) {
			if !(cl.Block() == r.Block() || cl.Block().Dominates(r.Block())) {
				okDom = false
			}
		}
		c.Decide(okDom, rule, fn, "buffer-store", "the digits are written by "+FuncName(g)+"(buffer, digits, number) on every path", "the digit-writing helper does not run on every path to the result", w.InstrPos(cl))
		checkFill(c, w, tb, rule, g, gbuf, tb.Of(gnum), tb.Of(gdig))
		return
	}
	checkFill(c, w, tb, rule, f, buf, tb.Of(numP), digT)
}

// checkFill: inside f, buf[digits-1 … 0] receive the decimal digits of num, least significant last, every
// position once, before f returns.
func checkFill(c *Check, w *World, tb *TB, rule string, f *ssa.Function, buf ssa.Value, numT, digT *Term) {
	fn := FuncName(f)
	pos := w.Pos(f.Pos())
	// 2. stores into the buffer
	D := DerivedSet([]ssa.Value{buf})
	type bstore struct {
		st  *ssa.Store
		idx ssa.Value
	}
	var stores []bstore
	EachInstr(f, func(in ssa.Instruction) {
		st, ok := in.(*ssa.Store)
		if !ok || !D[st.Addr] {
			return
		}
		ia, ok := st.Addr.(*ssa.IndexAddr)
		if !ok {
			c.Unk(rule, fn, "buffer-store", "a store into the digit buffer is not an indexed store", w.InstrPos(in))
			return
		}
		stores = append(stores, bstore{st, ia.Index})
	})
	if len(stores) == 0 {
		c.Bad(rule, fn, "buffer-store", "nothing is ever stored into the result buffer", pos)
		return
	}
	okVals := true
	for _, s := range stores {
		vt := tb.Of(s.st.Val)
		// '0' + conv(x % 10)   or   conv('0' + x % 10)   or   '0'
		str := vt
		for str.Op == "conv" {
			str = str.Args[0]
		}
		good := false
		if str.IsConst() && str.Sym == "48" {
			good = true
		} else if str.Op == "bin" && str.Sym == "+" {
			a, b := str.Args[0], str.Args[1]
			if b.IsConst() && b.Sym == "48" {
				a, b = b, a
			}
			for b.Op == "conv" {
				b = b.Args[0]
			}
			if a.IsConst() && a.Sym == "48" && b.Op == "bin" && b.Sym == "%" && b.Args[1].IsConst() && b.Args[1].Sym == "10" {
				// the dividend must be the running number: phi(number, x/10)
				x := b.Args[0]
				if isDecimalRunner(x, numT) {
					good = true
				}
			}
		}
		if !good {
			okVals = false
			c.Bad(rule, fn, "digit-value", "a byte stored into the code is not '0' or '0' + (number/10^k) % 10: "+clip(vt.String(), 160), w.InstrPos(s.st))
		}
	}
	if okVals {
		c.OK(rule, fn, "digit-value", fmt.Sprintf("all %d stores write '0' or '0'+(running number %% 10), running number = number, number/10, …", len(stores)), pos)
	}
	// 3. index web: descending unit-stride induction starting at digits-1
	okIdx := true
	webPhis := map[*ssa.Phi]bool{}
	for _, s := range stores {
		ph, ok := s.idx.(*ssa.Phi)
		if !ok {
			okIdx = false
			c.Bad(rule, fn, "index-web", "a digit is stored at an index that is not a loop counter: "+clip(tb.Of(s.idx).String(), 120), w.InstrPos(s.st))
			continue
		}
		if why := descendingFrom(ph, digT, tb, webPhis, 0); why != "" {
			okIdx = false
			c.Bad(rule, fn, "index-web", "digit positions are not written from position digits-1 downwards in steps of one: "+why, w.InstrPos(s.st))
		}
	}
	// each decrement of a web phi happens in a block that stores at that index first
	for ph := range webPhis {
		for i, e := range ph.Edges {
			pred := ph.Block().Preds[i]
			if !ph.Block().Dominates(pred) {
				continue
			}
			bo, ok := e.(*ssa.BinOp)
			if !ok {
				continue
			}
			stored := false
			for _, s := range stores {
				if s.idx == ssa.Value(ph) && (s.st.Block() == bo.Block() || s.st.Block().Dominates(bo.Block())) && ph.Block().Dominates(s.st.Block()) {
					stored = true
				}
			}
			if !stored {
				okIdx = false
				c.Bad(rule, fn, "index-web", "a position is skipped: the index is decremented on a loop iteration that stores nothing at it", w.InstrPos(bo))
			}
		}
	}
	// 4. completeness: the result is produced only after some web index is exhausted (< 0)
	exhausted := false
	for _, r := range Returns(f) {
		for _, at := range atomsOf(CondsAt(r.Block())) {
			if ph, ok := at.X.(*ssa.Phi); ok && webPhis[ph] {
				if k, ok := constInt(at.Y); ok && ((at.Op == token.LSS && k.Sign() == 0) || (at.Op == token.LEQ && k.Int64() == -1)) {
					exhausted = true
				}
			}
		}
	}
	if !exhausted {
		okIdx = false
		c.Bad(rule, fn, "index-web", "the result can be returned before the position index reached -1: leading positions may stay unwritten", pos)
	}
	if okIdx {
		c.OK(rule, fn, "index-web", "positions digits-1 … 0 are each written once, least significant digit first, and the result is returned only when the index is exhausted", pos)
	}
}

// isDecimalRunner: x is phi(number, x/10) (possibly through further phis of consecutive loops).
func isDecimalRunner(x, num *Term) bool {
	if x.String() == num.String() {
		return true
	}
	if x.Op != "phi" && x.Op != "ite" {
		return false
	}
	for _, a := range x.Alts() {
		switch {
		case a.String() == num.String():
		case a.Op == "bin" && a.Sym == "/" && a.Args[1].IsConst() && a.Args[1].Sym == "10" && (a.Args[0].Op == "cycle" || isDecimalRunner(a.Args[0], num)):
		case a.Op == "cycle":
		default:
			return false
		}
	}
	return true
}

// descendingFrom: ph is a decreasing unit-step induction whose initial value is digits-1 or another such phi.
func descendingFrom(ph *ssa.Phi, digT *Term, tb *TB, web map[*ssa.Phi]bool, depth int) string {
	if web[ph] {
		return ""
	}
	if depth > 4 {
		return "index chain too deep"
	}
	ind := InductionOf(ph)
	if ind == nil || ind.Mono >= 0 || ind.Step != -1 {
		return "index " + ph.Name() + " is not decremented by exactly one per iteration"
	}
	web[ph] = true
	for _, in := range ind.Inits {
		if p2, ok := in.(*ssa.Phi); ok {
			if why := descendingFrom(p2, digT, tb, web, depth+1); why != "" {
				return why
			}
			continue
		}
		t := tb.Of(in)
		want := mk("bin", "-", digT, mk("const", "1")).String()
		if t.String() != want {
			return "index starts at " + clip(t.String(), 80) + ", not at digits-1"
		}
	}
	return ""
}

// ---- gates ---------------------------------------------------------------------------------

// checkIndexGate: at a table index site the index interval is within [lo,hi] and the refusing
// edge of the gate returns an error without a code.
func checkIndexGate(c *Check, w *World, iv *IV, rule, fn, construct string, idx ssa.Value, at ssa.Instruction, lo, hi int64, what string) bool {
	it := iv.At(idx, at.Block())
	ok := it.Within(lo, hi)
	c.Decide(ok, rule, fn, construct, fmt.Sprintf("%s is within [%d,%d] at the table index (interval %s from the dominating range gate)", what, lo, hi, it), fmt.Sprintf("%s can be %s at the table index, outside [%d,%d]: an unsupported value is not refused before it is used (panic or wrong table entry instead of an error)", what, it, lo, hi), w.InstrPos(at))
	return ok
}

// errorOnlyReturns: every return reachable through blocks where cond-refusal holds returns ("", non-nil) — approximated:
// a block whose only way out is a Return with a non-nil sentinel error and an empty/zero first result.
func refusalReturnsError(tb *TB, b *ssa.BasicBlock, sent map[string]bool) bool {
	r, ok := b.Instrs[len(b.Instrs)-1].(*ssa.Return)
	if !ok {
		if len(b.Succs) == 1 {
			return refusalReturnsError(tb, b.Succs[0], sent)
		}
		return false
	}
	if len(r.Results) < 2 {
		return false
	}
	last := r.Results[len(r.Results)-1]
	return nonNilAt(tb, last, CondsAt(b), sent, 0) || tb.Of(last).Op == "gval" && sent[tb.Of(last).Sym] || resolvesToSentinel(tb, last, b, sent)
}

func resolvesToSentinel(tb *TB, v ssa.Value, b *ssa.BasicBlock, sent map[string]bool) bool {
	// results spilled by defer: the value stored into the result cell in this block
	u, ok := v.(*ssa.UnOp)
	if !ok {
		return false
	}
	a, ok := u.X.(*ssa.Alloc)
	if !ok {
		return false
	}
	var lastStore *ssa.Store
	for _, in := range b.Instrs {
		if st, ok := in.(*ssa.Store); ok && st.Addr == ssa.Value(a) {
			lastStore = st
		}
	}
	if lastStore == nil {
		return false
	}
	t := tb.Of(lastStore.Val)
	return (t.Op == "gval" && sent[t.Sym]) || (t.Op == "call" && errConstructors[t.Sym])
}

var _ = types.Typ
