// Package eng holds the static-analysis engines and the per-property rules of the
// otp verification framework. Nothing here executes code of /repo: every rule inspects
// the type-checked program, its SSA form, its call graph or its constant tables.
package eng

import (
	"crypto/sha1"
	"encoding/hex"
	"encoding/json"
	"fmt"
	"os"
	"path/filepath"
	"sort"
	"strings"
	"time"
)

type Status int

const (
	Discharged Status = iota
	Violated
	Undecided
)

func (s Status) String() string {
	switch s {
	case Discharged:
		return "discharged"
	case Violated:
		return "violated"
	}
	return "undecided"
}

// Obligation is one rule instance. Its identity is rule|function|construct — never a line.
type Obligation struct {
	Rule      string `json:"rule"`
	Config    string `json:"config"`
	Func      string `json:"func"`
	Construct string `json:"construct"`
	Status    string `json:"status"`
	Reason    string `json:"reason"`
	Pos       string `json:"pos,omitempty"`
	st        Status
}

func (o *Obligation) Key() string { return o.Rule + "|" + o.Func + "|" + o.Construct }

// Check is the context one property check runs in.
type Check struct {
	Property    string
	Tier        string
	Level       string
	Explanation string
	Trusted     []string
	Assumptions []string
	Floors      map[string]int // rule -> minimum number of instances (per configuration)
	Obls        []*Obligation
	Notes       []string
	Extra       map[string]any
	Configs     []string
	Analysed    map[string]int // counters: functions, call sites, ...
	start       time.Time
	cur         string // current configuration
	fatal       []string
	requires    [][3]any
}

func NewCheck(prop, tier string) *Check {
	return &Check{Property: prop, Tier: tier, Level: "other", Floors: map[string]int{}, Extra: map[string]any{},
		Analysed: map[string]int{}, start: time.Now()}
}

func (c *Check) SetConfig(name string) {
	c.cur = name
	for _, x := range c.Configs {
		if x == name {
			return
		}
	}
	c.Configs = append(c.Configs, name)
}

func (c *Check) add(rule, fn, construct string, st Status, reason, pos string) *Obligation {
	o := &Obligation{Rule: rule, Config: c.cur, Func: fn, Construct: construct, Status: st.String(), Reason: reason, Pos: pos, st: st}
	c.Obls = append(c.Obls, o)
	return o
}

func (c *Check) OK(rule, fn, construct, reason, pos string) {
	c.add(rule, fn, construct, Discharged, reason, pos)
}
func (c *Check) Bad(rule, fn, construct, reason, pos string) {
	c.add(rule, fn, construct, Violated, reason, pos)
}
func (c *Check) Unk(rule, fn, construct, reason, pos string) {
	c.add(rule, fn, construct, Undecided, reason, pos)
}

// Decide records ok→discharged, else violated.
func (c *Check) Decide(ok bool, rule, fn, construct, okReason, badReason, pos string) {
	if ok {
		c.OK(rule, fn, construct, okReason, pos)
	} else {
		c.Bad(rule, fn, construct, badReason, pos)
	}
}

// Fatal records a machinery failure (unresolved anchor, loader failure). The check fails.
func (c *Check) Fatal(format string, a ...any) {
	c.fatal = append(c.fatal, fmt.Sprintf(format, a...))
}

func (c *Check) Note(format string, a ...any) { c.Notes = append(c.Notes, fmt.Sprintf(format, a...)) }
func (c *Check) Count(what string, n int)     { c.Analysed[what] += n }
func (c *Check) Floor(rule string, n int)     { c.Floors[rule] = n }

// Require: at least n obligations of rule with this construct must exist (named anchors).
func (c *Check) Require(rule, construct string, n int) {
	c.requires = append(c.requires, [3]any{rule, construct, n})
}

// ---- known findings ------------------------------------------------------------------------

type Finding struct {
	Property string `json:"property"`
	Status   string `json:"status"` // "known" (suppresses the VIOLATION, prints KNOWN-FINDING) or "fixed" (suppresses nothing)
	Key      string `json:"key"`    // rule|func|construct
	Commit   string `json:"commit,omitempty"`
	What     string `json:"what"`
}

type findingsFile struct {
	Findings []Finding `json:"findings"`
}

func loadFindings(root string) []Finding {
	b, err := os.ReadFile(filepath.Join(root, "known_findings.json"))
	if err != nil {
		return nil
	}
	var f findingsFile
	if err := json.Unmarshal(b, &f); err != nil {
		fmt.Fprintf(os.Stderr, "known_findings.json unreadable: %v\n", err)
		os.Exit(3)
	}
	return f.Findings
}

// ---- finishing -----------------------------------------------------------------------------

type evidence struct {
	PropertyID  string         `json:"property_id"`
	Tier        string         `json:"tier"`
	Seed        int            `json:"seed"`
	Level       string         `json:"level"`
	Coverage    map[string]any `json:"coverage"`
	Assumptions []string       `json:"assumptions"`
	WallS       float64        `json:"wall_s"`
	Violations  int            `json:"violations"`
}

// Finish writes the evidence, prints the report and returns the exit code.
func (c *Check) Finish(root string, seed int) int {
	// floors: per configuration, per rule
	perRuleCfg := map[string]map[string]int{}
	for _, o := range c.Obls {
		if perRuleCfg[o.Rule] == nil {
			perRuleCfg[o.Rule] = map[string]int{}
		}
		perRuleCfg[o.Rule][o.Config]++
	}
	rulesSorted := make([]string, 0, len(c.Floors))
	for r := range c.Floors {
		rulesSorted = append(rulesSorted, r)
	}
	sort.Strings(rulesSorted)
	for _, r := range rulesSorted {
		min := c.Floors[r]
		total := 0
		for _, n := range perRuleCfg[r] {
			total += n
		}
		if total < min {
			c.cur = "*"
			c.add(r, "-", "floor", Undecided, fmt.Sprintf("rule matched %d instance(s), below the floor of %d confirmed by hand: the rule no longer finds its anchors", total, min), "")
		}
	}
	for _, rq := range c.requires {
		rule, construct, min := rq[0].(string), rq[1].(string), rq[2].(int)
		n := 0
		for _, o := range c.Obls {
			if o.Rule == rule && o.Construct == construct {
				n++
			}
		}
		if n < min {
			c.cur = "*"
			c.add(rule, "-", "anchor:"+construct, Undecided, fmt.Sprintf("%d obligation(s) for anchor %q, expected at least %d: the rule no longer finds its anchors", n, construct, min), "")
		}
	}
	for _, f := range c.fatal {
		c.cur = "*"
		c.add("MACHINERY", "-", f, Undecided, "machinery failure: "+f, "")
	}

	known := loadFindings(root)
	isKnown := func(o *Obligation) *Finding {
		for i := range known {
			k := &known[i]
			if k.Status == "known" && k.Property == c.Property && k.Key == o.Key() {
				return k
			}
		}
		return nil
	}

	sort.SliceStable(c.Obls, func(i, j int) bool {
		a, b := c.Obls[i], c.Obls[j]
		if a.Rule != b.Rule {
			return a.Rule < b.Rule
		}
		if a.Config != b.Config {
			return a.Config < b.Config
		}
		return a.Key() < b.Key()
	})

	perRule := map[string]map[string]int{}
	discharged := 0
	type viol struct {
		key     string
		obls    []*Obligation
		finding *Finding
	}
	viols := map[string]*viol{}
	var violOrder []string
	for _, o := range c.Obls {
		if perRule[o.Rule] == nil {
			perRule[o.Rule] = map[string]int{}
		}
		perRule[o.Rule][o.Status]++
		if o.st == Discharged {
			discharged++
			continue
		}
		k := o.Key()
		if viols[k] == nil {
			viols[k] = &viol{key: k, finding: isKnown(o)}
			violOrder = append(violOrder, k)
		}
		viols[k].obls = append(viols[k].obls, o)
	}

	fmt.Printf("== %s (%s) configurations=%v obligations=%d discharged=%d\n", c.Property, c.Tier, c.Configs, len(c.Obls), discharged)
	an := make([]string, 0, len(c.Analysed))
	for k, v := range c.Analysed {
		an = append(an, fmt.Sprintf("%s=%d", k, v))
	}
	sort.Strings(an)
	fmt.Printf("   analysed: %s\n", strings.Join(an, " "))
	rules := make([]string, 0, len(perRule))
	for r := range perRule {
		rules = append(rules, r)
	}
	sort.Strings(rules)
	for _, r := range rules {
		m := perRule[r]
		fmt.Printf("   rule %-8s instances=%d discharged=%d violated=%d undecided=%d\n", r, m["discharged"]+m["violated"]+m["undecided"], m["discharged"], m["violated"], m["undecided"])
	}
	for _, n := range c.Notes {
		fmt.Printf("   note: %s\n", n)
	}

	exit := 0
	nviol := 0
	replayDir := filepath.Join(root, "evidence", "replay", c.Property)
	for _, k := range violOrder {
		v := viols[k]
		o := v.obls[0]
		cfgs := []string{}
		for _, x := range v.obls {
			cfgs = append(cfgs, x.Config)
		}
		if v.finding != nil {
			fmt.Printf("KNOWN-FINDING: property=%s %s [%s] %s\n", c.Property, v.finding.What, k, o.Pos)
			continue
		}
		nviol++
		exit = 1
		h := sha1.Sum([]byte(k))
		path := filepath.Join(replayDir, hex.EncodeToString(h[:6])+".json")
		_ = os.MkdirAll(replayDir, 0o755)
		rb, _ := json.MarshalIndent(map[string]any{"property": c.Property, "tier": c.Tier, "key": k, "obligations": v.obls}, "", " ")
		_ = os.WriteFile(path, rb, 0o644)
		fmt.Printf("  %s %s: rule %s, function %s, construct %s, configurations %v\n      %s\n", strings.ToUpper(o.Status), o.Pos, o.Rule, o.Func, o.Construct, cfgs, o.Reason)
		fmt.Printf("VIOLATION property=%s replay=%s\n", c.Property, path)
	}

	// samples: up to 12 obligations, violated ones first, then a spread over rules
	var samples []any
	seenRule := map[string]int{}
	for _, o := range c.Obls {
		if o.st != Discharged && len(samples) < 6 {
			samples = append(samples, o)
		}
	}
	for _, o := range c.Obls {
		if o.st == Discharged && seenRule[o.Rule] < 2 && len(samples) < 40 {
			seenRule[o.Rule]++
			samples = append(samples, o)
		}
	}
	cov := map[string]any{
		"obligations":    len(c.Obls),
		"discharged":     discharged,
		"explanation":    c.Explanation,
		"checker_cmd":    fmt.Sprintf("/verif/bin/check %s %s", c.Property, c.Tier),
		"trusted_base":   c.Trusted,
		"samples":        samples,
		"per_rule":       perRule,
		"configurations": c.Configs,
		"analysed":       c.Analysed,
		"floors":         c.Floors,
		"notes":          c.Notes,
		"exhaustive":     false,
	}
	for k, v := range c.Extra {
		cov[k] = v
	}
	ev := evidence{PropertyID: c.Property, Tier: c.Tier, Seed: seed, Level: c.Level, Coverage: cov,
		Assumptions: c.Assumptions, WallS: time.Since(c.start).Seconds(), Violations: nviol}
	if ev.Assumptions == nil {
		ev.Assumptions = []string{}
	}
	b, _ := json.MarshalIndent(ev, "", " ")
	_ = os.MkdirAll(filepath.Join(root, "evidence"), 0o755)
	if err := os.WriteFile(filepath.Join(root, "evidence", c.Property+".json"), append(b, '\n'), 0o644); err != nil {
		fmt.Fprintf(os.Stderr, "cannot write evidence: %v\n", err)
		return 3
	}
	if exit == 0 {
		fmt.Printf("OK property=%s: %d/%d obligations discharged\n", c.Property, discharged, len(c.Obls))
	}
	return exit
}
