package eng

// Engine F: decision tables. For loop-free functions whose branches only compare stable values
// with constants, every entry-to-return path is enumerated with its branch conditions; phis are
// resolved along the path. Conditions are then evaluated three-valued over interval cells
// (abstract interpretation; nothing is executed).

import (
	"fmt"
	"go/constant"
	"go/token"
	"go/types"
	"math/big"
	"os"
	"strings"

	"golang.org/x/tools/go/ssa"
)

type PathCond struct {
	Cond  ssa.Value
	Taken bool
}

type Path struct {
	Conds  []PathCond
	Blocks []*ssa.BasicBlock
	Ret    *ssa.Return // nil: path ends in panic / no return
	phiSel map[*ssa.Phi]ssa.Value
}

// Resolve follows phis selected along this path.
func (p *Path) Resolve(v ssa.Value) ssa.Value {
	for i := 0; i < 32; i++ {
		ph, ok := v.(*ssa.Phi)
		if !ok {
			return v
		}
		s, ok := p.phiSel[ph]
		if !ok {
			return v
		}
		v = s
	}
	return v
}

// Result i of the path (phi-resolved); nil if the path does not return.
func (p *Path) Result(i int) ssa.Value {
	if p.Ret == nil || i >= len(p.Ret.Results) {
		return nil
	}
	return p.Resolve(p.Ret.Results[i])
}

// HasLoop reports whether f's CFG has a cycle.
func HasLoop(f *ssa.Function) bool {
	for _, b := range f.Blocks {
		for _, s := range b.Succs {
			if s.Dominates(b) {
				return true
			}
		}
	}
	return false
}

// EnumPaths enumerates all acyclic entry→exit paths of a loop-free function.
func EnumPaths(f *ssa.Function, max int) ([]*Path, error) {
	if f == nil || f.Blocks == nil {
		return nil, fmt.Errorf("no body")
	}
	if HasLoop(f) {
		return nil, fmt.Errorf("function has a loop")
	}
	var out []*Path
	var err error
	var dfs func(b, pred *ssa.BasicBlock, cur *Path)
	dfs = func(b, pred *ssa.BasicBlock, cur *Path) {
		if err != nil {
			return
		}
		cur.Blocks = append(cur.Blocks, b)
		if pred != nil {
			pi := -1
			for i, p := range b.Preds {
				if p == pred {
					pi = i
				}
			}
			for _, in := range b.Instrs {
				ph, ok := in.(*ssa.Phi)
				if !ok {
					break
				}
				if pi >= 0 {
					cur.phiSel[ph] = cur.Resolve(ph.Edges[pi])
				}
			}
		}
		last := b.Instrs[len(b.Instrs)-1]
		switch t := last.(type) {
		case *ssa.Return:
			cp := clonePath(cur)
			cp.Ret = t
			out = append(out, cp)
		case *ssa.If:
			cond := cur.Resolve(t.Cond)
			// constant condition / already decided on this path: follow one side
			if c, ok := cond.(*ssa.Const); ok && c.Value != nil && c.Value.Kind() == constant.Bool {
				if constant.BoolVal(c.Value) {
					dfs(b.Succs[0], b, clonePath(cur))
				} else {
					dfs(b.Succs[1], b, clonePath(cur))
				}
				return
			}
			decided := 0
			for _, pc := range cur.Conds {
				if pc.Cond == cond {
					if pc.Taken {
						decided = 1
					} else {
						decided = 2
					}
				}
			}
			if decided != 2 {
				n := clonePath(cur)
				n.Conds = append(n.Conds, PathCond{cond, true})
				dfs(b.Succs[0], b, n)
			}
			if decided != 1 {
				n := clonePath(cur)
				n.Conds = append(n.Conds, PathCond{cond, false})
				dfs(b.Succs[1], b, n)
			}
		case *ssa.Jump:
			dfs(b.Succs[0], b, cur)
		default: // panic, etc.
			cp := clonePath(cur)
			out = append(out, cp)
		}
		if len(out) > max {
			err = fmt.Errorf("more than %d paths", max)
		}
	}
	dfs(f.Blocks[0], nil, &Path{phiSel: map[*ssa.Phi]ssa.Value{}})
	return out, err
}

func clonePath(p *Path) *Path {
	n := &Path{Conds: append([]PathCond(nil), p.Conds...), Blocks: append([]*ssa.BasicBlock(nil), p.Blocks...), phiSel: map[*ssa.Phi]ssa.Value{}}
	for k, v := range p.phiSel {
		n.phiSel[k] = v
	}
	return n
}

// ---- three-valued evaluation over cells ----------------------------------------------------

type Tri int

const (
	TriFalse Tri = iota
	TriTrue
	TriUnknown
)

// AVal is an abstract value: an integer interval, a string constant, or a boolean tri-state.
type AVal struct {
	Kind string // int, str, bool, nil, nonnil, unknown
	I    Itv
	S    string
	B    Tri
}

func aInt(lo, hi int64) AVal { return AVal{Kind: "int", I: Itv{bi(lo), bi(hi)}} }
func aBool(b bool) AVal {
	if b {
		return AVal{Kind: "bool", B: TriTrue}
	}
	return AVal{Kind: "bool", B: TriFalse}
}

// Cell binds leaf terms (by string) to abstract values.
type Cell map[string]AVal

type AEval struct {
	W     *World
	TB    *TB
	Depth int
	// Notes collects reasons for Unknown results (for diagnostics).
	Notes []string
}

func (ae *AEval) note(format string, a ...any) {
	if len(ae.Notes) < 20 {
		ae.Notes = append(ae.Notes, fmt.Sprintf(format, a...))
	}
}

// Eval evaluates a term under a cell.
func (ae *AEval) Eval(t *Term, cell Cell, depth int) AVal {
	if v, ok := cell[t.String()]; ok {
		return v
	}
	switch t.Op {
	case "const":
		if t.Sym == "nil" {
			return AVal{Kind: "nil"}
		}
		if strings.HasPrefix(t.Sym, `"`) {
			s, err := unquote(t.Sym)
			if err == nil {
				return AVal{Kind: "str", S: s}
			}
		}
		if t.Sym == "true" {
			return aBool(true)
		}
		if t.Sym == "false" {
			return aBool(false)
		}
		if x, ok := new(big.Int).SetString(t.Sym, 10); ok {
			return AVal{Kind: "int", I: point(x)}
		}
	case "un":
		if t.Sym == "!" {
			x := ae.Eval(t.Args[0], cell, depth)
			if x.Kind == "bool" && x.B != TriUnknown {
				return aBool(x.B == TriFalse)
			}
			return AVal{Kind: "bool", B: TriUnknown}
		}
	case "bin":
		x, y := ae.Eval(t.Args[0], cell, depth), ae.Eval(t.Args[1], cell, depth)
		op := tokenOf(t.Sym)
		switch op {
		case token.EQL, token.NEQ, token.LSS, token.LEQ, token.GTR, token.GEQ:
			r := cmpAVal(op, x, y)
			if r == TriUnknown {
				ae.note("cannot decide %s under the cell (operands %v, %v)", t, x, y)
			}
			return AVal{Kind: "bool", B: r}
		case token.ADD, token.SUB, token.MUL, token.QUO, token.REM, token.AND, token.SHL, token.SHR:
			if x.Kind == "int" && y.Kind == "int" {
				return AVal{Kind: "int", I: arith(op, x.I, y.I)}
			}
		}
	case "index":
		// an element of a never-written package-level integer table: the hull over the index's cell
		if len(t.Args) == 2 && t.Args[0].Op == "gval" && strings.HasPrefix(t.Args[0].Sym, "otp.") && ae.W != nil {
			name := strings.TrimPrefix(t.Args[0].Sym, "otp.")
			var g *ssa.Global
			if sp := ae.W.SPkgs[OtpPath]; sp != nil {
				g, _ = sp.Members[name].(*ssa.Global)
			}
			idx := ae.Eval(t.Args[1], cell, depth)
			if g != nil && ae.W.GlobalNeverWritten(g) && idx.Kind == "int" && idx.I.Lo != nil && idx.I.Hi != nil {
				if tab, err := ae.W.IntTable(OtpPath, name); err == nil && idx.I.Lo.Sign() >= 0 && idx.I.Hi.Cmp(big.NewInt(int64(len(tab))-1)) <= 0 && idx.I.Hi.IsInt64() {
					var r *AVal
					for k := idx.I.Lo.Int64(); k <= idx.I.Hi.Int64(); k++ {
						if tab[k] == nil {
							r = nil
							break
						}
						v := AVal{Kind: "int", I: point(tab[k])}
						if r == nil {
							r = &v
						} else {
							j := joinAVal(*r, v)
							r = &j
						}
					}
					if r != nil {
						return *r
					}
				}
			}
		}
	case "ite":
		cnd := ae.Eval(t.Args[0], cell, depth)
		if cnd.Kind == "bool" && cnd.B == TriTrue {
			return ae.Eval(t.Args[1], cell, depth)
		}
		if cnd.Kind == "bool" && cnd.B == TriFalse {
			return ae.Eval(t.Args[2], cell, depth)
		}
		a, b := ae.Eval(t.Args[1], cell, depth), ae.Eval(t.Args[2], cell, depth)
		return joinAVal(a, b)
	case "phi":
		r := ae.Eval(t.Args[0], cell, depth)
		for _, a := range t.Args[1:] {
			r = joinAVal(r, ae.Eval(a, cell, depth))
		}
		return r
	case "call":
		if c, ok := t.Val.(*ssa.Call); ok {
			if f := c.Call.StaticCallee(); f != nil && ae.W.InModule(f) && f.Blocks != nil && depth < 4 {
				var args []AVal
				for _, a := range t.Args {
					args = append(args, ae.Eval(a, cell, depth))
				}
				rs := ae.CallResults(f, args, depth+1)
				if len(rs) == 1 {
					return rs[0]
				}
			}
		}
		// slices.Contains(literal list of integer constants, x): decided when x's cell lies on one element or
		// misses them all
		if t.Sym == "slices.Contains" && len(t.Args) == 2 && ae.TB != nil {
			if els := varargsElems(ae.TB, t.Args[0]); len(els) > 0 {
				x := ae.Eval(t.Args[1], cell, depth)
				if os.Getenv("OTPSA_DEBUG") != "" {
					fmt.Fprintf(os.Stderr, "contains: els=%v x=%+v\n", els, x)
				}
				if x.Kind == "int" && x.I.Lo != nil && x.I.Hi != nil {
					hitAll, missAll, okEls := x.I.Lo.Cmp(x.I.Hi) == 0, true, true
					same := false
					for _, e := range els {
						ev := ae.Eval(e, cell, depth)
						if ev.Kind != "int" || ev.I.Lo == nil || ev.I.Hi == nil || ev.I.Lo.Cmp(ev.I.Hi) != 0 {
							okEls = false
							break
						}
						if ev.I.Lo.Cmp(x.I.Lo) >= 0 && ev.I.Lo.Cmp(x.I.Hi) <= 0 {
							missAll = false
							if hitAll && ev.I.Lo.Cmp(x.I.Lo) == 0 {
								same = true
							}
						}
					}
					if okEls {
						switch {
						case missAll:
							return aBool(false)
						case same:
							return aBool(true)
						}
					}
				}
			}
		}
		// calls that construct an error are non-nil
		if t.Sym == "fmt.Errorf" || t.Sym == "errors.New" {
			return AVal{Kind: "nonnil"}
		}
	case "extract":
		// one component of a tuple-returning module call
		if len(t.Args) == 1 && t.Args[0].Op == "call" {
			ct := t.Args[0]
			if c, ok := ct.Val.(*ssa.Call); ok {
				if f := c.Call.StaticCallee(); f != nil && ae.W.InModule(f) && f.Blocks != nil && depth < 4 {
					var args []AVal
					for _, a := range ct.Args {
						args = append(args, ae.Eval(a, cell, depth))
					}
					rs := ae.CallResults(f, args, depth+1)
					var k int
					if _, err := fmt.Sscanf(t.Sym, "%d", &k); err == nil && k >= 0 && k < len(rs) {
						return rs[k]
					}
				}
			}
		}
	case "len":
	}
	if t.Typ != nil {
		if _, ok := t.Typ.Underlying().(*types.Basic); !ok && (t.Op == "call" || t.Op == "gval") {
			if t.Op == "gval" && isErrorType(t.Typ) {
				return AVal{Kind: "nonnil"}
			}
		}
	}
	return AVal{Kind: "unknown"}
}

func tokenOf(s string) token.Token {
	for _, t := range []token.Token{token.EQL, token.NEQ, token.LSS, token.LEQ, token.GTR, token.GEQ, token.ADD, token.SUB, token.MUL, token.QUO, token.REM, token.AND, token.OR, token.SHL, token.SHR, token.XOR} {
		if t.String() == s {
			return t
		}
	}
	return token.ILLEGAL
}

func joinAVal(a, b AVal) AVal {
	if a.Kind != b.Kind {
		return AVal{Kind: "unknown"}
	}
	switch a.Kind {
	case "int":
		return AVal{Kind: "int", I: a.I.Hull(b.I)}
	case "bool":
		if a.B == b.B {
			return a
		}
		return AVal{Kind: "bool", B: TriUnknown}
	case "str":
		if a.S == b.S {
			return a
		}
	case "nil", "nonnil":
		return a
	}
	return AVal{Kind: "unknown"}
}

func cmpAVal(op token.Token, x, y AVal) Tri {
	tri := func(b bool) Tri {
		if b {
			return TriTrue
		}
		return TriFalse
	}
	neg := func(t Tri) Tri {
		switch t {
		case TriTrue:
			return TriFalse
		case TriFalse:
			return TriTrue
		}
		return TriUnknown
	}
	switch {
	case x.Kind == "int" && y.Kind == "int":
		a, b := x.I, y.I
		if a.Lo == nil || a.Hi == nil || b.Lo == nil || b.Hi == nil {
			// half-open comparisons
			switch op {
			case token.LSS:
				if a.Hi != nil && b.Lo != nil && a.Hi.Cmp(b.Lo) < 0 {
					return TriTrue
				}
				if a.Lo != nil && b.Hi != nil && a.Lo.Cmp(b.Hi) >= 0 {
					return TriFalse
				}
			case token.GTR:
				return cmpAVal(token.LSS, y, x)
			case token.LEQ:
				return neg(cmpAVal(token.GTR, x, y))
			case token.GEQ:
				return neg(cmpAVal(token.LSS, x, y))
			}
			return TriUnknown
		}
		switch op {
		case token.EQL:
			if a.Lo.Cmp(a.Hi) == 0 && b.Lo.Cmp(b.Hi) == 0 {
				return tri(a.Lo.Cmp(b.Lo) == 0)
			}
			if a.Hi.Cmp(b.Lo) < 0 || b.Hi.Cmp(a.Lo) < 0 {
				return TriFalse
			}
			return TriUnknown
		case token.NEQ:
			return neg(cmpAVal(token.EQL, x, y))
		case token.LSS:
			if a.Hi.Cmp(b.Lo) < 0 {
				return TriTrue
			}
			if a.Lo.Cmp(b.Hi) >= 0 {
				return TriFalse
			}
			return TriUnknown
		case token.LEQ:
			if a.Hi.Cmp(b.Lo) <= 0 {
				return TriTrue
			}
			if a.Lo.Cmp(b.Hi) > 0 {
				return TriFalse
			}
			return TriUnknown
		case token.GTR:
			return cmpAVal(token.LSS, y, x)
		case token.GEQ:
			return cmpAVal(token.LEQ, y, x)
		}
	case x.Kind == "str" && y.Kind == "str":
		switch op {
		case token.EQL:
			return tri(x.S == y.S)
		case token.NEQ:
			return tri(x.S != y.S)
		}
	case x.Kind == "bool" && y.Kind == "bool" && x.B != TriUnknown && y.B != TriUnknown:
		switch op {
		case token.EQL:
			return tri(x.B == y.B)
		case token.NEQ:
			return tri(x.B != y.B)
		}
	case (x.Kind == "nil" || x.Kind == "nonnil") && (y.Kind == "nil" || y.Kind == "nonnil"):
		if x.Kind == "nonnil" && y.Kind == "nonnil" {
			return TriUnknown
		}
		switch op {
		case token.EQL:
			return tri(x.Kind == y.Kind)
		case token.NEQ:
			return tri(x.Kind != y.Kind)
		}
	}
	return TriUnknown
}

// CallResults evaluates a loop-free module function on abstract arguments: the join of the results
// of all paths whose conditions are not definitely false. ok=false paths make results unknown.
func (ae *AEval) CallResults(f *ssa.Function, args []AVal, depth int) []AVal {
	paths, err := EnumPaths(f, 4096)
	n := f.Signature.Results().Len()
	unknown := make([]AVal, n)
	for i := range unknown {
		unknown[i] = AVal{Kind: "unknown"}
	}
	if err != nil {
		ae.note("%s: %v", FuncName(f), err)
		return unknown
	}
	cell := Cell{}
	var params []*Term
	for i := range f.Params {
		pt := &Term{Op: "param", Sym: fmt.Sprintf("%s#%d", FuncName(f), i)}
		params = append(params, pt)
		if i < len(args) {
			cell[pt.String()] = args[i]
		}
	}
	var res []AVal
	first := true
	for _, p := range paths {
		feasible := true
		for _, pc := range p.Conds {
			v := ae.Eval(ae.TB.Of(pc.Cond), cell, depth)
			if v.Kind != "bool" || v.B == TriUnknown {
				continue // may or may not be taken
			}
			if (v.B == TriTrue) != pc.Taken {
				feasible = false
				break
			}
		}
		if !feasible {
			continue
		}
		if p.Ret == nil {
			continue
		}
		cur := make([]AVal, n)
		for i := 0; i < n; i++ {
			cur[i] = ae.Eval(ae.TB.Of(p.Result(i)), cell, depth)
		}
		if first {
			res, first = cur, false
		} else {
			for i := range res {
				res[i] = joinAVal(res[i], cur[i])
			}
		}
	}
	if first {
		return unknown
	}
	return res
}

// PathOutcome classifies, for one cell, which return class the function reaches:
// it returns the set of feasible paths (those with no definitely-false condition) and whether
// every condition on them was decided.
func (ae *AEval) FeasiblePaths(paths []*Path, cell Cell) (feasible []*Path, allDecided bool) {
	allDecided = true
	for _, p := range paths {
		ok := true
		for _, pc := range p.Conds {
			v := ae.Eval(ae.TB.Of(pc.Cond), cell, 0)
			if v.Kind != "bool" || v.B == TriUnknown {
				allDecided = false
				continue
			}
			if (v.B == TriTrue) != pc.Taken {
				ok = false
				break
			}
		}
		if ok {
			feasible = append(feasible, p)
		}
	}
	return
}

// WalkCell follows the unique path the function takes on a cell: at every branch the condition
// must be definite under the cell. Returns the Return reached (nil for a panic exit), the path
// with its phi selections, and ok=false when some condition is not decided by the cell.
func (ae *AEval) WalkCell(f *ssa.Function, cell Cell) (*Path, bool) {
	p := &Path{phiSel: map[*ssa.Phi]ssa.Value{}}
	b := f.Blocks[0]
	var pred *ssa.BasicBlock
	for steps := 0; steps < 10000; steps++ {
		p.Blocks = append(p.Blocks, b)
		if pred != nil {
			pi := -1
			for i, q := range b.Preds {
				if q == pred {
					pi = i
				}
			}
			for _, in := range b.Instrs {
				ph, ok := in.(*ssa.Phi)
				if !ok {
					break
				}
				if pi >= 0 {
					p.phiSel[ph] = p.Resolve(ph.Edges[pi])
				}
			}
		}
		switch t := b.Instrs[len(b.Instrs)-1].(type) {
		case *ssa.Return:
			p.Ret = t
			return p, true
		case *ssa.Jump:
			pred, b = b, b.Succs[0]
		case *ssa.If:
			cond := p.Resolve(t.Cond)
			v := ae.Eval(ae.TB.Of(cond), cell, 0)
			if v.Kind != "bool" || v.B == TriUnknown {
				ae.note("branch %s not decided by the cell", ae.TB.Of(cond))
				return p, false
			}
			p.Conds = append(p.Conds, PathCond{cond, v.B == TriTrue})
			if v.B == TriTrue {
				pred, b = b, b.Succs[0]
			} else {
				pred, b = b, b.Succs[1]
			}
		default:
			return p, true
		}
	}
	return p, false
}
