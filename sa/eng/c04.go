package eng

import (
	"fmt"
)

func runC04(c *Check, w *World) {
	if w.Cfg.Name == CfgNative.Name {
		ruleJSExportsDirect(c, "R04.JS", "validateTOTP")
	}
	tb := NewTB(w)
	ef := NewEffects(tb)
	iv := newIVWithTables(w, tb, ef)
	val := w.Func(OtpPath, "ValidateTOTP")
	if val == nil {
		c.Fatal("anchor not found: ValidateTOTP")
		return
	}
	fn := FuncName(val)
	secretP, codeP := secretAndCodeParams(tb, val)
	pp := paramPtrIndex(val, "Param")
	tp := timeParamIndex(val)
	if secretP < 0 || codeP < 0 || pp < 0 || tp < 0 {
		c.Fatal("ValidateTOTP: cannot identify secret/code/time/param parameters")
		return
	}
	wantCentre := fmt.Sprintf("calldyn(gval(otp.TimeCounterFunc); param(%s#%d); %s)", fn, tp, periodTerm(fn, pp, "DefaultTOTPParam"))
	ruleWasmWindow(c, w, tb, iv, "R04.W", "validateTOTP", false)
	wr := analyseWindow(c, w, tb, iv, "R04", val, isStepValidator(w), wantCentre, false)
	if wr != nil {
		if wr.sizeT != nil {
			got := tb.Norm(wr.sizeT).String()
			c.Decide(got == resolvedField(fn, pp, "DefaultTOTPParam", "Skew"), "R04.7", fn, "skew-resolution", "the window size is param.Skew, or the default's when param is nil", "the window size is "+clip(got, 200), wr.firstPos)
		}
		checkCompareCore(c, w, tb, "R04", val, codeP, deriveExpectation(w, tb, val, secretP, pp, "DefaultTOTPParam", func() []string { return wr.ctrArgs }, nil))
	}
	// R04.8: generation resolves the period identically
	if gen := w.Func(OtpPath, "GenerateTOTP"); gen != nil {
		h, roles, _ := totpDeriveHit(c, w, tb, "R04.8", gen)
		if h != nil {
			gfn := FuncName(gen)
			gpp, gtp := paramPtrIndex(gen, "Param"), timeParamIndex(gen)
			want := fmt.Sprintf("calldyn(gval(otp.TimeCounterFunc); param(%s#%d); %s)", gfn, gtp, periodTerm(gfn, gpp, "DefaultTOTPParam"))
			c.Decide(tb.EqNorm(h.Args[roles.Counter], want), "R04.8", gfn, "period-agreement", "generation computes the step with the same period resolution (0 → 30 s) as validation", "generation's step is "+clip(normT(h.Args[roles.Counter]), 240)+": period resolution differs from validation", w.InstrPos(h.Call))
		}
	}
	if lit := defaultsLit(w, "DefaultTOTPParam"); lit != nil && lit.Kind == "struct" {
		d, _ := lit.FieldInt("Digits")
		a, _ := lit.FieldInt("Algorithm")
		p, _ := lit.FieldInt("Period")
		s, _ := lit.FieldInt("Skew")
		c.Decide(d == 6 && a == 0 && p == 30 && s == 0, "R04.7", "otp.DefaultTOTPParam", "default-values", "absent parameters mean 6 digits, SHA-1, 30 s, skew 0", fmt.Sprintf("defaults are digits=%d algorithm=%d period=%d skew=%d", d, a, p, s), "")
	}
	ruleCounterFunction(c, w, tb, ef, "R04.3")
	sent := sentinelErrors(w, tb, ef)
	for f := range w.Reachable(val) {
		if !isBoolErrSig(f.Signature) || f.Blocks == nil {
			continue
		}
		for i, r := range Returns(f) {
			if why := classifyVerdict(w, tb, r.Results[0], r.Results[1], CondsAt(r.Block()), sent, 0); why != "" {
				c.Bad("R04.5", FuncName(f), fmt.Sprintf("verdict#%d", i), why, w.InstrPos(r))
			} else {
				c.OK("R04.5", FuncName(f), fmt.Sprintf("verdict#%d", i), "(true,nil) / (false, non-nil) / forwarded", w.InstrPos(r))
			}
		}
	}
	checkDigitsInt(c, w, tb, "R04.7")
	ruleHistoryIndependence(c, w, tb, ef, "R04.H", val)
	checkRESTEndpoints(c, w, tb, ef, "R04.REST", "/totp/validate")
	c.Floor("R04.1", 1)
	c.Floor("R04.2", 1)
	c.Floor("R04.3", 2)
	c.Floor("R04.5", 4)
	c.Floor("R04.6", 4)
	c.Floor("R04.7", 2)
	c.Floor("R04.8", 1)
}

func init() {
	register(&propDef{
		id:    "C04",
		level: "other",
		explain: "Same rule set as C03 on ValidateTOTP: R04.1 the skew is exactly within [0,10] at the loop by a dominating gate (this is also the 'work per call is bounded' clause: at most 21 steps); R04.2 one loop i = -s … +s; " +
			"R04.3 step i validates TimeCounterFunc(t, period) + i, the time-step function being floor(unix/period) (R02.1) and never reassigned; R04.5 acceptance only under that iteration's verdict; R04.6 the shared constant-time comparison core with the same derivation, digits and key; " +
			"R04.7 nil parameters resolve to DefaultTOTPParam = {6, SHA-1, 30 s, 0}; R04.8 generation and validation resolve the period identically (0 → 30 s). No underflow guard is required: the property's domain has the whole window at or after step 0.",
		quick:    []Config{CfgNative, CfgWasm},
		thorough: []Config{CfgNative, CfgWasm, Cfg386},
		run:      runC04,
	})
}
