package eng

import (
	"fmt"
	"go/constant"
	"go/types"
	"sort"
	"strconv"
	"strings"

	"golang.org/x/tools/go/ssa"
)

// fieldStores collects, for stores into fields of a struct of the given type name in f, field -> value terms.
func fieldStores(tb *TB, f *ssa.Function, typeName string) map[string][]*ssa.Store {
	out := map[string][]*ssa.Store{}
	EachInstr(f, func(in ssa.Instruction) {
		st, ok := in.(*ssa.Store)
		if !ok {
			return
		}
		fa, ok := st.Addr.(*ssa.FieldAddr)
		if !ok {
			return
		}
		t := fa.X.Type().String()
		if strings.HasSuffix(t, "."+typeName) || strings.HasSuffix(t, "/"+typeName) {
			out[fieldName(fa.X.Type(), fa.Field)] = append(out[fieldName(fa.X.Type(), fa.Field)], st)
		}
	})
	return out
}

type kvCall struct {
	key string
	val *Term
	in  ssa.Instruction
}

func valuesCalls(tb *TB, f *ssa.Function, method string) []kvCall {
	var out []kvCall
	EachInstr(f, func(in ssa.Instruction) {
		ci, ok := in.(ssa.CallInstruction)
		if !ok || CalleeName(ci.Common()) != "(net/url.Values)."+method {
			return
		}
		args := ci.Common().Args
		kv := kvCall{in: in}
		if k, ok := args[1].(*ssa.Const); ok && k.Value != nil && k.Value.Kind() == constant.String {
			kv.key = constant.StringVal(k.Value)
		} else {
			kv.key = "?" + tb.Of(args[1]).String()
		}
		if len(args) > 2 {
			kv.val = tb.Of(args[2])
		}
		out = append(out, kv)
	})
	if method == "Set" {
		// the literal form url.Values{"key": {value}} sets a key like Values.Set does
		EachInstr(f, func(in ssa.Instruction) {
			mu, ok := in.(*ssa.MapUpdate)
			if !ok || !strings.HasSuffix(mu.Map.Type().String(), "net/url.Values") {
				return
			}
			kv := kvCall{in: in}
			if k, ok := mu.Key.(*ssa.Const); ok && k.Value != nil && k.Value.Kind() == constant.String {
				kv.key = constant.StringVal(k.Value)
			} else {
				kv.key = "?" + tb.Of(mu.Key).String()
			}
			vt := tb.Of(mu.Value)
			if el := varargsElems(tb, vt); len(el) == 1 {
				kv.val = el[0]
			} else {
				kv.val = vt
				kv.key = "?multi:" + kv.key
			}
			out = append(out, kv)
		})
	}
	return out
}

func containsCall(t *Term, names ...string) string {
	found := ""
	t.Walk(func(x *Term) bool {
		if x.Op == "call" {
			for _, n := range names {
				if x.Sym == n {
					found = n
				}
			}
		}
		return found == ""
	})
	return found
}

// varargsElems: the element terms of a variadic argument slice (slice(alloc [n]any)).
func varargsElems(tb *TB, t *Term) []*Term {
	if t.Op != "slice" || t.Args[0].Op != "alloc" {
		return nil
	}
	a := t.Args[0].Val.(*ssa.Alloc)
	saved := tb.curLoad
	tb.curLoad = nil
	defer func() { tb.curLoad = saved }()
	var out []*Term
	// the literal's length is the array's; an element never stored is the zero value (the compiler stores no zeros
	// into a fresh array: []Algorithm{SHA1, …} with SHA1 == 0)
	n, elemInt := int64(8), false
	if pt, ok := a.Type().Underlying().(*types.Pointer); ok {
		if at, ok := pt.Elem().Underlying().(*types.Array); ok {
			n = at.Len()
			if b, isB := at.Elem().Underlying().(*types.Basic); isB && b.Info()&types.IsInteger != 0 {
				elemInt = true
			}
			if n > 64 {
				n = 64
			}
		} else {
			n = 8
		}
	}
	for i := int64(0); i < n; i++ {
		e := tb.cellContent(a, t.Args[0], []string{fmt.Sprintf("[%d]", i)}, nil)
		if e.Op == "zero" {
			if !elemInt {
				break
			}
			e = mk("const", "0")
		}
		out = append(out, e)
	}
	return out
}

// concatParts flattens a string built by + and by fmt.Sprintf with only %s verbs into its pieces
// (quoted literals, adjacent ones merged, and the printed terms of the non-literal pieces).
func concatParts(tb *TB, t *Term) []string {
	var out []string
	push := func(s string, lit bool) {
		if lit && len(out) > 0 && strings.HasPrefix(out[len(out)-1], `"`) {
			a, _ := unquote(out[len(out)-1])
			b, _ := unquote(s)
			out[len(out)-1] = strconv.Quote(a + b)
			return
		}
		if lit {
			if u, _ := unquote(s); u == "" {
				return
			}
		}
		out = append(out, s)
	}
	var walk func(x *Term)
	walk = func(x *Term) {
		switch {
		case x.Op == "bin" && x.Sym == "+" && len(x.Args) == 2:
			walk(x.Args[0])
			walk(x.Args[1])
		case x.IsConst() && strings.HasPrefix(x.Sym, `"`):
			push(x.Sym, true)
		case x.Op == "call" && x.Sym == "fmt.Sprintf" && len(x.Args) == 2 && x.Args[0].IsConst():
			f, err := unquote(x.Args[0].Sym)
			el := varargsElems(tb, x.Args[1])
			segs := strings.Split(f, "%s")
			if err != nil || len(segs) != len(el)+1 || strings.Contains(strings.Join(segs, ""), "%") {
				push(x.String(), false)
				return
			}
			for i, sg := range segs {
				push(strconv.Quote(sg), true)
				if i < len(el) {
					if isNonString(el[i].Typ) {
						out = append(out, "non-string:"+el[i].String())
					} else {
						walk(el[i])
					}
				}
			}
		default:
			push(x.String(), false)
		}
	}
	walk(t)
	return out
}

func runC16(c *Check, w *World) {
	tb := NewTB(w)
	ef := NewEffects(tb)
	iv := newIVWithTables(w, tb, ef)
	genT, genH, parse := w.Func(OtpPath, "GenerateTOTPURL"), w.Func(OtpPath, "GenerateHOTPURL"), w.Func(OtpPath, "ParseOTPAuthURL")
	if genT == nil || genH == nil || parse == nil {
		c.Fatal("anchor not found: GenerateTOTPURL / GenerateHOTPURL / ParseOTPAuthURL")
		return
	}
	// the shared builder: the module function reached from both generators that stores into a url.URL
	var builder *ssa.Function
	for f := range w.Reachable(genT) {
		if len(fieldStores(tb, f, "URL")) > 0 && w.Reachable(genH)[f] {
			builder = f
		}
	}
	if builder == nil {
		c.Unk("R16.0", FuncName(genT), "builder", "no shared function building the url.URL is reached from both generators", w.Pos(genT.Pos()))
		return
	}
	bfn := FuncName(builder)
	pp := paramOfType(builder, "URLParam")
	P := fmt.Sprintf("param(%s#%d)", bfn, pp)
	fld := func(n string) string { return "field(" + n + "; " + P + ")" }
	us := fieldStores(tb, builder, "URL")

	// ---- R16.1 escaping composes exactly once -------------------------------------------------
	for _, name := range []string{"Path", "Host", "Scheme", "Fragment"} {
		for _, st := range us[name] {
			vt := tb.Of(st.Val)
			if n := containsCall(vt, "net/url.PathEscape", "net/url.QueryEscape"); n != "" {
				c.Bad("R16.1", bfn, "url-field:"+name, "a value escaped with "+n+" is stored in url.URL."+name+", which holds the decoded form: URL.String escapes it a second time and parsing returns the once-escaped text", w.InstrPos(st))
			} else {
				c.OK("R16.1", bfn, "url-field:"+name, "decoded text is stored; URL.String performs the one escaping", w.InstrPos(st))
			}
		}
	}
	rq := us["RawQuery"]
	if len(rq) != 1 {
		c.Unk("R16.1", bfn, "url-field:RawQuery", fmt.Sprintf("%d stores to RawQuery, expected one", len(rq)), w.Pos(builder.Pos()))
	} else {
		vt := tb.Of(rq[0].Val)
		c.Decide(vt.Op == "call" && vt.Sym == "(net/url.Values).Encode", "R16.1", bfn, "url-field:RawQuery", "the query string is url.Values.Encode() (the inverse of URL.Query)", "RawQuery is built as "+clip(vt.String(), 200)+", not by url.Values.Encode(): '&', '+', '=' or '%' in a value are not escaped as the parser's URL.Query expects", w.InstrPos(rq[0]))
	}
	if len(us["RawPath"]) > 0 {
		c.Unk("R16.1", bfn, "url-field:RawPath", "RawPath is set: its consistency with Path is not analysed", w.InstrPos(us["RawPath"][0]))
	}

	// ---- R16.5 / R16.3 writer side ------------------------------------------------------------
	sets := valuesCalls(tb, builder, "Set")
	written := map[string]bool{}
	wantSet := map[string]func(t *Term) bool{
		"secret": func(t *Term) bool { return t.String() == fld("Secret") },
		"issuer": func(t *Term) bool { return t.String() == fld("Issuer") },
		"algorithm": func(t *Term) bool {
			if t.Op != "call" || !strings.HasSuffix(t.Sym, "Algorithm).String") {
				return false
			}
			for _, a := range tb.Norm(t.Args[0]).Alts() { // (a defaulting helper is read through)
				if !(a.String() == fld("Algorithm") || (a.IsConst() && a.Sym == "0")) {
					return false
				}
			}
			return true
		},
		"digits": func(t *Term) bool {
			x, ok := decimalOf(tb, t)
			if !ok {
				return false
			}
			ok, _ = defaultedInt(tb, builder, x, fld("Digits"), "Digits", "6")
			return ok
		},
	}
	for _, s := range sets {
		if strings.HasPrefix(s.key, "?") {
			// the type-specific extras: keys come from the map argument
			continue
		}
		written[s.key] = true
		if m, ok := wantSet[s.key]; ok {
			c.Decide(m(s.val), "R16.5", bfn, "query:"+s.key, "query key "+s.key+" carries its own URLParam field", "query key "+s.key+" is set to "+clip(s.val.String(), 200), w.InstrPos(s.in))
		} else {
			c.Unk("R16.5", bfn, "query:"+s.key, "unexpected query key written", w.InstrPos(s.in))
		}
	}
	for k := range wantSet {
		if !written[k] {
			c.Bad("R16.5", bfn, "query:"+k, "the generated URL lacks the "+k+" parameter", w.Pos(builder.Pos()))
		}
	}
	// extras per generator: map literal keys handed to the builder
	extras := map[*ssa.Function]map[string]*Term{}
	for _, g := range []*ssa.Function{genT, genH} {
		extras[g] = extraQueryParams(tb, g)
		for k := range extras[g] {
			written[k] = true
		}
	}
	if pt, ok := extras[genT]["period"]; ok {
		okP, _ := urlPeriodDefault(w, tb, genT)
		c.Decide(okP, "R16.5", FuncName(genT), "query:period", "the TOTP URL's period is URLParam.Period (30 when zero), in decimal", "the period parameter is "+clip(tb.Norm(pt).String(), 200), w.Pos(genT.Pos()))
	} else {
		c.Bad("R16.5", FuncName(genT), "query:period", "the TOTP URL carries no period parameter", w.Pos(genT.Pos()))
	}
	// scheme, host kinds, label
	for _, st := range us["Scheme"] {
		vt := tb.Of(st.Val)
		c.Decide(vt.IsConst() && vt.Sym == `"otpauth"`, "R16.3", bfn, "scheme-written", "scheme literal otpauth", "scheme written is "+vt.String(), w.InstrPos(st))
	}
	kinds := map[string]bool{}
	for _, g := range []*ssa.Function{genT, genH} {
		for _, h := range tb.Reach(g, func(ci ssa.CallInstruction) bool { return ci.Common().StaticCallee() == builder }, 3) {
			for i, a := range h.Args {
				if i < len(builder.Params) && builder.Params[i].Type().String() == "string" && a.IsConst() {
					s, _ := unquote(a.Sym)
					kinds[s] = true
				}
			}
		}
	}
	for _, st := range us["Host"] {
		vt := tb.Of(st.Val)
		c.Decide(vt.Op == "param", "R16.3", bfn, "host-written", "the host is the kind argument of the builder", "host written is "+clip(vt.String(), 120), w.InstrPos(st))
	}
	for _, st := range us["Path"] {
		vt := tb.Of(st.Val)
		parts := concatParts(tb, vt)
		ok := len(parts) == 4 && parts[0] == `"/"` && parts[1] == fld("Issuer") && parts[2] == `":"` && parts[3] == fld("AccountName")
		c.Decide(ok, "R16.5", bfn, "label", "label = \"/\" + issuer + \":\" + account name, unescaped", "the label is built as "+clip(vt.String(), 240), w.InstrPos(st))
	}

	// ---- reader side ------------------------------------------------------------------------------
	pfn := FuncName(parse)
	U := fmt.Sprintf("param(%s#0)", pfn)
	Q := "call((*net/url.URL).Query; " + U + ")"
	get := func(k string) string { return "call((net/url.Values).Get; " + Q + "; const(\"" + k + "\"))" }
	gets := valuesCalls(tb, parse, "Get")
	readKeys := map[string]bool{}
	for _, g := range gets {
		readKeys[g.key] = true
		c.Decide(written[g.key], "R16.3", pfn, "query-key-read:"+g.key, "the parser reads a key the generators write, spelled identically", "the parser reads query key "+g.key+", which no generator writes", w.InstrPos(g.in))
	}
	for _, k := range []string{"secret", "digits", "algorithm", "period"} {
		if !readKeys[k] {
			c.Bad("R16.3", pfn, "query-key-read:"+k, "the parser never reads the "+k+" parameter the generators write", w.Pos(parse.Pos()))
		}
	}
	split := "call(strings.SplitN; call(strings.TrimPrefix; field(Path; " + U + "); const(\"/\")); const(\":\"); const(2))"
	ps := fieldStores(tb, parse, "URLParam")
	expectField := func(field string, accept func(t *Term) bool, what string) {
		sts := ps[field]
		if len(sts) == 0 {
			c.Bad("R16.5", pfn, "parsed:"+field, "the parser never sets "+field, w.Pos(parse.Pos()))
			return
		}
		for _, st := range sts {
			vt := tb.Of(st.Val)
			c.Decide(accept(vt), "R16.5", pfn, "parsed:"+field, field+" ← "+what, field+" is set from "+clip(vt.String(), 240)+", expected "+what, w.InstrPos(st))
		}
	}
	// strings.Cut(x, ":") gives the same two halves as SplitN(x, ":", 2) whenever a ':' is present
	cut := "call(strings.Cut; call(strings.TrimPrefix; field(Path; " + U + "); const(\"/\")); const(\":\"))"
	expectField("Issuer", func(t *Term) bool {
		return t.String() == "index("+split+"; const(0))" || t.String() == "extract(0; "+cut+")"
	}, "the label before the first ':' (leading '/' removed, nothing else trimmed)")
	expectField("AccountName", func(t *Term) bool {
		return t.String() == "index("+split+"; const(1))" || t.String() == "extract(1; "+cut+")"
	}, "the label after the first ':'")
	expectField("Secret", func(t *Term) bool { return t.String() == get("secret") }, "query secret")
	isParse := func(t *Term, key string) bool {
		for t.Op == "conv" {
			t = t.Args[0]
		}
		return t.Op == "extract" && t.Sym == "0" && t.Args[0].Op == "call" && strings.HasPrefix(t.Args[0].Sym, "strconv.") && t.Args[0].Args[0].String() == get(key)
	}
	// a number written in the URL is used whenever it is there: the store of the parsed value is conditioned only on
	// the parameter being present and on its parse having succeeded (beyond what holds on every successful parse) —
	// not, say, on the spelling of the type
	baseline := map[string]bool{}
	firstRet := true
	for _, r := range Returns(parse) {
		if len(r.Results) < 2 || !isNilConst(r.Results[len(r.Results)-1]) {
			continue
		}
		cur := map[string]bool{}
		for _, cd := range CondsAt(r.Block()) {
			cur[fmt.Sprintf("%v|%s", cd.Pos, tb.Of(cd.V).String())] = true
		}
		if firstRet {
			baseline, firstRet = cur, false
		} else {
			for k := range baseline {
				if !cur[k] {
					delete(baseline, k)
				}
			}
		}
	}
	for _, fk := range [][2]string{{"Digits", "digits"}, {"Period", "period"}} {
		for _, st := range ps[fk[0]] {
			if !isParse(tb.Of(st.Val), fk[1]) {
				continue
			}
			extra := ""
			for _, cd := range CondsAt(st.Block()) {
				ct := tb.Of(cd.V)
				if baseline[fmt.Sprintf("%v|%s", cd.Pos, ct.String())] {
					continue
				}
				cs := ct.String()
				switch {
				case ct.Op == "bin" && (ct.Sym == "!=" || ct.Sym == "==") && strings.Contains(cs, get(fk[1])) && strings.Contains(cs, `const("")`) && !strings.Contains(cs, "strconv."):
					// presence of the parameter
				case strings.Contains(cs, "extract(1; call(strconv.") && strings.Contains(cs, get(fk[1])):
					// success of its parse
				case ct.Op == "bin" && strings.Contains(cs, "extract(0; call(strconv.") && strings.Contains(cs, get(fk[1])):
					// a range test on the parsed number itself
				default:
					extra = cs
				}
			}
			c.Decide(extra == "", "R16.5", pfn, "parsed-when-present:"+fk[0], "the "+fk[1]+" written in the URL is used whenever it is present and well-formed", "the parsed "+fk[1]+" is used only under the extra condition "+clip(extra, 160)+": a URL that carries the parameter can be parsed with the default instead (or with an unparsable value accepted)", w.InstrPos(st))
		}
	}
	expectField("Digits", func(t *Term) bool { return (t.IsConst() && t.Sym == "6") || isParse(t, "digits") }, "6 by default, else the number parsed from query digits")
	expectField("Period", func(t *Term) bool { return (t.IsConst() && t.Sym == "30") || isParse(t, "period") }, "30 by default, else the number parsed from query period")
	// algorithm names: what Algorithm.String() yields for each hash value (a name table looked up by the receiver,
	// or a switch on the receiver) against the parser's switch
	names := map[string]int64{}
	namesOK := false
	sf := w.Func(OtpPath, "Algorithm.String")
	// the name table is whichever package-level map String() looks its receiver up in
	nameTab := ""
	if sf != nil {
		if r := tb.Results(sf, nil, nil, 0); len(r) == 1 && r[0].Op == "lookup" && len(r[0].Args) == 2 && r[0].Args[0].Op == "gval" && r[0].Args[1].String() == fmt.Sprintf("param(%s#0)", FuncName(sf)) {
			nameTab = strings.TrimPrefix(r[0].Args[0].Sym, "otp.")
		}
	}
	if e, info := w.GlobalInit(OtpPath, nameTab); nameTab != "" && e != nil && sf != nil {
		lit := EvalLit(e, info)
		if lit != nil && lit.Kind == "map" {
			for i, k := range lit.Keys {
				kv, _ := k.Int()
				s, _ := lit.Elems[i].Str()
				if kv != nil {
					names[s] = kv.Int64()
				}
			}
		}
		r := tb.Results(sf, nil, nil, 0)
		want := fmt.Sprintf("lookup(gval(otp.%s); param(%s#0))", nameTab, FuncName(sf))
		namesOK = len(r) == 1 && r[0].String() == want
		c.Decide(namesOK, "R16.3", FuncName(sf), "algorithm-name-lookup", "Algorithm.String() is the lookup in the name table", "Algorithm.String() returns "+clip(fmt.Sprint(r), 160)+", not the name table entry of its receiver", w.Pos(sf.Pos()))
	} else if sf != nil {
		// switch form: evaluate String() for every receiver value
		paths, err := EnumPaths(sf, 1024)
		if err == nil {
			ae := &AEval{W: w, TB: tb}
			namesOK = true
			for v := int64(0); v < 256 && namesOK; v++ {
				cell := Cell{fmt.Sprintf("param(%s#0)", FuncName(sf)): aInt(v, v)}
				feas, dec := ae.FeasiblePaths(paths, cell)
				if !dec || len(feas) != 1 || feas[0].Ret == nil {
					namesOK = false
					break
				}
				rt := tb.Of(feas[0].Result(0))
				if !rt.IsConst() {
					namesOK = false
					break
				}
				if nm, err := unquote(rt.Sym); err == nil && nm != "" {
					if _, dup := names[nm]; dup {
						namesOK = false
					}
					names[nm] = v
				}
			}
		}
		c.Decide(namesOK, "R16.3", FuncName(sf), "algorithm-name-lookup", "Algorithm.String() yields one constant name per hash value (evaluated for all 256 receiver values)", "Algorithm.String() is neither a lookup in a name table nor a switch yielding one constant name per value", w.Pos(sf.Pos()))
	}
	if sf != nil && namesOK {
		got := map[string]string{}
		for _, en := range stringSwitchTables(w, tb, parse) {
			if en.Target == "Algorithm" {
				got[en.Lit] = en.Val
			}
		}
		var ns []string
		for n := range names {
			ns = append(ns, n)
		}
		sort.Strings(ns)
		for _, n := range ns {
			g := got[strings.ToUpper(n)]
			c.Decide(g == fmt.Sprint(names[n]), "R16.3", pfn, "algorithm-name:"+n, "the name the generator writes for this hash parses back to the same hash", fmt.Sprintf("the generator writes %q for hash %d but the parser maps it to %q", n, names[n], g), w.Pos(parse.Pos()))
		}
		if len(names) != 3 {
			c.Bad("R16.3", "otp.Algorithm.String", "algorithm-names", fmt.Sprintf("%d hash names, expected three", len(names)), "")
		}
	} else if sf == nil {
		c.Unk("R16.3", "otp", "algorithm-names", "Algorithm.String was not found", "")
	}
	// scheme and kinds compared by the parser
	schemeOK, kindsRead := false, map[string]bool{}
	EachInstr(parse, func(in ssa.Instruction) {
		bo, ok := in.(*ssa.BinOp)
		if !ok || !isCompare(bo.Op) {
			return
		}
		t := tb.Of(bo)
		for k := 0; k < 2; k++ {
			a, b := t.Args[k], t.Args[1-k]
			if !a.IsConst() {
				continue
			}
			s, err := unquote(a.Sym)
			if err != nil {
				continue
			}
			if b.String() == "field(Scheme; "+U+")" && s == "otpauth" {
				schemeOK = true
			}
			if strings.Contains(b.String(), "field(Host; "+U+")") {
				kindsRead[s] = true
			}
		}
	})
	c.Decide(schemeOK, "R16.3", pfn, "scheme-read", "the parser requires the scheme literal the generator writes", "the parser does not compare the scheme with \"otpauth\"", w.Pos(parse.Pos()))
	for k := range kinds {
		c.Decide(kindsRead[k], "R16.3", pfn, "kind:"+k, "the parser accepts the type the generator writes", "the parser does not accept the generated type "+k, w.Pos(parse.Pos()))
	}
	if len(kinds) != 2 {
		c.Bad("R16.3", bfn, "kinds", fmt.Sprintf("generators write %d distinct types, expected totp and hotp", len(kinds)), "")
	}

	// ---- R16.2 lossless numbers --------------------------------------------------------------------
	nconv := 0
	for f := range w.Reachable(parse) {
		if fnPkgPath(f) != OtpPath {
			continue
		}
		EachInstr(f, func(in ssa.Instruction) {
			cv, ok := in.(*ssa.Convert)
			if !ok {
				return
			}
			if _, isInt, _ := intInfoOK(cv.Type(), w); !isInt {
				return
			}
			if _, isInt, _ := intInfoOK(cv.X.Type(), w); !isInt {
				return
			}
			if valuePreserving(cv.X.Type(), cv.Type(), w) {
				return
			}
			nconv++
			in2 := iv.At(cv.X, cv.Block())
			tr := iv.TypeRange(cv.Type())
			fits := in2.Lo != nil && in2.Hi != nil && in2.Lo.Cmp(tr.Lo) >= 0 && in2.Hi.Cmp(tr.Hi) <= 0
			c.Decide(fits, "R16.2", FuncName(f), "conversion:"+cv.X.Type().String()+"->"+cv.Type().String(), "the parsed number is within the target type's range at the conversion ("+in2.String()+")", fmt.Sprintf("a parsed number in %s is converted to %s (range %s): values outside wrap or truncate instead of being rejected", in2, cv.Type(), tr), w.InstrPos(in))
		})
	}
	c.Count("narrowing_conversions", nconv)
	// ---- R16.4 defaults agree: generator 0 -> 6 --------------------------------------------------
	okD := false
	for _, st := range sets {
		if st.key == "digits" {
			if x, ok := decimalOf(tb, st.val); ok {
				okD, _ = defaultedInt(tb, builder, x, fld("Digits"), "Digits", "6")
			}
		}
	}
	c.Decide(okD, "R16.4", bfn, "digits-default", "the generator writes 6 for a zero code length, the value the parser defaults to", "the generator does not default a zero code length to 6", w.Pos(builder.Pos()))
	ruleHistoryIndependence(c, w, tb, ef, "R16.H", genT, genH, parse)
	checkRESTEndpoints(c, w, tb, ef, "R16.REST", "/otp/url")
	c.Floor("R16.1", 3)
	c.Floor("R16.2", 1)
	c.Floor("R16.3", 10)
	c.Floor("R16.5", 10)
}

func init() {
	register(&propDef{
		id:    "C16",
		level: "other",
		explain: "Escaping/unescaping inverses are net/url's (trusted); decided is that the code uses them in the one way that composes and never narrows numbers: R16.1 no PathEscape/QueryEscape-derived value is stored in the decoded fields of url.URL (Path, Host, Scheme) and RawQuery is exactly url.Values.Encode(); " +
			"R16.2 every narrowing or sign-changing integer conversion reachable from ParseOTPAuthURL has an operand interval (from the ParseUint/ParseInt bit size or a dominating range gate) inside the target type, on linux/amd64 and linux/386; " +
			"R16.3 writer/reader tables agree: every query key the parser reads is written with the identical literal, hash names written (algoStrMap) parse back to the same hash, scheme and the two type literals agree; R16.4 defaults agree (0→6 digits, 0→30 s, parser defaults 6/SHA-1/30); " +
			"R16.5 field mapping: each URLParam field reaches its own query key / label half (label = \"/\"+issuer+\":\"+account) and the parser takes issuer/account from SplitN(TrimPrefix(Path,\"/\"), \":\", 2), secret/digits/period from their keys. Not decided: round-trip over all Unicode strings (net/url). " +
			"R16.5 parsed-when-present: the store of a parsed digits/period value is conditioned only on the parameter being present, its parse having succeeded and range tests of the parsed number.",
		trusted:  []string{"net/url: URL.String / url.Parse / Values.Encode / URL.Query are mutually inverse", "strconv.ParseUint(s, 10, bits) returns a value below 2^bits or an error"},
		quick:    []Config{CfgNative},
		thorough: []Config{CfgNative, CfgWasm, Cfg386},
		run:      runC16,
	})
}

func isNonString(t types.Type) bool {
	if t == nil {
		return false
	}
	b, ok := t.Underlying().(*types.Basic)
	return !ok || b.Info()&types.IsString == 0
}

// extraQueryParams: the type-specific query parameters a URL generator hands to the shared builder — the entries of
// a map literal it passes (walked by the builder with Set(k, v)), or the Values.Set calls reached from it whose key,
// with the generator's arguments bound, is a constant that the builder does not write by itself.
func extraQueryParams(tb *TB, g *ssa.Function) map[string]*Term {
	out := map[string]*Term{}
	EachInstr(g, func(in ssa.Instruction) {
		if mu, ok := in.(*ssa.MapUpdate); ok {
			if k, ok := mu.Key.(*ssa.Const); ok && k.Value != nil && k.Value.Kind() == constant.String {
				out[constant.StringVal(k.Value)] = tb.Of(mu.Value)
			}
		}
	})
	for _, h := range tb.Reach(g, MatchCallee("(net/url.Values).Set"), 3) {
		if len(h.Args) != 3 || !h.Args[1].IsConst() || len(h.Levels) < 2 {
			continue
		}
		// only keys that arrive through the generator's own arguments (in the builder's frame the key is not a literal)
		if cl, ok := h.Call.(*ssa.Call); ok {
			if _, lit := cl.Call.Args[1].(*ssa.Const); lit {
				continue
			}
		}
		if k, err := unquote(h.Args[1].Sym); err == nil {
			out[k] = h.Args[2]
		}
	}
	return out
}
