// otpsa: static checker for the ja7ad/otp properties C01..C20.
//
//	otpsa check <id> <quick|thorough>   run one property check on /repo's working tree
//	otpsa replay <path>                 re-evaluate the obligation recorded in a replay file
//	otpsa terms <pkgpath> <func>        debugging: print origin terms of a function
package main

import (
	"encoding/json"
	"fmt"
	"os"
	"strconv"

	"verif/sa/eng"
)

func root() string {
	if r := os.Getenv("VERIF_ROOT"); r != "" {
		return r
	}
	return "/verif"
}

func main() {
	if r := os.Getenv("OTPSA_REPO"); r != "" {
		eng.RepoDir = r
	}
	if len(os.Args) < 2 {
		fmt.Fprintln(os.Stderr, "usage: otpsa check <id> <tier> | replay <path> | terms <pkg> <func>")
		os.Exit(2)
	}
	switch os.Args[1] {
	case "check":
		if len(os.Args) < 4 {
			fmt.Fprintln(os.Stderr, "usage: otpsa check <id> <quick|thorough>")
			os.Exit(2)
		}
		os.Exit(runCheck(os.Args[2], os.Args[3], ""))
	case "replay":
		b, err := os.ReadFile(os.Args[2])
		if err != nil {
			fmt.Fprintln(os.Stderr, err)
			os.Exit(2)
		}
		var r struct {
			Property, Tier, Key string
		}
		if err := json.Unmarshal(b, &r); err != nil {
			fmt.Fprintln(os.Stderr, err)
			os.Exit(2)
		}
		os.Exit(runCheck(r.Property, r.Tier, r.Key))
	case "terms":
		eng.DebugTerms(os.Args[2], os.Args[3], len(os.Args) > 4 && os.Args[4] == "wasm")
	default:
		fmt.Fprintln(os.Stderr, "unknown command", os.Args[1])
		os.Exit(2)
	}
}

func runCheck(id, tier, onlyKey string) int {
	seed, _ := strconv.Atoi(os.Getenv("VERIF_SEED"))
	defer func() {
		if r := recover(); r != nil {
			fmt.Fprintf(os.Stderr, "checker panic: %v\n", r)
			panic(r)
		}
	}()
	c := eng.Run(id, tier)
	if c == nil {
		fmt.Fprintf(os.Stderr, "no check for property %s\n", id)
		return 2
	}
	if onlyKey != "" {
		found := false
		for _, o := range c.Obls {
			if o.Key() == onlyKey {
				found = true
				fmt.Printf("REPLAY %s [%s] %s %s\n   %s\n", o.Status, o.Config, o.Key(), o.Pos, o.Reason)
			}
		}
		if !found {
			fmt.Printf("REPLAY: obligation %q no longer exists on this tree\n", onlyKey)
		}
	}
	return c.Finish(root(), seed)
}
