#!/usr/bin/env python3
"""refresh_seeded.py: re-run each seeded mutant's property check (bin/mutest, scratch worktree) and record the outcome in meta.json."""
import os, json, glob, subprocess, sys
bad = 0
for d in sorted(glob.glob('/verif/seeded/C*-[mnpqrst]*')):
    pid = os.path.basename(d).split('-')[0]
    r = subprocess.run(['/verif/bin/mutest', pid, d + '/patch.diff'], capture_output=True, text=True, env=dict(os.environ, MUTEST_LINES='8'))
    lines = r.stdout.strip().splitlines()
    mp = d + '/meta.json'
    m = json.load(open(mp))
    m['check_result'] = lines[-1] if lines else ''
    m['check_report'] = [l.strip()[:300] for l in lines[:-1]][:8]
    json.dump(m, open(mp, 'w'), indent=1)
    ok = 'DETECTED' in m['check_result']
    bad += 0 if ok else 1
    print(os.path.basename(d), m['check_result'], flush=True)
print('not detected:', bad)
