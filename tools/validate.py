#!/usr/bin/env python3-vt
import json, jsonschema, glob, sys
m=json.load(open('/verif/MANIFEST.json')); s=json.load(open('/root/.vp/MANIFEST.schema.json'))
jsonschema.validate(m,s); print("manifest valid; claimed", len(m['checks']))
es=json.load(open('/root/.vp/EVIDENCE.schema.json'))
for c in m['checks']:
    try:
        e=json.load(open(c['evidence_file'])); jsonschema.validate(e,es)
        assert e['level']==c['level_claimed']['category'], (c['property_id'], e['level'])
        print(" ", c['property_id'], "evidence valid", e['tier'], e['coverage']['obligations'], e['coverage']['discharged'], "viol", e.get('violations'))
    except Exception as ex:
        print(" ", c['property_id'], "EVIDENCE PROBLEM", str(ex)[:200])
