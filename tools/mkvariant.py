#!/usr/bin/env python3
"""mkvariant.py <prop> <name> <file> <old> <new> [<file> <old> <new> ...]
Creates /verif/variants/<prop>/<name>.patch: a single seeded change to /repo's HEAD, produced in a
scratch worktree (never in /repo). The variant must still compile (native, internal/app, js/wasm)."""
import sys, subprocess, os
prop, name = sys.argv[1], sys.argv[2]
trip = sys.argv[3:]
wt = '/tmp/otpsa-variant-wt'
head = subprocess.check_output(['git','-C','/repo','rev-parse','HEAD'], text=True).strip()
if not os.path.isdir(wt):
    subprocess.check_call(['git','-C','/repo','worktree','add','-q','--detach',wt,head])
subprocess.check_call(['git','-C',wt,'checkout','-q','--detach',head]); subprocess.check_call(['git','-C',wt,'checkout','-q','--','.']); subprocess.call(['git','-C',wt,'clean','-qfd'])
for i in range(0, len(trip), 3):
    f, old, new = trip[i:i+3]
    p = os.path.join(wt, f); s = open(p).read()
    if s.count(old) != 1:
        print(f"ERROR: {old!r} occurs {s.count(old)} times in {f}"); sys.exit(1)
    open(p,'w').write(s.replace(old, new))
env = dict(os.environ, PATH='/opt/veriftools/go1.26.8/bin:'+os.environ['PATH'], GOTOOLCHAIN='local', GOPROXY='off', GOSUMDB='off', GOFLAGS='')
env.pop('GOWORK', None)
def ok(cmd, cwd, extra=None):
    e = dict(env); e.update(extra or {})
    r = subprocess.run(cmd, cwd=cwd, env=e, capture_output=True, text=True)
    if r.returncode != 0: print("BUILD/TEST FAILS:", ' '.join(cmd), (r.stdout+r.stderr)[-600:])
    return r.returncode == 0
good = ok(['go','build','./...'], wt) and ok(['go','build','./...'], wt+'/internal/app') and ok(['go','vet','.','./wasm'], wt, {'GOOS':'js','GOARCH':'wasm'})
tests = ok(['go','test','-count=1','-vet=off','./...'], wt) if good else False
diff = subprocess.check_output(['git','-C',wt,'diff'], text=True)
subprocess.check_call(['git','-C',wt,'checkout','-q','--','.'])
if not good: sys.exit(1)
os.makedirs(f'/verif/variants/{prop}', exist_ok=True)
open(f'/verif/variants/{prop}/{name}.patch','w').write(diff)
print(f"variant {prop}/{name}: compiles, existing tests {'PASS' if tests else 'FAIL (variant kept: checker self-test only)'}")
