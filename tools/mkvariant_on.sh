#!/bin/bash
# mkvariant_on.sh <base.patch> <prop> <name> <file> <old> <new> : breaking variant on top of a refactoring
base=$1; prop=$2; name=$3; file=$4; old=$5; new=$6
/verif/tools/dbgwt.sh "$base" >/dev/null
python3 - "$file" "$old" "$new" <<'PY'
import sys
p='/tmp/otpsa-dbg-wt/'+sys.argv[1]; s=open(p).read(); assert sys.argv[2] in s, "old text not found"; open(p,'w').write(s.replace(sys.argv[2],sys.argv[3],1))
PY
[ $? -eq 0 ] || exit 1
( cd /tmp/otpsa-dbg-wt && . /verif/bin/env.sh && unset GOFLAGS && go build ./... ) || { echo "DOES NOT BUILD"; exit 1; }
mkdir -p /verif/variants/$prop; git -C /tmp/otpsa-dbg-wt diff > /verif/variants/$prop/$name.patch
/verif/bin/mutest $prop /verif/variants/$prop/$name.patch | tail -2
