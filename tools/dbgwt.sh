#!/bin/bash
# dbgwt.sh <patch> : (re)create scratch worktree /tmp/otpsa-dbg-wt at /repo HEAD with <patch> applied (developer aid)
wt=/tmp/otpsa-dbg-wt
head=$(git -C /repo rev-parse HEAD)
[ -d "$wt" ] || git -C /repo worktree add -q --detach "$wt" "$head"
git -C "$wt" checkout -q --detach "$head" && git -C "$wt" checkout -q -- . && git -C "$wt" clean -qfd
[ -n "$1" ] && git -C "$wt" apply "$(readlink -f "$1")"
echo "OTPSA_REPO=$wt"
