#!/bin/bash
# every benign (behaviour-preserving) variant must leave every given check silent
props="${@:-C01}"
for p in /verif/variants/benign/*.patch; do
  for prop in $props; do
    r=$(/verif/bin/mutest "$prop" "$p" quick | tail -1)
    case "$r" in *MISSED*) echo "$(basename $p .patch) $prop: silent (good)";; *) echo "$(basename $p .patch) $prop: FALSE ALARM"; /verif/bin/mutest "$prop" "$p" quick | head -4 | cut -c1-300;; esac
  done
done
