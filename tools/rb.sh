#!/bin/bash
# rb.sh <patchname> <props,comma> : run refactor variant against props
. /verif/bin/env.sh; unset GOFLAGS
/verif/bin/check C01 quick >/dev/null 2>&1 # rebuilds the checker if stale
BENIGN_DIR=/verif/variants/refactor PROPS="$2" python3 /verif/tools/run_benign_all.py "$1" 2>&1 | cut -c1-700
