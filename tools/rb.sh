#!/bin/bash
# rb.sh <patchname> <props,comma> : run refactor variant against props
. /verif/bin/env.sh; unset GOFLAGS
BENIGN_DIR=/verif/variants/refactor PROPS="$2" python3 /verif/tools/run_benign_all.py "$1" 2>&1 | cut -c1-700
