#!/usr/bin/env python3
"""Regenerates the 'which checks catch which changes' block of DESIGN.md from the self-test results in
evidence/<id>.json (thorough runs) and seeded/*/meta.json."""
import json, glob, os, re
rows = []
tot_b = tot_f = 0
for ev in sorted(glob.glob('/verif/evidence/C*.json')):
    e = json.load(open(ev)); pid = e['property_id']
    st = e.get('coverage', {}).get('self_test')
    if not st: continue
    tot_b += st['breaking_total']; tot_f += st['breaking_fired']
    rows.append((pid, st))
out = []
out.append("Generated from the thorough self-test (`coverage.self_test` in `evidence/<id>.json`) and `seeded/*/meta.json`.")
out.append("")
seeded_dirs = sorted(glob.glob('/verif/seeded/C*-[mnpqrst]*'))
n_seeded = len(seeded_dirs)
n_det = sum(1 for d in seeded_dirs if 'DETECTED' in json.load(open(os.path.join(d, 'meta.json'))).get('check_result', ''))
out.append(f"**Seeded by independent sub-agents** in seven rounds (suffixes m, n, p, q, r, s, t; each agent was given only the property text and a scratch worktree, and from round two on a list of the kinds of change already used; 3 per property and round, {n_seeded} in total; every one confirmed here: demo passes on the clean tree, existing tests and all builds pass with the change, demo fails with the change — demos that are scripts, JavaScript, js/wasm or build-overlay runs were confirmed by hand, see `meta.json`). {n_det} of {n_seeded} are reported by the check of the property they target on today's tree. When first run against the checks as they stood, round two had 11 misses, round three 21, round four 14, round five 8, round six 11, round seven 6; each miss led to a new or generalised rule (named in §3 under the property), never to a special case:")
out.append("")
out.append("| change | what it needs to manifest (from the author's notes) | reported by |")
out.append("|---|---|---|")
for d in seeded_dirs:
    m = json.load(open(os.path.join(d, 'meta.json')))
    rules = sorted({re.search(r'rule ([^,]+),', l).group(1) for l in m.get('check_report', []) if re.search(r'rule ([^,]+),', l)})
    first = ''
    notes = os.path.join(d, 'NOTES.md')
    if os.path.isfile(notes):
        txt = open(notes).read()
        mm = re.search(r'(?im)^#+\s*(.+)$', txt)
        first = (mm.group(1) if mm else txt.strip().splitlines()[0])[:110]
    res = 'DETECTED' if 'DETECTED' in m.get('check_result', '') else 'MISSED'
    out.append(f"| `{m['id']}` | {first.replace('|','/')} | {res}: {', '.join(rules) or '(see meta.json)'} |")
out.append("")
out.append("**Hand-written single-instance variants** (`variants/<id>/`) and the sub-agent changes, per property, from the last self-test run of the current checker; benign = behaviour-preserving variants and refactorings that must stay silent. Properties whose evidence carries no `coverage.self_test` (the self-test takes about seven minutes per property and is skipped with `OTPSA_NO_SELFTEST=1`) are not listed; for all twenty properties the same self-test, run on the checker as it stood before the round-eight rules were added, reported 634 of 634 breaking changes and stayed silent on every benign patch except the documented residuals (commit \"evidence (thorough + self-test, rounds 1-7), catches table, manifest\"):")
out.append("")
out.append("| property | breaking changes reported | missed | benign silent | rules that fired (variant → rule) |")
out.append("|---|---|---|---|---|")
for pid, st in rows:
    fr = '; '.join(f"{k}→{v.split(',')[0]}" for k, v in sorted(st.get('fired_rules', {}).items()))
    out.append(f"| {pid} | {st['breaking_fired']}/{st['breaking_total']} | {', '.join(st['breaking_missed']) or '–'} | {st['benign_silent']}/{st['benign_total']} | {fr[:900]} |")
out.append("")
out.append(f"Totals: {tot_f}/{tot_b} breaking changes reported. History of misses that led to stronger checks: `C04-m3` (pooled REST request object) was first missed by C04 and is caught since the REST endpoint rules run inside the library properties; `C19-m3` (quadratic string building) led to the cost rule of R19.1; `C20-m1` (32-bit accumulator in 10^n) led to checking the accumulator's type; `C15-m2`/`C14-m2` (memoising caches) led to the shared path-hygiene rule; `C11-m1`/`C06-m3` led to following pooled buffers through local cells, helpers and deferred closures.")
block = "\n".join(out)
p = '/verif/DESIGN.md'; s = open(p).read()
s = re.sub(r'(<!-- CATCHES:BEGIN[^>]*-->).*?(<!-- CATCHES:END -->)', lambda m: m.group(1) + "\n" + block + "\n" + m.group(2), s, flags=re.S)
open(p, 'w').write(s)
print("catches block:", len(rows), "properties,", tot_f, "/", tot_b)
