#!/usr/bin/env python3
"""run_benign_all.py [patch-name ...]: every benign variant x every property check must stay silent."""
import sys, os, glob, subprocess, tempfile, shutil, json, concurrent.futures
props = os.environ.get('PROPS').split(',') if os.environ.get('PROPS') else ['C%02d' % i for i in range(1, 21)]
names = sys.argv[1:]
patches = [p for p in sorted(glob.glob(os.environ.get('BENIGN_DIR','/verif/variants/benign')+'/*.patch')) if not names or os.path.basename(p)[:-6] in names]
base = tempfile.mkdtemp(prefix='otpsa-benign-')
def prep(patch):
    d = tempfile.mkdtemp(dir=base); cp = os.path.join(d, 'repo')
    subprocess.check_call(['rsync', '-a', '--exclude', '.git', '/repo/', cp + '/'])
    r = subprocess.run(['git', 'apply', '--unsafe-paths', '--directory=' + cp, patch], cwd='/', capture_output=True, text=True)
    return cp if r.returncode == 0 else None
def run(args):
    patch, cp, pid = args
    out = tempfile.mkdtemp(dir=base)
    env = dict(os.environ, OTPSA_REPO=cp, VERIF_ROOT=out); env.pop('GOFLAGS', None)
    r = subprocess.run([os.environ.get('OTPSA_BIN', '/verif/bin/otpsa'), 'check', pid, 'quick'], env=env, capture_output=True, text=True)
    msg = [l.strip()[:260] for l in r.stdout.splitlines() if l.startswith('  VIOLATED') or l.startswith('  UNDECIDED') or l.startswith('      ')][:4]
    return (os.path.basename(patch)[:-6], pid, r.returncode, msg)
jobs = []
for p in patches:
    cp = prep(p)
    if cp is None:
        print('SKIP (does not apply):', p); continue
    for pid in props:
        jobs.append((p, cp, pid))
bad = 0
with concurrent.futures.ThreadPoolExecutor(max_workers=8) as ex:
    for name, pid, rc, msg in ex.map(run, jobs):
        if rc != 0:
            bad += 1
            print(f'FALSE ALARM {name} {pid}:'); [print('   ', m) for m in msg]
shutil.rmtree(base, ignore_errors=True)
print(f'{len(jobs)} runs, {bad} false alarms')
