#!/usr/bin/env python3
"""confirm_seeded.py <src_root> [ids...]
Confirms each sub-agent mutant under <src_root>/Cxx/_mut/k in a scratch worktree of /repo HEAD
(never in /repo): (1) demo passes on the clean tree, (2) with the patch the tree compiles and the
existing tests pass, (3) the demo fails with the patch. Confirmed mutants are stored as
/verif/seeded/<id>-m<k>/ {patch.diff, demo files, NOTES.md, meta.json}. Then the property's check is
run against the mutant (bin/mutest) and the outcome recorded in meta.json."""
import sys, os, re, subprocess, json, shutil, glob

SRC = sys.argv[1]
IDS = sys.argv[2:] or sorted(d for d in os.listdir(SRC) if re.fullmatch(r'C\d\d', d))
WT = '/tmp/otpsa-seed-wt'
ENV = dict(os.environ, PATH='/opt/veriftools/go1.26.8/bin:' + os.environ['PATH'], GOTOOLCHAIN='local', GOPROXY='off', GOSUMDB='off', GOFLAGS='')
ENV.pop('GOWORK', None)
WASM_EXEC = 'bash /opt/veriftools/go1.26.8/lib/wasm/go_js_wasm_exec'

def sh(cmd, cwd=WT, env=None, timeout=900):
    e = dict(ENV); e.update(env or {})
    try:
        r = subprocess.run(cmd, cwd=cwd, env=e, capture_output=True, text=True, timeout=timeout, shell=isinstance(cmd, str))
        return r.returncode, (r.stdout + r.stderr)
    except subprocess.TimeoutExpired:
        return 124, 'TIMEOUT'

def reset():
    head = subprocess.check_output(['git', '-C', '/repo', 'rev-parse', 'HEAD'], text=True).strip()
    if not os.path.isdir(WT):
        subprocess.check_call(['git', '-C', '/repo', 'worktree', 'add', '-q', '--detach', WT, head])
    subprocess.check_call(['git', '-C', WT, 'checkout', '-q', '--detach', head])
    subprocess.check_call(['git', '-C', WT, 'checkout', '-q', '--', '.'])
    subprocess.call(['git', '-C', WT, 'clean', '-qfd'])

def demo_plan(mdir):
    """returns list of (relative target dir, filename, go test args, env)"""
    plans = []
    for f in sorted(glob.glob(os.path.join(mdir, '*_test.go'))):
        src = open(f).read()
        m = re.search(r'^package\s+(\w+)', src, re.M)
        pkg = m.group(1) if m else 'otp'
        js = 'js && wasm' in src or 'js,wasm' in src
        tests = re.findall(r'^func (Test\w+)\(', src, re.M)
        if pkg in ('otp', 'otp_test'):
            tgt = '.'
        elif pkg == 'api':
            tgt = 'internal/app/api'
        elif pkg == 'main':
            tgt = 'wasm'
        else:
            tgt = '.'
        plans.append((tgt, f, tests, js))
    return plans

def run_demo(plans):
    out_all, rc_all = '', 0
    for tgt, f, tests, js in plans:
        dst = os.path.join(WT, tgt, 'zz_seeded_' + os.path.basename(f))
        shutil.copy(f, dst)
        run = '^(' + '|'.join(tests) + ')$' if tests else '.'
        cwd = os.path.join(WT, 'internal/app') if tgt.startswith('internal/app') else WT
        pkgarg = './api/' if tgt.startswith('internal/app') else ('./' + tgt if tgt != '.' else '.')
        cmd = ['go', 'test', '-count=1', '-vet=off', '-run', run, pkgarg]
        env = {}
        if js:
            env = {'GOOS': 'js', 'GOARCH': 'wasm'}
            cmd = ['go', 'test', '-count=1', '-vet=off', '-exec', WASM_EXEC, '-run', run, pkgarg]
        rc, out = sh(cmd, cwd=cwd, env=env)
        os.remove(dst)
        out_all += out[-1500:]
        rc_all = rc_all or rc
    return rc_all, out_all

def existing_tests():
    rc1, o1 = sh(['go', 'test', '-count=1', '-vet=off', './...'])
    rc2, o2 = sh(['go', 'build', './...'], cwd=WT + '/internal/app')
    rc3, o3 = sh(['go', 'vet', '.', './wasm'], env={'GOOS': 'js', 'GOARCH': 'wasm'})
    return (rc1 or rc2 or rc3), (o1 + o2 + o3)[-800:]

summary = []
for pid in IDS:
    for k in ('1', '2', '3'):
        mdir = os.path.join(SRC, pid, '_mut', k)
        patch = os.path.join(mdir, 'patch.diff')
        if not os.path.isfile(patch):
            continue
        name = f'{pid}-{os.environ.get("SEED_TAG", "m")}{k}'
        plans = demo_plan(mdir)
        scripts = sorted(glob.glob(os.path.join(mdir, '*.sh')))
        meta = {'id': name, 'property': pid, 'source': 'independent sub-agent given only the property text and a scratch worktree', 'ran': []}
        reset()
        ok = True
        if plans:
            rc, out = run_demo(plans)
            meta['ran'].append({'step': 'demo on clean tree', 'exit': rc, 'tail': out[-300:]})
            if rc != 0:
                ok = False
        rc, out = sh(['git', 'apply', patch])
        if rc != 0:
            rc, out = sh(['git', 'apply', '-3', patch])
        meta['ran'].append({'step': 'git apply patch.diff', 'exit': rc, 'tail': out[-200:]})
        if rc != 0:
            ok = False
        else:
            rc, out = existing_tests()
            meta['ran'].append({'step': 'existing tests + builds with mutant', 'exit': rc, 'tail': out[-300:]})
            if rc != 0:
                ok = False
            if plans:
                rc, out = run_demo(plans)
                meta['ran'].append({'step': 'demo with mutant (must fail)', 'exit': rc, 'tail': out[-400:]})
                if rc == 0:
                    ok = False
            else:
                meta['ran'].append({'step': 'demo', 'note': 'demonstration is a script (' + ', '.join(os.path.basename(s) for s in scripts) + '); see NOTES.md; not re-run by this tool'})
        reset()
        # what is needed to manifest: first paragraph of NOTES mentioning it
        notes = open(os.path.join(mdir, 'NOTES.md')).read() if os.path.isfile(os.path.join(mdir, 'NOTES.md')) else ''
        m = re.search(r'(?is)(needs?|manifest\w*|trigger)[^\n]*\n(.{0,600})', notes)
        meta['needs_to_manifest'] = (m.group(0)[:700] if m else notes[:500]).strip()
        meta['confirmed'] = ok
        # run the property's check against the mutant
        r = subprocess.run(['/verif/bin/mutest', pid, patch], capture_output=True, text=True)
        lines = r.stdout.strip().splitlines()
        meta['check_result'] = lines[-1] if lines else ''
        meta['check_report'] = [l.strip()[:300] for l in lines[:-1]][:8]
        summary.append((name, ok, meta['check_result']))
        if ok:
            dst = f'/verif/seeded/{name}'
            os.makedirs(dst, exist_ok=True)
            for f in os.listdir(mdir):
                if os.path.isfile(os.path.join(mdir, f)) and os.path.getsize(os.path.join(mdir, f)) < 200000:
                    shutil.copy(os.path.join(mdir, f), os.path.join(dst, f))
            json.dump(meta, open(os.path.join(dst, 'meta.json'), 'w'), indent=1)
        print(name, 'CONFIRMED' if ok else 'NOT CONFIRMED', '|', meta['check_result'], flush=True)
        if not ok:
            for s in meta['ran']:
                print('    ', s.get('step'), s.get('exit'), (s.get('tail') or '')[-200:].replace('\n', ' | '))
subprocess.call(['git', '-C', '/repo', 'worktree', 'remove', '--force', WT])
print('\nSUMMARY')
for n, ok, res in summary:
    print(n, 'confirmed' if ok else 'unconfirmed', res)
