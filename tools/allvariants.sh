#!/bin/bash
# every breaking variant must be detected by its property's check (parallel, rsync copies)
. /verif/bin/env.sh; unset GOFLAGS
for p in C01 C02 C03 C04 C05 C06 C07 C08 C09 C10 C11 C12 C13 C14 C15 C16 C17 C18 C19 C20; do
  n=$(ls /verif/variants/$p/*.patch | wc -l)
  out=$(BENIGN_DIR=/verif/variants/$p PROPS=$p python3 /verif/tools/run_benign_all.py 2>&1)
  det=$(echo "$out" | grep -c "FALSE ALARM")
  echo "$p: $det/$n detected"
  for f in /verif/variants/$p/*.patch; do b=$(basename $f .patch); echo "$out" | grep -q "FALSE ALARM $b $p" || echo "   NOT DETECTED: $b"; done
done
