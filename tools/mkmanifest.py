#!/usr/bin/env python3
"""Regenerates /verif/MANIFEST.json from the table below. A property is claimed only when its
rule set is registered in the checker (sa/eng/cNN.go); everything else is listed under
not_applicable with the reason."""
import json, os, re, glob

ROOT = os.path.dirname(os.path.dirname(os.path.abspath(__file__)))
base = json.load(open('/root/.vp/BASELINE.json'))

# id -> (category, design_ref, technique, level text, level note)
CLAIMS = {
 "C11": ("other", "DESIGN.md §3 C11", "SSA write-effect analysis + pooled-buffer confinement (typestate/ownership) + unsafe-view operand rooting",
   "Structural interference-freedom of package otp in every build configuration: no function outside package initialisation writes package-level state (write effects propagated through callees, closures and parameter aliasing); every sync.Pool buffer is confined to the call that took it (never returned, stored, captured, re-sliced upward, used with an un-reset length or used after a non-deferred Put); every no-copy string view is over a per-call allocation that is not written afterwards; exported results are not rooted at package state or pools; no goroutine/channel/lock in the library. These are necessary conditions of the property decided on all paths; they are not a dynamic race detector.",
   "Trusted: go/ssa, sync.Pool semantics, the table of non-retaining callees. Assumes callers do not assign exported package variables. Does not decide the Go memory model or runtime."),
 "C09": ("proof", "DESIGN.md §3 C09", "whole-program taint / information-flow analysis over SSA with inclusion-based points-to",
   "Every comparison, map lookup and external call that an HMAC-derived value can reach — on every path of every function of otp, wasm and internal/app, in the native and js/wasm configurations — is an obligation; it is discharged only if the other operand is a constant / carries no caller data, or the callee is a constant-time comparator (crypto/subtle, hmac.Equal) or a pure formatting/output sink. The analysis is an over-approximation (flow- and context-insensitive heap, explicit flows), so no report means no explicit flow from HMAC output and caller data into an early-exit comparison exists; a floor requires each configuration's constant-time site to be reached by both labels.",
   "Trusted: go/ssa + VTA call graph, stdlib summaries (result depends on all arguments), crypto/subtle being constant-time, fasthttp request-reader/sink summaries. Not covered: micro-architectural timing, implicit flows, the checked-in otp.wasm binary."),
 "C12": ("other", "DESIGN.md §3 C12", "SSA write-effect analysis rooted by origin terms (parameter / package-variable / pool / local)",
   "For every exported function and method of otp: no store, map update, copy destination, append first operand or writing callee — directly or via module callees, closures and returned aliases — is rooted at memory reachable from a parameter; no function outside package initialisation writes the defaults, the registry or any package variable; no reference result is rooted at an argument's mutable storage. Structural necessary-and-sufficient condition for 'never modified' within the trusted callee table; decided on all paths.",
   "Trusted: read-only table of external callees; go/ssa. Does not cover mutation through reflection or unsafe (absent apart from the checked string view)."),
 "C13": ("other", "DESIGN.md §3 C13", "per-return verdict pairing with branch-condition nilness + taint of secret/HMAC labels into error constructors",
   "Every return of every (bool, error) function of the module is classified, with phis split per edge: (true, nil), (false, provably non-nil) or forwarded from another checked verdict function; anything else is reported. Information flow shows that no argument of an error constructor and no error result of an exported operation carries the secret or HMAC-derived data.",
   "Trusted: go/ssa; base32/hex decode errors carry positions only; sentinel errors are never reassigned (checked). Logging is not an error channel per the statement."),
 "C14": ("other", "DESIGN.md §3 C14", "decision-table extraction: path enumeration + three-valued interval abstract interpretation over constant-induced cells",
   "The admission functions touch lengths, flags and enumerators only through comparisons with constants, so their accept sets are computed exactly by abstract interpretation over the finite cell grid induced by every constant in the code and in the property, and compared with the property's predicate (input admission: all flag sets x formats x password hashes x single fields and field pairs; suite usability: full product). Entry-point rules show the validators run first, on the caller's own suite and input, and nothing else conditions on the input.",
   "Domain restricted to the defined ChallengeFormat / PasswordHashAlgorithm enumerators; user-defined Suite implementations excluded by the property. Trusted: go/ssa."),
}

PENDING_REASON = "not claimed at this commit: the rule set planned in DESIGN.md §3 is not implemented yet (no check is registered, so nothing is asserted)"

def registered():
    ids = set()
    for f in glob.glob(os.path.join(ROOT, 'sa/eng/*.go')):
        for m in re.finditer(r'id:\s*"(C\d+)"', open(f).read()):
            ids.add(m.group(1))
    return ids

def main():
    props = [json.loads(l) for l in open(os.path.join(ROOT, 'properties.jsonl'))]
    reg = registered()
    checks, na = [], []
    for p in props:
        i = p['id']
        if i in CLAIMS and i in reg:
            cat, ref, tech, text, note = CLAIMS[i]
            checks.append({
                "property_id": i,
                "quick_cmd": f"/verif/bin/check {i} quick",
                "thorough_cmd": f"/verif/bin/check {i} thorough",
                "evidence_file": f"/verif/evidence/{i}.json",
                "replay_cmd_template": "/verif/bin/otpsa replay {path}",
                "engine": "otpsa",
                "level_claimed": {"category": cat, "text": text, "design_ref": ref},
                "level_note": note,
                "technique": tech,
            })
        else:
            na.append({"property_id": i, "reason": NA.get(i, PENDING_REASON)})
    m = {
        "version": 1,
        "setup_cmd": "cd /verif/sa && . /verif/bin/env.sh && go build -o /verif/bin/otpsa ./cmd/otpsa",
        "hooks": {
            "guard": "verif",
            "enable": "none needed: the checks are static and read /repo's sources as they are; no hook or instrumentation exists in /repo (the build tag 'verif' is reserved and unused)",
            "baseline_off_cmd": base["cmd"],
            "source_commits": [],
            "add_only": True,
        },
        "engines": [{
            "name": "otpsa", "path": "/verif/sa",
            "serves_properties": [c["property_id"] for c in checks],
            "kind_free_text": "repository-specific static analyser over go/packages + go/ssa (x/tools v0.50.0): origin terms, intervals with dominating guards, write effects, taint, decision tables, constant tables; loads linux/amd64, js/wasm and linux/386 configurations of /repo's working tree on every run",
        }],
        "checks": checks,
        "not_applicable": na,
        "notes": "All checks are static (no code of /repo is executed). Violations and undecided obligations both fail the check with a VIOLATION line naming rule, function and construct; genuine defects found on the pinned tree were repaired by fix: commits and are recorded as fixed in known_findings.json.",
    }
    json.dump(m, open(os.path.join(ROOT, 'MANIFEST.json'), 'w'), indent=1)
    print("claimed:", [c["property_id"] for c in checks], "not_applicable:", len(na))

NA = {}
if __name__ == '__main__':
    main()
