#!/usr/bin/env python3
"""Regenerates /verif/MANIFEST.json from the table below. A property is claimed only when its
rule set is registered in the checker (sa/eng/cNN.go); everything else is listed under
not_applicable with the reason."""
import json, os, re, glob

ROOT = os.path.dirname(os.path.dirname(os.path.abspath(__file__)))
base = json.load(open('/root/.vp/BASELINE.json'))

# id -> (category, design_ref, technique, level text, level note)
CLAIMS = {
 "C11": ("other", "DESIGN.md §3 C11", "SSA write-effect analysis + pooled-buffer confinement (typestate/ownership) + unsafe-view operand rooting",
   "Structural interference-freedom of package otp in every build configuration: no function outside package initialisation writes package-level state (write effects propagated through callees, closures and parameter aliasing); every sync.Pool buffer is confined to the call that took it (never returned, stored, captured, re-sliced upward, used with an un-reset length or used after a non-deferred Put); every no-copy string view is over a per-call allocation that is not written afterwards; exported results are not rooted at package state or pools; no goroutine/channel/lock in the library. These are necessary conditions of the property decided on all paths; they are not a dynamic race detector.",
   "Trusted: go/ssa, sync.Pool semantics, the table of non-retaining callees. Assumes callers do not assign exported package variables. Does not decide the Go memory model or runtime."),
 "C09": ("proof", "DESIGN.md §3 C09", "whole-program taint / information-flow analysis over SSA with inclusion-based points-to, plus statelessness and single-comparison rules for the implicit channels",
   "Every comparison, map lookup and external call that an HMAC-derived value can reach — on every path of every function of otp, wasm and internal/app, in the native and js/wasm configurations — is an obligation; it is discharged only if the other operand is a constant / carries no caller data, or the callee is a constant-time comparator (crypto/subtle, hmac.Equal) or a pure formatting/output sink. The analysis is an over-approximation (flow- and context-insensitive heap, explicit flows), so no report means no explicit flow from HMAC output and caller data into an early-exit comparison exists; a floor requires each configuration's constant-time site to be reached by both labels.",
   "Trusted: go/ssa + VTA call graph, stdlib summaries (result depends on all arguments), crypto/subtle being constant-time, fasthttp request-reader/sink summaries. Not covered: micro-architectural timing, implicit flows, the checked-in otp.wasm binary."),
 "C12": ("other", "DESIGN.md §3 C12", "SSA write-effect analysis rooted by origin terms (parameter / package-variable / pool / local)",
   "For every exported function and method of otp: no store, map update, copy destination, append first operand or writing callee — directly or via module callees, closures and returned aliases — is rooted at memory reachable from a parameter; no function outside package initialisation writes the defaults, the registry or any package variable; no reference result is rooted at an argument's mutable storage. Structural necessary-and-sufficient condition for 'never modified' within the trusted callee table; decided on all paths.",
   "Trusted: read-only table of external callees; go/ssa. Does not cover mutation through reflection or unsafe (absent apart from the checked string view)."),
 "C13": ("other", "DESIGN.md §3 C13", "per-return verdict pairing with branch-condition nilness + taint of secret/HMAC labels into error constructors",
   "Every return of every (bool, error) function of the module is classified, with phis split per edge: (true, nil), (false, provably non-nil) or forwarded from another checked verdict function; anything else is reported. Information flow shows that no argument of an error constructor and no error result of an exported operation carries the secret or HMAC-derived data.",
   "Trusted: go/ssa; base32/hex decode errors carry positions only; sentinel errors are never reassigned (checked). Logging is not an error channel per the statement."),
 "C14": ("other", "DESIGN.md §3 C14", "decision-table extraction: path enumeration + three-valued interval abstract interpretation over constant-induced cells",
   "The admission functions touch lengths, flags and enumerators only through comparisons with constants, so their accept sets are computed exactly by abstract interpretation over the finite cell grid induced by every constant in the code and in the property, and compared with the property's predicate (input admission: all flag sets x formats x password hashes x single fields and field pairs; suite usability: full product). Entry-point rules show the validators run first, on the caller's own suite and input, and nothing else conditions on the input.",
   "Domain restricted to the defined ChallengeFormat / PasswordHashAlgorithm enumerators; user-defined Suite implementations excluded by the property. Trusted: go/ssa."),
 "C01": ("other", "DESIGN.md §3 C01", "origin-term composition rules over SSA: constant-table evaluation, interval/dominating-gate analysis, byte-lane abstraction, decimal-sweep loop recognition",
   "Decides that GenerateHOTP is the RFC 4226 composition of trusted primitives, clause by clause and on all paths (modulus table 10^d reaching the reduction unnarrowed; digits/hash gates before the table index; constructor table sha1/sha256/sha512 keyed by the decoded secret unchanged; message = one big-endian PutUint64 of the caller's counter; dynamic truncation by byte lanes; complete descending decimal rendering of exactly `digits` characters; defaults). It does not compute HMACs: numeric equality rests on the trusted primitives; idioms outside the enumerated ones are reported undecided.",
   "Trusted: crypto/hmac, sha1/sha256/sha512, encoding/binary. A structural necessary-condition check, not an evaluation of codes."),
 "C02": ("other", "DESIGN.md §3 C02", "origin-term matching of the time-step function and of the derivation call arguments bound from the entry points; constant evaluation of defaults",
   "TimeCounterFunc is uint64(t.Unix())/uint64(period) and is never reassigned; both TOTP entry points reach exactly the HOTP derivation with counter = TimeCounterFunc(t, period), t used nowhere else, period resolved identically (0 and nil → 30 s) in generation, validation and URL building; digits/algorithm/defaults resolved identically.",
   "The HOTP value is C01's subject. Pre-epoch instants and a caller-replaced TimeCounterFunc are outside the property."),
 "C03": ("other", "DESIGN.md §3 C03", "window analysis by linear offset coverage (validation sites reached through closures/helpers, unit-stride induction, linear bounds and counter argument, path conditions as restrictions or the underflow guard, enumerated for the gated sizes 0..10) + interval analysis of the gate + origin terms bound along the call chain for the comparison core",
   "The window size is exactly in [0,10] where the window is walked (dominating gate); for each such size the counters handed to the per-step validation — over all validation sites and loop shapes — are exactly centre-s..centre+s around the caller's counter; every step that can fall below zero is validated only under the guard 'step counter ≥ 0' compared without wrap-around; acceptance only under a value carrying that step's verdict; the comparison core compares the whole submitted string in constant time with the whole result of the same derivation generation uses (same key, digits, algorithm), after the length test; defaults 6/SHA-1/2. Structural conditions each of which is necessary for the stated 'iff'.",
   "Together with C01. Does not show that codes of different counters differ (not claimed)."),
 "C04": ("other", "DESIGN.md §3 C04", "same window analysis as C03 on ValidateTOTP (no underflow skip: the window is modulo 2^64) plus period-resolution agreement",
   "Skew exactly in [0,10] where the window is walked (bounded work), the steps validated are exactly TimeCounterFunc(t,period)-s..+s for every size, no step is skipped near zero, acceptance only under the step verdict, shared comparison core, defaults {6, SHA-1, 30 s, 0}, period resolution identical in generation and validation.",
   "Together with C01/C02. The property's domain has the whole window at or after step 0."),
 "C15": ("other", "DESIGN.md §3 C15", "exhaustive constant-table evaluation of the registry against an independent RFC 6287 name parser; table identity; parser token tables; dominance of Validate()==nil",
   "All 45 registry entries are evaluated from the syntax tree and compared field by field with what an independent parser of the name says (exhaustive for the advertised names); the four lookup functions read that one never-written table; NewRawSuite reports the given string as name; the parser's token tables, unit scaling without narrowing, validate-before-return, whole-token version equality and exactly three parts are checked; no memoisation on the path.",
   "The parser's behaviour over the whole string language (Split/Atoi semantics) is not decided. 'T1' without unit means seconds (frozen exception)."),
 "C05": ("other", "DESIGN.md §3 C05", "message-layout linearisation from gated SSA (append chain), path enumeration of the pad helper, shared RFC 4226 composition rules, dominance of the validators, decision tables for the suite contract",
   "The single HMAC Write's argument is linearised and must be exactly suite string, 0x00, then C(8) Q(128) P S(128) T(8) each under its own flag from one Config(); the pad helper returns exactly width bytes with right zero padding on all paths; the tail is the C01 composition with the suite's hash/digits (modulus 10^4..10^10); both validators gate all work and the suite contract (digits 4..10, hash 0..2, Config identity) is proved; each input field is read only under its flag.",
   "Trusted: crypto/hmac and hashes. Numerical equality rests on the composition; parser-produced names are C15's subject."),
 "C06": ("other", "DESIGN.md §3 C06", "origin terms bound through calls and closures: same derivation / same arguments; branch-condition analysis for error-before-compare and verdict pairing",
   "Generation and validation reach exactly one call of the same derivation with (DecodeSecret(secret), the caller's suite, the caller's input); the constant-time comparison is whole-string against that call's result, after a length test against Config().Digits of that suite, reached only when the derivation returned no error; every return on the path is a well-formed verdict. Equivalence then follows from sharing, with no numerical argument.",
   "Trusted: go/ssa. The derivation's value is C05's subject."),
 "C07": ("other", "DESIGN.md §3 C07", "origin-term pipeline matching of DecodeSecret + call-tree walk binding the HMAC key of every entry point",
   "DecodeSecret is one strict base32.StdEncoding.DecodeString over ASCII-only upper-casing (the folding closure is checked over all code points) / TrimSpace / right re-padding computed after trimming (guard and amount folded over the eight remainders); on every exported entry point and every JS-registered function the key of every hmac.New reached is DecodeSecret(…)#0, the decode error is returned, is non-nil and gates further work; the REST endpoints hand the secret through and test it only for presence.",
   "RFC 4648 decoding and strings.TrimSpace's space class are the standard library's."),
 "C08": ("other", "DESIGN.md §3 C08", "use-def confinement of the secret buffer, resolved callee identity, exhaustive path evaluation over the 256 hash values",
   "The one buffer is filled whole by crypto/rand.Read with the error checked, used for nothing but that fill and the whole-buffer unpadded StdEncoding encode, sized 20/32/64 for the three hashes and refused with an error for every other of the 256 values (all paths enumerated), with no state kept between calls.",
   "Quality of the OS random source is not decided. Trusted: crypto/rand.Read fills fully or fails."),
 "C10": ("other", "DESIGN.md §3 C10", "enumerated panic/hang obligations: compiler prove-pass residual list + interval/guard analysis with lifted preconditions, nilness by branch conditions, who-puts typestate for pool assertions, loop-bound recognition, call-graph acyclicity",
   "Every bounds check the Go compiler cannot eliminate, every non-constant divisor, every non-comma-ok assertion, every dereference of a pointer parameter, every explicit panic, every checked standard-library precondition and every loop of the functions reachable from the exported API (minus the documented Must* helpers) is an obligation discharged by interval analysis with dominating guards, preconditions lifted to all call sites and the Suite contract proved by decision tables. Sound for the enumerated panic classes under the stated assumptions; not a proof about the runtime.",
   "Trusted: the compiler's bounds-check elimination, stdlib documented preconditions. Excluded per the property: nil/user Suite values, LeftPadHex width outside 0..2^20, replaced TimeCounterFunc. OOM / stack exhaustion not decided."),
 "C16": ("other", "DESIGN.md §3 C16", "writer/reader table agreement by origin terms, taint-free structural escaping rule, interval analysis of numeric conversions",
   "No escaped text is stored in decoded URL fields and the query is url.Values.Encode(); every narrowing/sign-changing conversion reachable from the parser has an operand interval within the target type (from the ParseUint bit size or a gate) on 64- and 32-bit configurations; keys, hash names, scheme, type literals, label separator/prefix and defaults agree between generator and parser; each field maps to its own key / label half.",
   "Round-trip over all Unicode strings rests on net/url being self-inverse (trusted)."),
 "C17": ("other", "DESIGN.md §3 C17", "origin-term idiom matching, big-endian sweep recognition (induction + byte-lane pattern), sibling agreement, path enumeration",
   "Constant arguments of the parsers, the three 8-byte writers as one descending complete big-endian sweep that agree with each other, right-padding of the decimal question to 256 hex digits, left-padding of timestamps to 16, both paths of LeftPadHex, and the position-wise mapping and error propagation of the five hex fields.",
   "Numeric identity beyond the enumerated idioms and RFC end-to-end equality (C05) are not decided."),
 "C18": ("other", "DESIGN.md §3 C18", "route-table extraction + per-endpoint field mapping by JSON tag over origin terms; string-switch tables; write-effect statelessness of the service layer",
   "The path switch maps the ten documented routes to ten distinct handlers that call exactly the documented library operation behind their method gate; per endpoint every library argument and parameter-struct field is the documented request field (by JSON tag) through the documented transform, no undocumented field is set, the response field is the library's result; fall-back tables are as documented; requests are decoded into per-request locals and the service layer keeps no state (no package variables written, no pooled request objects, no locks).",
   "HTTP framing, JSON decoding semantics and fasthttp's concurrency are trusted/not decided; swagger text is not compared."),
 "C19": ("other", "DESIGN.md §3 C19", "loop-bound analysis over everything reachable from the handlers, middleware-chain structure, constant evaluation of server limits, error-branch → status dominance",
   "Every loop reachable from the router is bounded by ≤ 2^24 via constants, gates or container lengths with request fields unconstrained (client windows ≤ 10), no quadratic string accumulation over request data; the served handler is Chain(…Recovery…)(routers) with Recovery = defer{recover→5xx}; the read/write timeouts and body limit are positive constants; every error test in every handler answers a constant 4xx/5xx through writeError and returns, success sets 200, unknown paths 404.",
   "Actual latency, fasthttp internals and OS limits are not decided."),
 "C20": ("other", "DESIGN.md §3 C20", "sibling cross-check in the js/wasm configuration: JS export-table tokens vs. SSA registrations; the native composition/window/compare rules applied to the binding; error-string classification",
   "The JS package's export object binds each name to the registered global of the same name; the binding's derivation satisfies the native RFC 4226 composition rules (hash switch, key, counter encoding, shared truncation, digits gate, modulus table or a verified full-width 10^n, zero left-padding); both binding windows satisfy the native window rules and the js/wasm validator has the native comparison core; arguments reach their roles by parser name; every string returned to JS is 'error:'-prefixed or the operation's value.",
   "Source-level only: syscall/js coercion, the Node runtime and the checked-in otp.wasm binary are not analysed."),
}

PENDING_REASON = "not claimed at this commit: the rule set planned in DESIGN.md §3 is not implemented yet (no check is registered, so nothing is asserted)"

def registered():
    ids = set()
    for f in glob.glob(os.path.join(ROOT, 'sa/eng/*.go')):
        for m in re.finditer(r'id:\s*"(C\d+)"', open(f).read()):
            ids.add(m.group(1))
    return ids

def main():
    props = [json.loads(l) for l in open(os.path.join(ROOT, 'properties.jsonl'))]
    reg = registered()
    checks, na = [], []
    for p in props:
        i = p['id']
        if i in CLAIMS and i in reg:
            cat, ref, tech, text, note = CLAIMS[i]
            checks.append({
                "property_id": i,
                "quick_cmd": f"/verif/bin/check {i} quick",
                "thorough_cmd": f"/verif/bin/check {i} thorough",
                "evidence_file": f"/verif/evidence/{i}.json",
                "replay_cmd_template": "/verif/bin/otpsa replay {path}",
                "engine": "otpsa",
                "level_claimed": {"category": cat, "text": text, "design_ref": ref},
                "level_note": note,
                "technique": tech,
            })
        else:
            na.append({"property_id": i, "reason": NA.get(i, PENDING_REASON)})
    m = {
        "version": 1,
        "setup_cmd": "cd /verif/sa && . /verif/bin/env.sh && go build -o /verif/bin/otpsa ./cmd/otpsa",
        "hooks": {
            "guard": "verif",
            "enable": "none needed: the checks are static and read /repo's sources as they are; no hook or instrumentation exists in /repo (the build tag 'verif' is reserved and unused)",
            "baseline_off_cmd": base["cmd"],
            "source_commits": [],
            "add_only": True,
        },
        "engines": [{
            "name": "otpsa", "path": "/verif/sa",
            "serves_properties": [c["property_id"] for c in checks],
            "kind_free_text": "repository-specific static analyser over go/packages + go/ssa (x/tools v0.50.0): origin terms, intervals with dominating guards, write effects, taint, decision tables, constant tables; loads linux/amd64, js/wasm and linux/386 configurations of /repo's working tree on every run",
        }],
        "checks": checks,
        "not_applicable": na,
        "notes": "All checks are static (no code of /repo is executed). Violations and undecided obligations both fail the check with a VIOLATION line naming rule, function and construct; genuine defects found on the pinned tree were repaired by fix: commits and are recorded as fixed in known_findings.json.",
    }
    json.dump(m, open(os.path.join(ROOT, 'MANIFEST.json'), 'w'), indent=1)
    print("claimed:", [c["property_id"] for c in checks], "not_applicable:", len(na))

NA = {}
if __name__ == '__main__':
    main()
