#!/usr/bin/env python3
"""selftest.py <property-id>
Armed-both-ways self-test of one property's rules (thorough tier): every seeded single-change patch
for the property (/verif/variants/<id>/*.patch written by hand, /verif/seeded/<id>-m*/patch.diff from
independent sub-agents) is applied to a scratch copy of /repo's CURRENT working tree (outside /repo
and /verif), the copy must still be loadable, and the property's rules must report it; every benign
(behaviour-preserving) variant must leave the rules silent. Results are merged into the evidence file
under coverage.self_test. It never prints VIOLATION: it measures the checker, not /repo. A patch that
no longer applies to the current tree is skipped and counted."""
import sys, os, glob, json, subprocess, shutil, tempfile, concurrent.futures

pid = sys.argv[1]
root = os.environ.get('VERIF_ROOT', '/verif')
repo = os.environ.get('OTPSA_REPO', '/repo')
otpsa = '/verif/bin/otpsa'
base = tempfile.mkdtemp(prefix='otpsa-selftest-')

def run_one(args):
    kind, name, patch = args
    d = tempfile.mkdtemp(dir=base)
    cp = os.path.join(d, 'repo')
    try:
        subprocess.check_call(['rsync', '-a', '--exclude', '.git', repo + '/', cp + '/'])
        r = subprocess.run(['git', 'apply', '--unsafe-paths', '--directory=' + cp, patch], cwd='/', capture_output=True, text=True)
        if r.returncode != 0:
            r = subprocess.run(['patch', '-p1', '-s', '-f', '-d', cp, '-i', patch], capture_output=True, text=True)
            if r.returncode != 0:
                return (kind, name, 'skipped', 'patch does not apply to the current tree')
        env = dict(os.environ, OTPSA_REPO=cp, VERIF_ROOT=os.path.join(d, 'out'))
        env.pop('GOFLAGS', None)
        os.makedirs(os.path.join(d, 'out'), exist_ok=True)
        r = subprocess.run([otpsa, 'check', pid, 'quick'], env=env, capture_output=True, text=True, timeout=900)
        rules = sorted({l.split('rule ')[1].split(',')[0] for l in r.stdout.splitlines() if l.startswith('  VIOLATED') or l.startswith('  UNDECIDED')})
        if r.returncode == 0:
            return (kind, name, 'silent', '')
        if 'MACHINERY' in r.stdout and not rules:
            return (kind, name, 'machinery', r.stdout[-300:])
        return (kind, name, 'fired', ','.join(rules))
    except Exception as ex:
        return (kind, name, 'error', str(ex)[:200])
    finally:
        shutil.rmtree(d, ignore_errors=True)

jobs = []
for p in sorted(glob.glob(f'/verif/variants/{pid}/*.patch')):
    jobs.append(('variant', os.path.basename(p)[:-6], p))
for p in sorted(glob.glob(f'/verif/seeded/{pid}-[mnpqrst]*/patch.diff')):
    jobs.append(('seeded', os.path.basename(os.path.dirname(p)), p))
# the refactoring corpus (175 patches) is sampled in the registered thorough run to keep it within a few minutes;
# SELFTEST_FULL=1 runs all of it (as tools/run_benign_all.py does)
refactor = sorted(glob.glob('/verif/variants/refactor/*.patch'))
refactor_sample = 'full'
if not os.environ.get('SELFTEST_FULL'):
    k = sum(ord(ch) for ch in pid) % 7
    refactor = [p for i, p in enumerate(refactor) if i % 7 == k]
    refactor_sample = 'every 7th patch (offset %d); SELFTEST_FULL=1 for all' % k
for p in sorted(glob.glob('/verif/variants/benign/*.patch')) + refactor:
    jobs.append(('benign', os.path.basename(p)[:-6], p))
# refactorings into idioms no rule recognises (documented in DESIGN.md section 8): reported separately
known_undecided = {}
try:
    for line in open('/verif/variants/refactor/KNOWN_UNDECIDED.txt'):
        line = line.split('#')[0].strip()
        if line:
            n, props = line.split(':')
            known_undecided[n.strip()] = [x.strip() for x in props.split(',')]
except FileNotFoundError:
    pass
res = []
with concurrent.futures.ThreadPoolExecutor(max_workers=int(os.environ.get('SELFTEST_JOBS', '6'))) as ex:
    for r in ex.map(run_one, jobs):
        res.append(r)
shutil.rmtree(base, ignore_errors=True)
breaking = [r for r in res if r[0] in ('variant', 'seeded')]
benign = [r for r in res if r[0] == 'benign' and not (r[2] == 'fired' and pid in known_undecided.get(r[1], []))]
documented = [r for r in res if r[0] == 'benign' and r[2] == 'fired' and pid in known_undecided.get(r[1], [])]
st = {
    'breaking_total': len(breaking),
    'breaking_fired': sum(1 for r in breaking if r[2] == 'fired'),
    'breaking_missed': [r[1] for r in breaking if r[2] == 'silent'],
    'breaking_skipped': [r[1] for r in breaking if r[2] in ('skipped', 'error', 'machinery')],
    'benign_total': len(benign),
    'benign_silent': sum(1 for r in benign if r[2] == 'silent'),
    'benign_false_alarms': [r[1] + ':' + r[3] for r in benign if r[2] == 'fired'],
    'benign_skipped': [r[1] for r in benign if r[2] in ('skipped', 'error', 'machinery')],
    'fired_rules': {r[1]: r[3] for r in breaking if r[2] == 'fired'},
    'refactor_corpus': refactor_sample,
    'benign_documented_undecided': [r[1] + ':' + r[3] for r in documented],
}
print(f"SELFTEST {pid}: breaking {st['breaking_fired']}/{st['breaking_total']} reported (missed {st['breaking_missed']}, skipped {len(st['breaking_skipped'])}); benign {st['benign_silent']}/{st['benign_total']} silent (false alarms {st['benign_false_alarms']})")
ev = os.path.join(root, 'evidence', pid + '.json')
try:
    e = json.load(open(ev))
    e['coverage']['self_test'] = st
    json.dump(e, open(ev, 'w'), indent=1)
    open(ev, 'a').write('\n')
except Exception as ex:
    print('selftest: cannot merge into evidence:', ex)
