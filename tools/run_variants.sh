#!/bin/bash
# usage: run_variants.sh <prop> [tier]  — runs every /verif/variants/<prop>/*.patch and /verif/seeded/*/ patch.diff that lists the property
prop="$1"; tier="${2:-quick}"
for p in /verif/variants/$prop/*.patch; do
  [ -f "$p" ] || continue
  r=$(/verif/bin/mutest "$prop" "$p" "$tier" | tail -1)
  echo "$(basename $p .patch): $r"
done
