#!/bin/bash
# allquick.sh : all 20 quick checks on /repo's tree, one line each (developer aid)
cd /verif; bin/check C01 quick >/dev/null 2>&1  # ensures the binary is fresh
for i in $(seq -w 1 20); do ( bin/check C$i quick 2>&1 | tail -1 ) & done | sort; wait
